use std::path::PathBuf;
use std::sync::atomic::{AtomicUsize, Ordering};

static N: AtomicUsize = AtomicUsize::new(0);

pub fn mk(cfg: &str, files: &[(&str, &str)]) -> PathBuf {
    let n = N.fetch_add(1, Ordering::SeqCst);
    let dir = std::env::temp_dir().join(format!("c09_probe_{}_{}", std::process::id(), n));
    let _ = std::fs::remove_dir_all(&dir);
    std::fs::create_dir_all(&dir).unwrap();
    std::fs::write(
        dir.join("Cargo.toml"),
        format!("[package]\nname=\"x\"\n\n[package.metadata.leptos-i18n]\n{}\n", cfg),
    )
    .unwrap();
    for (p, c) in files {
        let p = dir.join(p);
        std::fs::create_dir_all(p.parent().unwrap()).unwrap();
        std::fs::write(p, c).unwrap();
    }
    dir
}

fn run(cfg: &str, files: &[(&str, &str)]) -> String {
    let dir = mk(cfg, files);
    let r = leptos_i18n_parser::parse_locales::parse_locales(true, Some(dir.clone()));
    let _ = std::fs::remove_dir_all(&dir);
    match r {
        Ok((k, _w, _)) => format!("OK {:?}", k),
        Err(e) => format!("ERR {}", e),
    }
}

const CFG: &str = "default = \"en\"\nlocales = [\"en\"]";

#[test]
fn dup_key_subkeys_then_literal() {
    let s = run(CFG, &[("locales/en.json", r#"{"a": {"sub": "$t(b)"}, "a": "x", "b": "y"}"#)]);
    println!("{s}");
}

#[test]
fn dup_key_fk_then_literal() {
    let s = run(CFG, &[("locales/en.json", r#"{"a": "$t(b)", "a": "x", "b": "y"}"#)]);
    println!("{s}");
}

fn in_big_thread<F: FnOnce() -> String + Send + 'static>(f: F) -> String {
    std::thread::Builder::new().stack_size(8 * 1024 * 1024).spawn(f).unwrap().join().unwrap()
}

#[test]
fn many_vars() {
    let n: usize = std::env::var("C09_N").ok().and_then(|s| s.parse().ok()).unwrap_or(1000);
    let s = in_big_thread(move || {
        let v = "{{a}}".repeat(n);
        let t0 = std::time::Instant::now();
        let s = run(CFG, &[("locales/en.json", &format!(r#"{{"a": "{}"}}"#, v))]);
        format!("{:?} {}", t0.elapsed(), s.len())
    });
    println!("{s}");
}

#[test]
fn many_comps() {
    let n: usize = std::env::var("C09_N").ok().and_then(|s| s.parse().ok()).unwrap_or(200);
    let s = in_big_thread(move || {
        let v = format!("{}x{}", "<b>".repeat(n), "</b>".repeat(n));
        let t0 = std::time::Instant::now();
        let s = run(CFG, &[("locales/en.json", &format!(r#"{{"a": "{}"}}"#, v))]);
        format!("{:?} {}", t0.elapsed(), s.len())
    });
    println!("{s}");
}

#[test]
fn many_vars_new_only() {
    use leptos_i18n_parser::parse_locales::{parsed_value::ParsedValue, ForeignKeysPaths};
    use leptos_i18n_parser::utils::{Key, KeyPath};
    let n: usize = std::env::var("C09_N").ok().and_then(|s| s.parse().ok()).unwrap_or(1000);
    let s = in_big_thread(move || {
        let v = "{{a}}".repeat(n);
        let fk = ForeignKeysPaths::new();
        let r = ParsedValue::new(&v, &KeyPath::new(None), &Key::new("en").unwrap(), &fk);
        println!("parsed ok={}", r.is_ok());
        std::mem::forget(r);
        "done".to_string()
    });
    println!("{s}");
}

#[test]
fn fk_chain() {
    let n: usize = std::env::var("C09_N").ok().and_then(|s| s.parse().ok()).unwrap_or(500);
    let s = in_big_thread(move || {
        let mut f = String::from("{");
        for i in 0..n {
            f.push_str(&format!("\"k{}\": \"$t(k{})\", ", i, i + 1));
        }
        f.push_str(&format!("\"k{}\": \"end\"}}", n));
        let dir = mk(CFG, &[("locales/en.json", &f)]);
        let t0 = std::time::Instant::now();
        let r = leptos_i18n_parser::parse_locales::parse_locales(true, Some(dir.clone()));
        let ok = r.is_ok();
        if let Err(e) = &r { println!("{e}"); }
        std::mem::forget(r);
        format!("{:?} ok={}", t0.elapsed(), ok)
    });
    println!("{s}");
}

#[test]
fn fk_doubling() {
    let n: usize = std::env::var("C09_N").ok().and_then(|s| s.parse().ok()).unwrap_or(10);
    let s = in_big_thread(move || {
        let mut f = String::from("{");
        for i in 0..n {
            f.push_str(&format!("\"k{}\": \"$t(k{})$t(k{})\", ", i, i + 1, i + 1));
        }
        f.push_str(&format!("\"k{}\": \"{{{{ v }}}}\"}}", n));
        let dir = mk(CFG, &[("locales/en.json", &f)]);
        let t0 = std::time::Instant::now();
        let r = leptos_i18n_parser::parse_locales::parse_locales(true, Some(dir.clone()));
        let ok = r.is_ok();
        if let Err(e) = &r { println!("{e}"); }
        format!("file {} bytes, {:?} ok={}", f.len(), t0.elapsed(), ok)
    });
    println!("{s}");
}

#[test]
fn fuzz_new() {
    use leptos_i18n_parser::parse_locales::{parsed_value::ParsedValue, ForeignKeysPaths};
    use leptos_i18n_parser::utils::{Key, KeyPath};
    let toks = ["{{", "}}", "{", "}", "<", ">", "</", "/", "$t(", "$t", "(", ")", ",", ":", ".", " ", "a", "b", "é", "日", "\u{a0}", "\"", "\\", "{\"a\":\"b\"}", "{\"count\":1}", "1", "-", "_", "|", "..", "=", ";", "number", "date(date_length: full)", "\u{1F600}", "\n"];
    let mut seed: u64 = 0x9E3779B97F4A7C15;
    let mut next = || { seed ^= seed << 13; seed ^= seed >> 7; seed ^= seed << 17; seed };
    let fk = ForeignKeysPaths::new();
    let kp = KeyPath::new(None);
    let loc = Key::new("en").unwrap();
    let mut ok = 0usize; let mut err = 0usize;
    for _ in 0..300_000 {
        let len = (next() % 12) as usize + 1;
        let mut s = String::new();
        for _ in 0..len { s.push_str(toks[(next() % toks.len() as u64) as usize]); }
        let s2 = s.clone();
        let r = std::panic::catch_unwind(std::panic::AssertUnwindSafe(|| ParsedValue::new(&s2, &kp, &loc, &fk)));
        match r {
            Ok(Ok(mut v)) => { ok += 1; let r2 = std::panic::catch_unwind(std::panic::AssertUnwindSafe(|| { /* reduce would hit unresolved FK */ let _ = &mut v; })); let _ = r2; }
            Ok(Err(_)) => err += 1,
            Err(_) => panic!("PANIC on input {:?}", s),
        }
    }
    println!("ok={ok} err={err}");
}
