use std::path::PathBuf;
use std::sync::atomic::{AtomicUsize, Ordering};

static N: AtomicUsize = AtomicUsize::new(0);

pub fn mk(cfg: &str, files: &[(&str, &str)]) -> PathBuf {
    let n = N.fetch_add(1, Ordering::SeqCst);
    let dir = std::env::temp_dir().join(format!("c09_mprobe_{}_{}", std::process::id(), n));
    let _ = std::fs::remove_dir_all(&dir);
    std::fs::create_dir_all(&dir).unwrap();
    std::fs::write(
        dir.join("Cargo.toml"),
        format!("[package]\nname=\"x\"\n\n[package.metadata.leptos-i18n]\n{}\n", cfg),
    )
    .unwrap();
    for (p, c) in files {
        let p = dir.join(p);
        std::fs::create_dir_all(p.parent().unwrap()).unwrap();
        std::fs::write(p, c).unwrap();
    }
    dir
}

/// parse + generate, like `load_locales!` does.
pub fn gen(cfg: &str, files: &[(&str, &str)], display: bool) -> Result<String, String> {
    let dir = mk(cfg, files);
    let r = leptos_i18n_parser::parse_locales::parse_locales_raw(false, Some(dir.clone()));
    let _ = std::fs::remove_dir_all(&dir);
    let (locales, cfg_file, foreign_keys, warnings, tracked_files) = r.map_err(|e| e.to_string())?;
    let crate_path = syn::Path::from(syn::Ident::new("leptos_i18n", proc_macro2::Span::call_site()));
    super::load_locales_inner(
        &crate_path,
        &cfg_file,
        locales,
        foreign_keys,
        warnings,
        Some(tracked_files),
        display,
    )
    .map(|ts| ts.to_string())
    .map_err(|e| e.to_string())
}

fn show(name: &str, cfg: &str, files: &[(&str, &str)]) {
    for display in [false, true] {
        match gen(cfg, files, display) {
            Ok(s) => println!("[{name}] display={display} OK ({} bytes)", s.len()),
            Err(e) => println!("[{name}] display={display} ERR {e}"),
        }
    }
}

const CFG: &str = "default = \"en\"\nlocales = [\"en\"]";
const CFG2: &str = "default = \"en\"\nlocales = [\"en\", \"fr\"]";

#[test]
fn dashed_key_interpolated() {
    show("dashed", CFG, &[("locales/en.json", r#"{"sign-in": "Hello {{ name }}"}"#)]);
}

#[test]
fn dashed_key_plain() {
    show("dashed_plain", CFG, &[("locales/en.json", r#"{"sign-in": "Hello"}"#)]);
}

#[test]
fn dashed_subkeys() {
    show("dashed_sub", CFG, &[("locales/en.json", r#"{"sign-in": {"a": "x"}}"#)]);
}

#[test]
fn raw_key() {
    show("raw", CFG, &[("locales/en.json", r#"{"r#type": "Hello {{ name }}"}"#)]);
}

#[test]
fn empty_namespaces() {
    show("empty_ns", "default = \"en\"\nlocales = [\"en\"]\nnamespaces = []", &[]);
}

#[test]
fn two_locales_basic() {
    show("basic2", CFG2, &[("locales/en.json", r#"{"a": "x {{ v }} <b>y</b>", "n_one": "one", "n_other": "{{ count }}"}"#), ("locales/fr.json", r#"{"a": null, "n_one": "un", "n_other": "{{ count }}"}"#)]);
}

fn en(name: &str, content: &str) {
    show(name, CFG, &[("locales/en.json", content)]);
}
fn enfr(name: &str, a: &str, b: &str) {
    show(name, CFG2, &[("locales/en.json", a), ("locales/fr.json", b)]);
}

#[test]
fn batch1() {
    en("fk_plural_count_float", r#"{"a": "$t(n, {\"count\": 1.5})", "n_one": "one", "n_other": "{{ count }}"}"#);
    en("fk_plural_count_bigfloat", r#"{"a": "$t(n, {\"count\": 1e308})", "n_one": "one", "n_other": "{{ count }}"}"#);
    en("fk_plural_count_tinyfloat", r#"{"a": "$t(n, {\"count\": 5e-324})", "n_one": "one", "n_other": "{{ count }}"}"#);
    en("fk_plural_count_negzero", r#"{"a": "$t(n, {\"count\": -0.0})", "n_one": "one", "n_other": "{{ count }}"}"#);
    en("fk_plural_count_neg", r#"{"a": "$t(n, {\"count\": -9223372036854775808})", "n_one": "one", "n_other": "{{ count }}"}"#);
    en("fk_plural_count_umax", r#"{"a": "$t(n, {\"count\": 18446744073709551615})", "n_one": "one", "n_other": "{{ count }}"}"#);
    en("fk_plural_count_bool", r#"{"a": "$t(n, {\"count\": true})", "n_one": "one", "n_other": "{{ count }}"}"#);
    en("fk_plural_count_str", r#"{"a": "$t(n, {\"count\": \"x\"})", "n_one": "one", "n_other": "{{ count }}"}"#);
    en("fk_plural_count_var", r#"{"a": "$t(n, {\"count\": \" {{ x }} \"})", "n_one": "one", "n_other": "{{ count }}"}"#);
    en("fk_plural_count_var_fmt", r#"{"a": "$t(n, {\"count\": \"{{ x, number }}\"})", "n_one": "one", "n_other": "{{ count }}"}"#);
    en("fk_range_count_lit", r#"{"a": "$t(n, {\"count\": 3})", "n": [["zero", 0], ["{{ count }} many", "1.."]]}"#);
    en("fk_range_count_nomatch", r#"{"a": "$t(n, {\"count\": -3})", "n": [["zero", 0], ["{{ count }} many", "1.."]]}"#);
    en("fk_range_count_float_f32", r#"{"a": "$t(n, {\"count\": 1e300})", "n": ["f32", ["zero", 0], ["{{ count }} many", "1.."], ["other"]]}"#);
    en("fk_range_in_range", r#"{"a": [["$t(n)", 0], ["x"]], "n": [["zero", 0], ["{{ count }} many", "1.."], ["f"]]}"#);
    en("fk_range_in_range_types", r#"{"a": [["$t(n)", 0], ["x"]], "n": ["u8", ["zero", 0], ["{{ count }} many", "1.."]]}"#);
    en("fk_plural_in_range", r#"{"a": [["$t(n)", 0], ["x"]], "n_one": "one", "n_other": "{{ count }}"}"#);
    en("lit_types", r#"{"a": 1, "b": -1, "c": 1.5, "d": true, "e": 1e300, "f": -0.0, "g": 18446744073709551615, "h": -9223372036854775808}"#);
    en("empty_string", r#"{"a": "", "b": "<b></b>", "c": "$t(a)", "d": "$t(a)$t(a)"}"#);
    en("fk_lit_join", r#"{"a": 1, "b": true, "c": 1.5, "d": "$t(a)$t(b)$t(c)", "e": "$t(c)$t(b)x"}"#);
    en("fk_args_lit", r#"{"a": "{{ x }}{{ y }}", "b": "$t(a, {\"x\": 1, \"y\": true})", "c": "$t(a, {\"x\": 1.5, \"y\": -2})"}"#);
    en("fk_only_lit_arg", r#"{"a": "{{ x }}", "b": "$t(a, {\"x\": 1})", "c": "$t(a, {\"x\": 1.5})", "d": "$t(a, {\"x\": false})"}"#);
    enfr("lit_type_mismatch", r#"{"a": 1}"#, r#"{"a": "x"}"#);
    enfr("lit_vs_interp", r#"{"a": 1}"#, r#"{"a": "{{ v }}"}"#);
    enfr("sub_default", r#"{"a": {"b": {"c": "x {{ v }}"}}}"#, r#"{"a": null}"#);
    enfr("sub_missing", r#"{"a": {"b": {"c": "x {{ v }}"}}}"#, r#"{}"#);
    enfr("sub_mismatch", r#"{"a": {"b": "x"}}"#, r#"{"a": "x"}"#);
    enfr("plural_vs_string", r#"{"a_one": "x", "a_other": "y"}"#, r#"{"a": "z"}"#);
    enfr("plural_vs_range", r#"{"a_one": "x", "a_other": "y"}"#, r#"{"a": [["zero", 0], ["f"]]}"#);
    enfr("range_type_mismatch", r#"{"a": ["u8", ["zero", 0], ["f"]]}"#, r#"{"a": [["zero", 0], ["f"]]}"#);
    en("count_var_and_plural", r#"{"a_one": "{{ count, number }}", "a_other": "{{ count }} <b>{{ count }}</b>"}"#);
    en("ordinal", r#"{"a_ordinal_one": "{{ count }}st", "a_ordinal_two": "{{ count }}nd", "a_ordinal_other": "{{ count }}th"}"#);
    en("weird_plural_keys", r#"{"_one": "x", "_other": "y"}"#);
    en("weird_plural_keys2", r#"{"_ordinal_one": "x", "_ordinal_other": "y"}"#);
    en("weird_plural_keys3", r#"{"a__one": "x", "a__other": "y"}"#);
    en("plural_only_other", r#"{"a_other": "y {{ count }}"}"#);
    en("plural_sub", r#"{"a_one": {"x": "y"}, "a_other": "y {{ count }}"}"#);
    en("range_multi_nested", r#"{"a": [["v", ["1", "2"], "3", []], ["w"]]}"#);
    en("range_multi_fallbacks", r#"{"a": [["v", [], []]]}"#);
    en("range_f32_multi_fallbacks", r#"{"a": ["f32", ["v", [], []]]}"#);
    en("range_map_form", r#"{"a": [{"count": "1 | 2", "value": "x"}, {"value": "y"}]}"#);
    en("range_17", r#"{"a": [["v0",0],["v1",1],["v2",2],["v3",3],["v4",4],["v5",5],["v6",6],["v7",7],["v8",8],["v9",9],["v10",10],["v11",11],["v12",12],["v13",13],["v14",14],["v15",15],["v16",16],["f"]]}"#);
    en("many_tuple", &format!(r#"{{"a": "{}"}}"#, "x{{ v }}".repeat(100)));
}

struct Rng(u64);
impl Rng {
    fn next(&mut self) -> u64 { self.0 ^= self.0 << 13; self.0 ^= self.0 >> 7; self.0 ^= self.0 << 17; self.0 }
    fn pick<'a, T: ?Sized>(&mut self, v: &[&'a T]) -> &'a T { v[(self.next() % v.len() as u64) as usize] }
    fn below(&mut self, n: u64) -> u64 { self.next() % n }
}

const KEYS: &[&str] = &["a", "b", "c", "a_one", "a_other", "a_two", "b_other", "b_one", "a_ordinal_one", "a_ordinal_other", "b_ordinal_other", "c_few", "c_other", "s", "t", "count"];
const FRAGS: &[&str] = &[
    "x", " ", "", "{{ v }}", "{{ count }}", "{{ w }}", "<b>", "</b>", "<i>y</i>", "<b>{{ v }}</b>",
    "$t(a)", "$t(b)", "$t(c)", "$t(s.a)", "$t(s)", "$t(t.b)", "$t(a_one)", "$t(count)",
    "$t(a, {\\\"count\\\": 1})", "$t(b, {\\\"count\\\": 0})", "$t(c, {\\\"count\\\": 2.5})", "$t(a, {\\\"count\\\": \\\"{{ n }}\\\"})",
    "$t(b, {\\\"v\\\": \\\"$t(c)\\\"})", "$t(c, {\\\"v\\\": \\\"<b>z</b>\\\", \\\"count\\\": \\\"{{ v }}\\\"})", "$t(a, {\\\"v\\\": 3, \\\"w\\\": true})",
    "$t(s.b, {\\\"count\\\": -1})", "$t(a, {\\\"count\\\": \\\"x\\\"})",
];

fn gen_str(r: &mut Rng) -> String {
    let n = r.below(4) + 1;
    let mut s = String::from("\"");
    for _ in 0..n { s.push_str(r.pick(FRAGS)); }
    s.push('"');
    s
}

fn gen_range(r: &mut Rng) -> String {
    let mut s = String::from("[");
    if r.below(3) == 0 { s.push_str(&format!("\"{}\", ", r.pick(&["i8", "u8", "f32", "f64", "u64", "i32"]))); }
    let n = r.below(3);
    for _ in 0..n {
        let c = r.pick(&["0", "1", "\"2..5\"", "\"..0\"", "\"5..\"", "\"1 | 3\"", "2.5", "-1", "\"_\"", "[]", "\"0\", 1"]);
        s.push_str(&format!("[{}, {}], ", gen_str(r), c));
    }
    if r.below(4) != 0 { s.push_str(&format!("[{}]", gen_str(r))); } else if s.ends_with(", ") { s.truncate(s.len() - 2); }
    s.push(']');
    s
}

fn gen_value(r: &mut Rng, depth: u32) -> String {
    match r.below(12) {
        0 => "null".to_string(),
        1 => r.pick(&["1", "-1", "1.5", "true", "0"]).to_string(),
        2 | 3 => gen_range(r),
        4 if depth < 2 => gen_map(r, depth + 1),
        _ => gen_str(r),
    }
}

fn gen_map(r: &mut Rng, depth: u32) -> String {
    let n = r.below(5) + 1;
    let mut used: Vec<&str> = vec![];
    let mut s = String::from("{");
    for _ in 0..n {
        let k = r.pick(KEYS);
        if used.contains(&k) { continue; }
        used.push(k);
        if s.len() > 1 { s.push_str(", "); }
        s.push_str(&format!("\"{}\": {}", k, gen_value(r, depth)));
    }
    s.push('}');
    s
}

#[test]
fn fuzz_pipeline() {
    let iters: u64 = std::env::var("C09_ITERS").ok().and_then(|s| s.parse().ok()).unwrap_or(3000);
    let seed: u64 = std::env::var("C09_SEED").ok().and_then(|s| s.parse().ok()).unwrap_or(12345);
    let mut r = Rng(seed.wrapping_mul(0x9E3779B97F4A7C15) | 1);
    let cfgs = [
        "default = \"en\"\nlocales = [\"en\", \"fr\", \"it\"]",
        "default = \"en\"\nlocales = [\"en\", \"fr\", \"it\"]\ninherits = { fr = \"it\" }",
        "default = \"en\"\nlocales = [\"en\", \"fr\", \"it\"]\ninherits = { fr = \"it\", it = \"fr\" }",
        "default = \"en\"\nlocales = [\"fr\", \"it\"]\ninherits = { it = \"fr\" }",
    ];
    std::panic::set_hook(Box::new(|_| {}));
    let (mut ok, mut err, mut pan) = (0, 0, 0);
    let mut hist: std::collections::BTreeMap<String, usize> = Default::default();
    let mut seen: std::collections::BTreeSet<String> = Default::default();
    for _ in 0..iters {
        let cfg = cfgs[r.below(cfgs.len() as u64) as usize];
        let en = gen_map(&mut r, 0);
        let fr = if r.below(3) == 0 { en.clone() } else { gen_map(&mut r, 0) };
        let it = if r.below(3) == 0 { en.clone() } else { gen_map(&mut r, 0) };
        let display = r.below(2) == 0;
        let (en2, fr2, it2) = (en.clone(), fr.clone(), it.clone());
        let res = std::panic::catch_unwind(move || {
            gen(cfg, &[("locales/en.json", &en2), ("locales/fr.json", &fr2), ("locales/it.json", &it2)], display)
        });
        match res {
            Ok(Ok(_)) => ok += 1,
            Ok(Err(e)) => { err += 1; let k: String = e.split(|c: char| c == '"' || c == '/').next().unwrap_or("").chars().take(60).collect(); *hist.entry(k).or_insert(0usize) += 1; }
            Err(p) => {
                pan += 1;
                let msg = p.downcast_ref::<String>().cloned().or_else(|| p.downcast_ref::<&str>().map(|s| s.to_string())).unwrap_or_default();
                let short: String = msg.chars().take(90).collect();
                if seen.insert(short.clone()) {
                    println!("PANIC {short}\n  cfg={cfg:?}\n  en={en}\n  fr={fr}\n  it={it}\n  display={display}");
                }
            }
        }
    }
    let _ = std::panic::take_hook();
    println!("ok={ok} err={err} panics={pan}");
    for (k, v) in hist { println!("  {v:6} {k}"); }
}

// ---------- schema-based generator ----------
#[derive(Clone, Copy, PartialEq)]
enum Kind { Str, Card, Ord, Range, Sub, Lit }

fn frag2(r: &mut Rng, targets: &[(String, Kind)], depth: u32) -> String {
    match r.below(10) {
        0 => "x".into(), 1 => " ".into(), 2 => "{{ v }}".into(), 3 => "{{ w }}".into(),
        4 => format!("<b>{}</b>", if depth < 2 { frag2(r, targets, depth + 1) } else { "y".into() }),
        5 => "<i>z</i>".into(),
        _ => {
            if targets.is_empty() || depth > 1 { return "q".into(); }
            let (t, k) = &targets[r.below(targets.len() as u64) as usize];
            let arg = |r: &mut Rng| -> String {
                match r.below(8) {
                    0 => "\\\"count\\\": 1".into(), 1 => "\\\"count\\\": 0".into(), 2 => "\\\"count\\\": \\\"{{ n }}\\\"".into(),
                    3 => "\\\"v\\\": 3".into(), 4 => "\\\"v\\\": \\\"<u>k</u>\\\"".into(),
                    5 => "\\\"count\\\": 7, \\\"v\\\": \\\"{{ w }}\\\"".into(),
                    6 => "\\\"count\\\": \\\" {{ v }} \\\"".into(),
                    _ => "\\\"w\\\": true".into(),
                }
            };
            let _ = k;
            if r.below(2) == 0 { format!("$t({t})") } else { format!("$t({t}, {{{}}})", arg(r)) }
        }
    }
}

fn str2(r: &mut Rng, targets: &[(String, Kind)]) -> String {
    let n = r.below(3) + 1;
    let mut s = String::from("\"");
    for _ in 0..n { s.push_str(&frag2(r, targets, 0)); }
    if r.below(6) == 0 { s.push_str("{{ count }}"); }
    s.push('"');
    s
}

fn emit(r: &mut Rng, key: &str, kind: Kind, targets: &[(String, Kind)], prefix: &str, out: &mut Vec<String>, mutate: bool) {
    if mutate {
        match r.below(30) { 0 | 1 | 2 => { out.push(format!("\"{key}\": null")); return; } 3 => return, _ => {} }
    }
    match kind {
        Kind::Str => out.push(format!("\"{key}\": {}", str2(r, targets))),
        Kind::Lit => out.push(format!("\"{key}\": {}", r.pick(&["1", "-1", "1.5", "true"]))),
        Kind::Card | Kind::Ord => {
            let o = if kind == Kind::Ord { "_ordinal" } else { "" };
            for f in ["one", "two", "few", "many", "zero"] { if f == "one" || r.below(3) == 0 { out.push(format!("\"{key}{o}_{f}\": {}", str2(r, targets))); } }
            out.push(format!("\"{key}{o}_other\": {}", str2(r, targets)));
        }
        Kind::Range => {
            let mut s = String::from("[");
            let n = r.below(3);
            for _ in 0..n {
                let c = r.pick(&["0", "1", "\"2..5\"", "\"..0\"", "\"5..\"", "\"1 | 3\"", "-1", "\"0\", 1"]);
                s.push_str(&format!("[{}, {}], ", str2(r, targets), c));
            }
            s.push_str(&format!("[{}]]", str2(r, targets)));
            out.push(format!("\"{key}\": {s}"));
        }
        Kind::Sub => {
            let mut inner = vec![];
            let sub_targets: Vec<(String, Kind)> = targets.to_vec();
            for (k, kd) in [("a", Kind::Str), ("b", Kind::Card), ("c", Kind::Range)] {
                if r.below(40) != 0 { emit(r, k, kd, &sub_targets, &format!("{prefix}{key}."), &mut inner, mutate); }
            }
            if inner.is_empty() { inner.push("\"a\": \"x\"".into()); }
            out.push(format!("\"{key}\": {{{}}}", inner.join(", ")));
        }
    }
}

#[test]
fn fuzz_pipeline2() {
    let iters: u64 = std::env::var("C09_ITERS").ok().and_then(|s| s.parse().ok()).unwrap_or(3000);
    let seed: u64 = std::env::var("C09_SEED").ok().and_then(|s| s.parse().ok()).unwrap_or(12345);
    let mut r = Rng(seed.wrapping_mul(0x9E3779B97F4A7C15) | 1);
    let cfgs = [
        "default = \"en\"\nlocales = [\"en\", \"fr\", \"it\"]",
        "default = \"en\"\nlocales = [\"en\", \"fr\", \"it\"]\ninherits = { fr = \"it\" }",
        "default = \"en\"\nlocales = [\"en\", \"fr\", \"it\"]\ninherits = { fr = \"it\", it = \"fr\" }",
        "default = \"en\"\nlocales = [\"fr\", \"it\"]\ninherits = { it = \"fr\" }",
    ];
    std::panic::set_hook(Box::new(|_| {}));
    let (mut ok, mut err, mut pan) = (0, 0, 0);
    let mut hist: std::collections::BTreeMap<String, usize> = Default::default();
    let mut seen: std::collections::BTreeSet<String> = Default::default();
    for _ in 0..iters {
        let cfg = cfgs[r.below(cfgs.len() as u64) as usize];
        let names = ["k0", "k1", "k2", "k3", "k4", "k5"];
        let nk = r.below(5) + 2;
        let schema: Vec<(String, Kind)> = (0..nk).map(|i| (names[i as usize].to_string(), match r.below(8) { 0 | 1 | 2 => Kind::Str, 3 => Kind::Card, 4 => Kind::Ord, 5 => Kind::Range, 6 => Kind::Sub, _ => Kind::Lit })).collect();
        let mut targets: Vec<(String, Kind)> = schema.iter().filter(|(_, k)| *k != Kind::Sub).cloned().collect();
        for (k, kd) in &schema { if *kd == Kind::Sub { targets.push((format!("{k}.a"), Kind::Str)); targets.push((format!("{k}.b"), Kind::Card)); targets.push((format!("{k}.c"), Kind::Range)); } }
        let mut files = vec![];
        for (li, _) in ["en", "fr", "it"].iter().enumerate() {
            let mut out = vec![];
            for (k, kd) in &schema {
                let kd = if li > 0 && r.below(12) == 0 { *r.pick(&[&Kind::Str, &Kind::Card, &Kind::Range, &Kind::Lit, &Kind::Sub]) } else { *kd };
                // only reference later keys most of the time to limit cycles
                let idx = schema.iter().position(|(n, _)| n == k).unwrap();
                let tg: Vec<(String, Kind)> = if r.below(40) == 0 { targets.clone() } else { targets.iter().filter(|(n, _)| n.as_str() > k.as_str() && !n.starts_with(&format!("{k}."))).cloned().collect() };
                let _ = idx;
                emit(&mut r, k, kd, &tg, "", &mut out, li > 0);
            }
            files.push(format!("{{{}}}", out.join(", ")));
        }
        let display = r.below(2) == 0;
        let f2 = files.clone();
        let res = std::panic::catch_unwind(move || {
            gen(cfg, &[("locales/en.json", &f2[0]), ("locales/fr.json", &f2[1]), ("locales/it.json", &f2[2])], display)
        });
        match res {
            Ok(Ok(_)) => ok += 1,
            Ok(Err(e)) => { err += 1; let k: String = e.split(|c: char| c == '"' || c == '/').next().unwrap_or("").chars().take(60).collect(); let c = hist.entry(k).or_insert(0usize); *c += 1; if *c <= 0 { println!("SAMPLE {e}\n  en={}\n  fr={}\n  it={}", files[0], files[1], files[2]); } }
            Err(p) => {
                pan += 1;
                let msg = p.downcast_ref::<String>().cloned().or_else(|| p.downcast_ref::<&str>().map(|s| s.to_string())).unwrap_or_default();
                let short: String = msg.chars().take(90).collect();
                if seen.insert(short.clone()) {
                    println!("PANIC {short}\n  cfg={cfg:?}\n  en={}\n  fr={}\n  it={}\n  display={display}", files[0], files[1], files[2]);
                }
            }
        }
    }
    let _ = std::panic::take_hook();
    println!("ok={ok} err={err} panics={pan}");
    for (k, v) in hist { println!("  {v:6} {k}"); }
}

#[test]
fn raw_locale_name() {
    show("raw_locale", "default = \"r#en\"\nlocales = [\"r#en\"]", &[("locales/r#en.json", r#"{"a": "x"}"#)]);
}
#[test]
fn odd_locale_name() {
    show("odd_locale", "default = \"ŉ\"\nlocales = [\"ŉ\"]", &[("locales/ŉ.json", r#"{"a": "x"}"#)]);
    show("bad_langid", "default = \"english_language\"\nlocales = [\"english_language\"]", &[("locales/english_language.json", r#"{"a": "x"}"#)]);
}
