use std::path::PathBuf;
use std::sync::atomic::{AtomicUsize, Ordering};

static N: AtomicUsize = AtomicUsize::new(0);

const EXT: &str = if cfg!(feature = "json_files") { "json" } else if cfg!(feature = "yaml_files") { "yaml" } else { "json5" };

pub fn mk(cfg: &str, files: &[(&str, &str)]) -> PathBuf {
    let n = N.fetch_add(1, Ordering::SeqCst);
    let dir = std::env::temp_dir().join(format!("c09_fprobe_{}_{}", std::process::id(), n));
    let _ = std::fs::remove_dir_all(&dir);
    std::fs::create_dir_all(&dir).unwrap();
    std::fs::write(
        dir.join("Cargo.toml"),
        format!("[package]\nname=\"x\"\n\n[package.metadata.leptos-i18n]\n{}\n", cfg),
    )
    .unwrap();
    for (p, c) in files {
        let p = dir.join(format!("{p}.{EXT}"));
        std::fs::create_dir_all(p.parent().unwrap()).unwrap();
        std::fs::write(p, c).unwrap();
    }
    dir
}

fn run(cfg: &str, files: &[(&str, &str)]) -> String {
    let dir = mk(cfg, files);
    let r = leptos_i18n_parser::parse_locales::parse_locales(true, Some(dir.clone()));
    let _ = std::fs::remove_dir_all(&dir);
    match r {
        Ok((k, _w, _)) => { let s = format!("{:?}", k); format!("OK {}", &s[..s.len().min(600)]) },
        Err(e) => { let s = e.to_string(); format!("ERR {}", &s[..s.len().min(400)]) },
    }
}

const CFG: &str = "default = \"en\"\nlocales = [\"en\"]";

fn en(name: &str, c: &str) {
    let t0 = std::time::Instant::now();
    let r = std::panic::catch_unwind(|| run(CFG, &[("locales/en", c)]));
    print!("{:?} ", t0.elapsed());
    match r {
        Ok(s) => println!("[{name}] {s}"),
        Err(_) => println!("[{name}] PANIC"),
    }
}

#[cfg(feature = "yaml_files")]
#[test]
fn yaml_batch() {
    en("empty", "");
    en("null_doc", "~");
    en("scalar_doc", "hello");
    en("dup", "a:\n  sub: \"$t(b)\"\na: x\nb: y\n");
    en("nan", "a: .nan\nb: .inf\n");
    en("nan_range", "a:\n  - f32\n  - [x, .nan]\n  - [y]\n");
    en("inf_range", "a:\n  - f32\n  - [x, .inf]\n  - [y]\n");
    en("alias", "a: &x hello {{ v }}\nb: *x\n");
    en("alias_rec", "a: &x\n  - *x\n");
    en("alias_map", "a: &x\n  s: t\nb: *x\n");
    en("merge_key", "a: &x\n  s: t\nb:\n  <<: *x\n");
    en("int_key", "1: x\n");
    en("bool_key", "true: x\n");
    en("null_key", "~: x\n");
    en("tagged", "a: !foo bar\n");
    en("tagged_map", "a: !foo\n  b: c\n");
    en("bigint", "a: 123456789012345678901234567890\n");
    en("hex", "a: 0xFF\nb: -0x10\nc: 0o17\n");
    en("multi_doc", "a: x\n---\nb: y\n");
    en("billion", "a: &a [x, x]\nb: &b [*a, *a]\n");
    let deep = format!("{}x", (0..200).map(|i| format!("{}k:\n", "  ".repeat(i))).collect::<String>());
    en("deep200", &deep);
    let deepf = format!("a: {}x{}", "{k: ".repeat(5000), "}".repeat(5000));
    en("deepflow5000", &deepf);
    let deepseq = format!("a: {}{}", "[".repeat(100000), "]".repeat(100000));
    en("deepseq100000", &deepseq);
}

#[cfg(feature = "json5_files")]
#[test]
fn json5_batch() {
    en("empty", "");
    en("basic", "{a: 'x {{ v }}', b: 1, c: +1.5, d: .5, e: 0x10,}");
    en("nan", "{a: NaN}");
    en("inf", "{a: Infinity}");
    en("neginf", "{a: -Infinity}");
    en("nan_range", "{a: ['f32', ['x', NaN], ['y']]}");
    en("inf_range", "{a: ['f32', ['x', Infinity], ['y']]}");
    en("inf_range_str", "{a: ['f32', ['x', 'inf'], ['y']]}");
    en("big", "{a: 1e999}");
    en("bigint", "{a: 123456789012345678901234567890}");
    en("hexbig", "{a: 0xFFFFFFFFFFFFFFFFFFFF}");
    en("dup", "{a: {sub: '$t(b)'}, a: 'x', b: 'y'}");
    en("fk_args", "{a: '$t(b, {\"x\": 1})', b: '{{ x }}'}");
    en("multibyte", "{a: 'é<b>é</b>é{{ é }}é$t(é)'}");
}

#[cfg(feature = "json5_files")]
#[test]
fn json5_deep() {
    let n: usize = std::env::var("C09_N").ok().and_then(|s| s.parse().ok()).unwrap_or(2000);
    let s = std::thread::Builder::new().stack_size(8 * 1024 * 1024).spawn(move || {
        let deep = format!("{}'x'{}", "{a:".repeat(n), "}".repeat(n));
        run(CFG, &[("locales/en", &deep)])
    }).unwrap().join().unwrap();
    println!("{}", &s[..s.len().min(300)]);
}

#[cfg(feature = "json_files")]
#[test]
fn json_deep() {
    let deep = format!("{}\"x\"{}", "{\"a\":".repeat(127), "}".repeat(127));
    en("deep127", &deep);
    let deep = format!("{}\"x\"{}", "{\"a\":".repeat(100000), "}".repeat(100000));
    en("deep100000", &deep);
    let deep = format!("{{\"a\":{}{}}}", "[".repeat(100000), "]".repeat(100000));
    en("deepseq", &deep);
}

#[cfg(feature = "json5_files")]
#[test]
fn json5_deep_crate_only() {
    let n: usize = std::env::var("C09_N").ok().and_then(|s| s.parse().ok()).unwrap_or(2000);
    let s = std::thread::Builder::new().stack_size(8 * 1024 * 1024).spawn(move || {
        let deep = format!("{}'x'{}", "{a:".repeat(n), "}".repeat(n));
        let r = json5::Deserializer::from_str(&deep);
        format!("pest parse ok={}", r.is_ok())
    }).unwrap().join().unwrap();
    println!("{}", s);
}

#[cfg(feature = "json5_files")]
#[test]
fn json5_deep_nodebug() {
    let n: usize = std::env::var("C09_N").ok().and_then(|s| s.parse().ok()).unwrap_or(2000);
    let s = std::thread::Builder::new().stack_size(8 * 1024 * 1024).spawn(move || {
        let deep = format!("{}'x'{}", "{a:".repeat(n), "}".repeat(n));
        let dir = mk(CFG, &[("locales/en", &deep)]);
        let r = leptos_i18n_parser::parse_locales::parse_locales_raw(true, Some(dir.clone()));
        println!("raw parsed ok={}", r.is_ok());
        let Ok((locales, cfg_file, fk, warnings, _)) = r else { return "raw err".to_string() };
        let r = leptos_i18n_parser::parse_locales::make_builder_keys(locales, &cfg_file, fk, &warnings, true);
        println!("builder keys ok={}", r.is_ok());
        std::mem::forget(r);
        "done".to_string()
    }).unwrap().join().unwrap();
    println!("{}", s);
}
