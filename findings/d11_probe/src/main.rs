// D11 probe: what a foreign key to a `null` key renders, per locale.
// inherits = { fr-CA = "fr", de = "it", it = "de" } ; expected (C03: first locale of the chain that defines the key, else default):
//   fr-CA.b = [FR-a]  (a: null in fr-CA, defined in fr)          before the fix: [EN-a]
//   fr-CA.d = [EN-c]  (c: null in fr-CA and in fr)
//   de.b    = [EN-a]  (a: null in de and it: the chain loops)
//   de.f    = [IT-e]  (e: null in de, defined in it)               before the fix: [EN-e]
//   it.d    = [DE-c]  (c: null in it, defined in de)               before the fix: [EN-c]
use leptos_i18n_parser::parse_locales::{parse_locales, locale::BuildersKeys};
fn main() {
    let dir = std::path::PathBuf::from(std::env::args().nth(1).unwrap());
    let (keys, _w, _f) = match parse_locales(true, Some(dir)) { Ok(x) => x, Err(e) => { println!("ERROR {}", e); std::process::exit(2) } };
    let BuildersKeys::Locales { locales, .. } = keys else { panic!() };
    for l in &locales {
        for k in ["b", "d", "f"] {
            let v = l.keys.iter().find(|(kk, _)| &*kk.name == k).map(|(_, v)| format!("{:?}", v)).unwrap_or_default();
            // keep only the string literals
            let lits: Vec<&str> = v.split("String(\"").skip(1).map(|s| s.split('"').next().unwrap()).collect();
            println!("{}.{} = {}", l.name.name, k, lits.concat());
        }
    }
}
