#[cfg(test)]
mod tmp_d10 {
    use super::*;

    use leptos_router::location::State;
    use leptos_router::params::ParamsMap;

    leptos_i18n::declare_locales! {
        path: leptos_i18n,
        default: "en",
        locales: ["en", "en-US", "fr"],
        en: {},
        en_US: {},
        fr: {},
    }
    use i18n::Locale;

    fn loc(path: &'static str, search: &'static str, hash: &'static str) -> Location {
        Location {
            pathname: Memo::new(move |_| path.to_string()),
            search: Memo::new(move |_| search.to_string()),
            query: Memo::new(move |_| ParamsMap::new()),
            hash: Memo::new(move |_| hash.to_string()),
            state: RwSignal::new(State::default()).read_only(),
        }
    }

    #[test]
    fn from_path() {
        assert_eq!(get_locale_from_path::<Locale>("/english/x", "/"), None);
        assert_eq!(get_locale_from_path::<Locale>("/en-US/x", "/"), Some(Locale::en_US));
        assert_eq!(get_locale_from_path::<Locale>("/en/x", "/"), Some(Locale::en));
        assert_eq!(get_locale_from_path::<Locale>("/fr", "/"), Some(Locale::fr));
        assert_eq!(get_locale_from_path::<Locale>("/base/fr/x", "/base"), Some(Locale::fr));
        assert_eq!(get_locale_from_path::<Locale>("/", "/"), None);
    }

    #[test]
    fn new_path() {
        let owner = Owner::new();
        owner.with(|| {
            let segs = RouteSegments::<Locale>::default();
            // default locale, no prefix in the url, first segment starts with "en"
            let l = loc("/entries/3", "a=1", "top");
            assert_eq!(get_new_path(&l, "/", Locale::fr, Some(Locale::en), segs.clone()), "/fr/entries/3?a=1#top");
            let l = loc("/fr/entries/3", "", "");
            assert_eq!(get_new_path(&l, "/", Locale::en, Some(Locale::fr), segs.clone()), "/entries/3");
            let l = loc("/fr/entries/3", "", "");
            assert_eq!(get_new_path(&l, "/", Locale::en_US, Some(Locale::fr), segs.clone()), "/en-US/entries/3");
            let l = loc("/en-US/entries/3", "", "");
            assert_eq!(get_new_path(&l, "/", Locale::fr, Some(Locale::en_US), segs.clone()), "/fr/entries/3");
            let l = loc("/fr", "", "");
            assert_eq!(get_new_path(&l, "/", Locale::en, Some(Locale::fr), segs.clone()), "/");
        });
    }
}
