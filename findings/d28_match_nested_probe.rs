// D28 probe: append to leptos_i18n_router/src/routing.rs and run `cargo test --offline -p leptos_i18n_router locale_is_read_only`
// before 'fix: a locale is read from a URL by the route matcher only when the prefix is the whole first segment': FAILS with
//   left: Some((Some(en), "/en"))   right: Some((None, ""))      (`/entries` read as locale `en` + route `/tries`)
// after it: passes.

#[cfg(test)]
mod d28_probe {
    use super::*;

    leptos_i18n::declare_locales! {
        path: leptos_i18n,
        default: "en",
        locales: ["en", "fr"],
        en: { k: "k" },
        fr: { k: "k" },
    }
    use i18n::Locale;

    fn routes() -> impl MatchNestedRoutes<Match = I18nRouteMatch<Locale, (), impl MatchNestedRoutes>> {
        let base_route = NestedRoute::new(StaticSegment(""), ())
            .child((NestedRoute::new(StaticSegment("tries"), ()), NestedRoute::new(StaticSegment("entries"), ())));
        let segments = RouteSegments::<Locale>::default();
        let routes = I18nNestedRoute::new("/", base_route, segments.clone());
        *segments.0.lock().unwrap() = routes.generate_routes_for_each_locale();
        routes
    }

    #[test]
    fn locale_is_read_only_from_a_whole_first_segment() {
        let routes = routes();
        let locale_of = |path: &str| {
            let (matched, _) = routes.match_nested(path);
            matched.map(|(_, m)| (m.locale, m.matched.clone()))
        };
        assert_eq!(locale_of("/en/tries"), Some((Some(Locale::en), "/en".to_string())));
        assert_eq!(locale_of("/tries"), Some((None, String::new())));
        // `/entries` is an ordinary route, its first segment is not a locale name
        assert_eq!(locale_of("/entries"), Some((None, String::new())));
    }
}
