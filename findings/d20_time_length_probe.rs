use crate::i18n::*;
use leptos_i18n::reexports::icu::calendar::{Date, DateTime, Time};
use leptos_i18n::td_format_string;

fn t() -> Time { Time::try_new(14, 34, 28, 0).unwrap() }
fn dt() -> DateTime<leptos_i18n::reexports::icu::calendar::AnyCalendar> { DateTime::new(Date::try_new_iso_date(1970, 1, 2).unwrap().to_any(), t()) }
#[test] fn zz_time_full() { println!("OUT {}", td_format_string!(Locale::en, &t(), formatter: time(time_length: full))); }
#[test] fn zz_time_long() { println!("OUT {}", td_format_string!(Locale::en, &t(), formatter: time(time_length: long))); }
#[test] fn zz_time_medium() { println!("OUT {}", td_format_string!(Locale::en, &t(), formatter: time(time_length: medium))); }
#[test] fn zz_dt_full() { println!("OUT {}", td_format_string!(Locale::en, &dt(), formatter: datetime(date_length: full; time_length: full))); }
#[test] fn zz_dt_long() { println!("OUT {}", td_format_string!(Locale::en, &dt(), formatter: datetime(date_length: full; time_length: long))); }
#[test] fn zz_dt_medium() { println!("OUT {}", td_format_string!(Locale::en, &dt(), formatter: datetime(date_length: full; time_length: medium))); }
#[test] fn zz_date_full() { println!("OUT {}", td_format_string!(Locale::en, &dt().date, formatter: date(date_length: full))); }
