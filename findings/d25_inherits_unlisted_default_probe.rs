use std::path::PathBuf;
fn main() {
    let dir = std::env::temp_dir().join(format!("h_cfg_{}", std::process::id()));
    std::fs::create_dir_all(&dir).unwrap();
    for (label, cfg) in [
        ("default listed", "default = \"en\"\nlocales = [\"en\", \"fr\"]\ninherits = { fr = \"en\" }\n"),
        ("default unlisted", "default = \"en\"\nlocales = [\"fr\"]\ninherits = { fr = \"en\" }\n"),
        ("default unlisted, no inherits", "default = \"en\"\nlocales = [\"fr\"]\n"),
    ] {
        std::fs::write(dir.join("Cargo.toml"), format!("[package]\nname=\"x\"\n[package.metadata.leptos-i18n]\n{cfg}")).unwrap();
        let mut p: PathBuf = dir.clone();
        let r = leptos_i18n_parser::parse_locales::cfg_file::ConfigFile::new(&mut p);
        match r {
            Ok(c) => println!("PROBE {label}: Ok locales={:?} inherits={:?}", c.locales, c.extensions),
            Err(e) => println!("PROBE {label}: Err {}", format!("{e}").replace('\n', " ")),
        }
    }
    std::fs::remove_dir_all(&dir).ok();
}
