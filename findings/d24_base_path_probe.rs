// D24 probe: append to leptos_i18n_router/src/routing.rs and run
//   cargo test -p leptos_i18n_router --offline base_path_probe -- --nocapture
// Before the fix (8691643): base "/foo": fr->en(/foo/fr/a-propos) = /foo/fr/a-propos ; base "foo" / "foo/": en->fr(/foo/about) = /foo/fr, fr->en = /foo
// After the fix: every base form gives /foo/fr/a-propos and /foo/about.
#[cfg(test)]
mod base_path_probe {
    use super::*;
    use leptos_router::{location::State, params::ParamsMap};

    leptos_i18n::declare_locales! {
        path: leptos_i18n,
        default: "en",
        locales: ["en", "fr"],
        en: { about: "about", },
        fr: { about: "a-propos", },
    }
    use i18n::Locale;

    fn stat(s: &'static str) -> PathSegment {
        PathSegment::Static(s.into())
    }

    fn location(path: &'static str) -> Location {
        Location {
            pathname: Memo::new(move |_| path.to_string()),
            search: Memo::new(move |_| String::new()),
            query: Memo::new(move |_| ParamsMap::new()),
            hash: Memo::new(move |_| String::new()),
            state: RwSignal::new(State::new(None)).read_only(),
        }
    }

    #[test]
    fn probe() {
        let owner = Owner::new();
        owner.set();
        let segments = RouteSegments::<Locale>::default();
        {
            let mut g = segments.0.lock().unwrap();
            g.insert(Locale::en, vec![vec![stat(""), stat("about")]]);
            g.insert(Locale::fr, vec![vec![stat(""), stat("a-propos")]]);
        }
        for base in ["/", "/foo/", "/foo", "foo", "foo/"] {
            let (p_en, p_fr): (&'static str, &'static str) = if base == "/" { ("/about", "/fr/a-propos") } else { ("/foo/about", "/foo/fr/a-propos") };
            let from_url = get_locale_from_path::<Locale>(p_fr, base);
            let to_fr = get_new_path(&location(p_en), base, Locale::fr, Some(Locale::en), segments.clone());
            let to_en = get_new_path(&location(p_fr), base, Locale::en, Some(Locale::fr), segments.clone());
            println!("PROBE base={base:?}: locale_of({p_fr})={from_url:?}  en->fr({p_en})={to_fr}  fr->en({p_fr})={to_en}");
        }
    }
}
