// D26 probe: append to leptos_i18n_router/src/routing.rs and run
//   cargo test -p leptos_i18n_router --offline empty_splat_probe -- --nocapture
// leptos_router serves `/docs` with the route `/docs/*rest` (a wildcard matches nothing as well) and `/blog` with
// `/blog/:page?`. Before the fix match_path_segments required the route to be exhausted, so on those URLs the localized
// segments were not rewritten: en->fr(/docs) = /fr/docs (the fr family only serves /fr/doc/..), en->fr(/blog) = /fr/blog.
// An optional param was only recognised when the URL segment equalled the *name* of the param: en->fr(/blog/2) = /fr/blog/2,
// en->fr(/post/3/edit) = /fr/post/3/edit.
// After the fix: /fr/doc, /fr/blogue, /fr/blogue/2, /fr/billet/modifier, /fr/billet/3/modifier; paths no route serves
// (/users, /post/3) keep their segments.
#[cfg(test)]
mod empty_splat_probe {
    use super::*;
    use leptos_router::{location::State, params::ParamsMap};

    leptos_i18n::declare_locales! {
        path: leptos_i18n,
        default: "en",
        locales: ["en", "fr"],
        en: { about: "about", },
        fr: { about: "a-propos", },
    }
    use i18n::Locale;

    fn stat(s: &'static str) -> PathSegment {
        PathSegment::Static(s.into())
    }

    fn location(path: &'static str) -> Location {
        Location {
            pathname: Memo::new(move |_| path.to_string()),
            search: Memo::new(move |_| String::new()),
            query: Memo::new(move |_| ParamsMap::new()),
            hash: Memo::new(move |_| String::new()),
            state: RwSignal::new(State::new(None)).read_only(),
        }
    }

    #[test]
    fn probe() {
        let owner = Owner::new();
        owner.set();
        let segments = RouteSegments::<Locale>::default();
        {
            let mut g = segments.0.lock().unwrap();
            g.insert(
                Locale::en,
                vec![
                    vec![stat(""), stat("docs"), PathSegment::Splat("rest".into())],
                    vec![stat(""), stat("blog"), PathSegment::OptionalParam("page".into())],
                    vec![stat(""), stat("users"), PathSegment::Param("id".into())],
                    vec![stat(""), stat("post"), PathSegment::OptionalParam("n".into()), stat("edit")],
                ],
            );
            g.insert(
                Locale::fr,
                vec![
                    vec![stat(""), stat("doc"), PathSegment::Splat("rest".into())],
                    vec![stat(""), stat("blogue"), PathSegment::OptionalParam("page".into())],
                    vec![stat(""), stat("utilisateurs"), PathSegment::Param("id".into())],
                    vec![stat(""), stat("billet"), PathSegment::OptionalParam("n".into()), stat("modifier")],
                ],
            );
        }
        let mut out = vec![];
        for (p_en, p_fr) in [("/docs", "/fr/doc"), ("/docs/a/b", "/fr/doc/a/b"), ("/blog", "/fr/blogue"), ("/blog/2", "/fr/blogue/2"), ("/users", "/fr/users"), ("/users/7", "/fr/utilisateurs/7"), ("/post/edit", "/fr/billet/modifier"), ("/post/3/edit", "/fr/billet/3/modifier"), ("/post/3", "/fr/post/3")] {
            let to_fr = get_new_path(&location(p_en), "/", Locale::fr, Some(Locale::en), segments.clone());
            println!("PROBE en->fr({p_en}) = {to_fr}   (expected {p_fr})");
            out.push((to_fr, p_fr));
        }
        for (got, want) in out {
            assert_eq!(got, want);
        }
    }
}
