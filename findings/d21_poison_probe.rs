use crate::i18n::*;
use leptos_i18n::reexports::icu::calendar::Time;
use leptos_i18n::td_format_string;
#[test]
fn zz_poison() {
    let time = Time::try_new(14, 34, 28, 0).unwrap();
    let r = std::panic::catch_unwind(|| td_format_string!(Locale::en, &time, formatter: time(time_length: full)));
    assert!(r.is_err());
    println!("OUT {}", td_format_string!(Locale::en, 1000usize, formatter: number));
    println!("OUT {}", td_format_string!(Locale::en, &time, formatter: time(time_length: medium)));
}
