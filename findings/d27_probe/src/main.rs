// D27 probe: `rank_one` + `rank_ordinal_one` (the same form in both rule types, no `_other`).
// Before the fix: parse_locales is Ok and the key set is [rank_ordinal_one, z]: `rank_one` is silently dropped
// (both land in the same slot of the per-base-key map). After the fix: Err(ConflictingPluralRuleType) naming the key.
use leptos_i18n_parser::parse_locales::{locale::BuildersKeys, parse_locales};
fn main() {
    let dir = std::path::PathBuf::from(std::env::args().nth(1).unwrap());
    match parse_locales(true, Some(dir)) {
        Err(e) => println!("ERROR {}", e),
        Ok((keys, _w, _f)) => {
            let BuildersKeys::Locales { locales, .. } = keys else { panic!() };
            println!("OK keys = {:?}", locales[0].keys.keys().map(|k| k.name.to_string()).collect::<Vec<_>>());
        }
    }
}
