//! mirfacts: rustc_private driver that dumps the MIR of every local body of a
//! crate as JSON facts (resolved callees, asserts, aggregates, constants).
//!
//! Used as RUSTC_WORKSPACE_WRAPPER: argv[1] is the real rustc path and is dropped.
//! env MIRFACTS_OUT   = output directory (one file per rustc invocation)
//! env MIRFACTS_CRATES = comma separated crate names to dump (others compile untouched)
#![feature(rustc_private)]
#![allow(clippy::all)]

extern crate rustc_abi;
extern crate rustc_driver;
extern crate rustc_hir;
extern crate rustc_interface;
extern crate rustc_middle;
extern crate rustc_session;
extern crate rustc_span;

use rustc_hir::def::DefKind;
use rustc_hir::def_id::{DefId, LOCAL_CRATE};
use rustc_middle::mir::*;
use rustc_middle::ty::print::{with_crate_prefix, with_no_trimmed_paths};
use rustc_middle::ty::{self, Instance, Ty, TyCtxt, TypingEnv};
use std::collections::BTreeMap;
use std::fmt::Write as _;

fn esc(s: &str) -> String {
    let mut o = String::with_capacity(s.len() + 2);
    o.push('"');
    for c in s.chars() {
        match c {
            '"' => o.push_str("\\\""),
            '\\' => o.push_str("\\\\"),
            '\n' => o.push_str("\\n"),
            '\r' => o.push_str("\\r"),
            '\t' => o.push_str("\\t"),
            c if (c as u32) < 0x20 => {
                let _ = write!(o, "\\u{:04x}", c as u32);
            }
            c => o.push(c),
        }
    }
    o.push('"');
    o
}

struct Cx<'tcx> {
    tcx: TyCtxt<'tcx>,
    krate: String,
    adts: BTreeMap<String, String>,
}

impl<'tcx> Cx<'tcx> {
    /// replace the `crate` path root printed by `with_crate_prefix` by the crate name
    fn fix(&self, s: String) -> String {
        let mut out = String::with_capacity(s.len());
        let bytes = s.as_bytes();
        let mut i = 0;
        while i < bytes.len() {
            if s[i..].starts_with("crate::")
                && (i == 0 || !(bytes[i - 1].is_ascii_alphanumeric() || bytes[i - 1] == b'_'))
            {
                out.push_str(&self.krate);
                out.push_str("::");
                i += 7;
            } else {
                let ch = s[i..].chars().next().unwrap();
                out.push(ch);
                i += ch.len_utf8();
            }
        }
        out
    }

    fn path(&self, did: DefId) -> String {
        let s = with_no_trimmed_paths!(with_crate_prefix!(self.tcx.def_path_str(did)));
        self.fix(s)
    }

    fn path_args(&self, did: DefId, args: ty::GenericArgsRef<'tcx>) -> String {
        let s = with_no_trimmed_paths!(with_crate_prefix!(self.tcx.def_path_str_with_args(did, args)));
        self.fix(s)
    }

    fn ty(&self, t: Ty<'tcx>) -> String {
        let s = with_no_trimmed_paths!(with_crate_prefix!(format!("{}", t)));
        self.fix(s)
    }

    fn loc(&self, span: rustc_span::Span) -> (String, usize, bool) {
        let sm = self.tcx.sess.source_map();
        let exp = span.from_expansion();
        let sp = if exp { span.source_callsite() } else { span };
        let lo = sm.lookup_char_pos(sp.lo());
        let file = match &lo.file.name {
            rustc_span::FileName::Real(r) => r
                .local_path()
                .map(|p| p.to_string_lossy().to_string())
                .unwrap_or_else(|| format!("{:?}", lo.file.name)),
            other => format!("{:?}", other),
        };
        (file, lo.line, exp)
    }

    fn note_adt(&mut self, did: DefId) {
        let name = self.path(did);
        if self.adts.contains_key(&name) {
            return;
        }
        let def = self.tcx.adt_def(did);
        let mut s = String::new();
        let kind = if def.is_enum() {
            "enum"
        } else if def.is_union() {
            "union"
        } else {
            "struct"
        };
        let _ = write!(s, "{{\"kind\":{},\"local\":{},\"variants\":[", esc(kind), did.is_local());
        let mut first = true;
        for (vidx, v) in def.variants().iter_enumerated() {
            if !first {
                s.push(',');
            }
            first = false;
            let discr = if def.is_enum() {
                format!("{}", def.discriminant_for_variant(self.tcx, vidx).val)
            } else {
                "0".to_string()
            };
            let _ = write!(s, "{{\"name\":{},\"discr\":{},\"fields\":[", esc(v.name.as_str()), esc(&discr));
            let mut ff = true;
            for f in v.fields.iter() {
                if !ff {
                    s.push(',');
                }
                ff = false;
                let fty = self.tcx.type_of(f.did).instantiate_identity().skip_norm_wip();
                let _ = write!(s, "{{\"name\":{},\"ty\":{}}}", esc(f.name.as_str()), esc(&self.ty(fty)));
            }
            s.push_str("]}");
        }
        s.push_str("]}");
        self.adts.insert(name, s);
    }

    fn place(&self, p: &Place<'tcx>) -> String {
        let mut s = String::new();
        let _ = write!(s, "{{\"l\":{},\"p\":[", p.local.as_usize());
        let mut first = true;
        for e in p.projection.iter() {
            if !first {
                s.push(',');
            }
            first = false;
            match e {
                ProjectionElem::Deref => s.push_str("\"*\""),
                ProjectionElem::Field(f, _) => {
                    let _ = write!(s, "\".{}\"", f.as_usize());
                }
                ProjectionElem::Index(l) => {
                    let _ = write!(s, "\"[_{}]\"", l.as_usize());
                }
                ProjectionElem::ConstantIndex { offset, from_end, .. } => {
                    let _ = write!(s, "\"[c{}{}]\"", if from_end { "-" } else { "" }, offset);
                }
                ProjectionElem::Subslice { from, to, from_end } => {
                    let _ = write!(s, "\"[{}..{}{}]\"", from, if from_end { "-" } else { "" }, to);
                }
                ProjectionElem::Downcast(name, idx) => {
                    let n = name.map(|n| n.to_string()).unwrap_or_else(|| format!("{}", idx.as_usize()));
                    let _ = write!(s, "{}", esc(&format!("@{}", n)));
                }
                _ => s.push_str("\"?\""),
            }
        }
        s.push_str("]}");
        s
    }

    fn konst(&mut self, c: &ConstOperand<'tcx>, body_did: DefId) -> String {
        let ty = c.const_.ty();
        let mut s = String::new();
        let _ = write!(s, "{{\"ty\":{}", esc(&self.ty(ty)));
        match ty.kind() {
            ty::FnDef(did, args) => {
                let _ = write!(s, ",\"fn\":{}", esc(&self.path(*did)));
                let _ = write!(s, ",\"fn_full\":{}", esc(&self.path_args(*did, args)));
                if let Some(r) = self.resolve(*did, args, body_did) {
                    let _ = write!(s, ",\"resolved\":{}", esc(&r));
                }
            }
            _ => {
                let tenv = TypingEnv::post_analysis(self.tcx, body_did);
                // evaluate scalar / str constants when possible
                let val = match c.const_ {
                    Const::Val(v, _) => Some(v),
                    Const::Ty(..) => None,
                    Const::Unevaluated(..) => c.const_.eval(self.tcx, tenv, c.span).ok(),
                };
                if let Some(v) = val {
                    match v {
                        ConstValue::Scalar(rustc_middle::mir::interpret::Scalar::Int(i)) => {
                            if ty.is_bool() {
                                let _ = write!(s, ",\"bool\":{}", i.try_to_bool().unwrap_or(false));
                            } else if ty.is_integral() {
                                let sz = i.size();
                                let raw = i.to_bits(sz);
                                if ty.is_signed() {
                                    let _ = write!(s, ",\"int\":\"{}\"", sz.sign_extend(raw) as i128);
                                } else {
                                    let _ = write!(s, ",\"int\":\"{}\"", raw);
                                }
                            } else if ty.is_char() {
                                let raw = i.to_bits(i.size()) as u32;
                                if let Some(ch) = char::from_u32(raw) {
                                    let _ = write!(s, ",\"char\":{}", esc(&ch.to_string()));
                                }
                            } else {
                                let _ = write!(s, ",\"bits\":\"{}\"", i.to_bits(i.size()));
                            }
                        }
                        ConstValue::Slice { .. } => {
                            if let Some(bytes) = v.try_get_slice_bytes_for_diagnostics(self.tcx) {
                                if let Ok(st) = std::str::from_utf8(bytes) {
                                    let _ = write!(s, ",\"str\":{}", esc(st));
                                }
                            }
                        }
                        ConstValue::ZeroSized => {
                            s.push_str(",\"zst\":true");
                        }
                        _ => {}
                    }
                }
                if let Const::Unevaluated(u, _) = c.const_ {
                    let _ = write!(s, ",\"unevaluated\":{}", esc(&self.path(u.def)));
                }
            }
        }
        s.push('}');
        s
    }

    fn resolve(&self, did: DefId, args: ty::GenericArgsRef<'tcx>, body_did: DefId) -> Option<String> {
        let tenv = TypingEnv::post_analysis(self.tcx, body_did);
        let args = self.tcx.try_normalize_erasing_regions(tenv, ty::Unnormalized::new_wip(args)).ok()?;
        match Instance::try_resolve(self.tcx, tenv, did, args) {
            Ok(Some(inst)) => {
                let rd = inst.def_id();
                Some(self.path(rd))
            }
            _ => None,
        }
    }

    fn operand(&mut self, o: &Operand<'tcx>, body_did: DefId) -> String {
        match o {
            Operand::Copy(p) => format!("{{\"copy\":{}}}", self.place(p)),
            Operand::Move(p) => format!("{{\"move\":{}}}", self.place(p)),
            Operand::Constant(c) => format!("{{\"const\":{}}}", self.konst(c, body_did)),
            #[allow(unreachable_patterns)]
            _ => "{\"other\":true}".to_string(),
        }
    }

    fn rvalue(&mut self, r: &Rvalue<'tcx>, body_did: DefId) -> String {
        let mut s = String::new();
        match r {
            Rvalue::Use(op, ..) => {
                let _ = write!(s, "{{\"k\":\"Use\",\"ops\":[{}]}}", self.operand(op, body_did));
            }
            Rvalue::Repeat(op, _) => {
                let _ = write!(s, "{{\"k\":\"Repeat\",\"ops\":[{}]}}", self.operand(op, body_did));
            }
            Rvalue::Ref(_, bk, p) => {
                let m = matches!(bk, BorrowKind::Mut { .. });
                let _ = write!(s, "{{\"k\":\"Ref\",\"mut\":{},\"place\":{}}}", m, self.place(p));
            }
            Rvalue::RawPtr(_, p) => {
                let _ = write!(s, "{{\"k\":\"RawPtr\",\"place\":{}}}", self.place(p));
            }
            Rvalue::Cast(kind, op, ty) => {
                let _ = write!(
                    s,
                    "{{\"k\":\"Cast\",\"cast\":{},\"ops\":[{}],\"ty\":{}}}",
                    esc(&format!("{:?}", kind)),
                    self.operand(op, body_did),
                    esc(&self.ty(*ty))
                );
            }
            Rvalue::BinaryOp(op, ab) => {
                let (a, b) = &**ab;
                let _ = write!(
                    s,
                    "{{\"k\":\"BinaryOp\",\"op\":{},\"ops\":[{},{}]}}",
                    esc(&format!("{:?}", op)),
                    self.operand(a, body_did),
                    self.operand(b, body_did)
                );
            }
            Rvalue::UnaryOp(op, a) => {
                let _ = write!(
                    s,
                    "{{\"k\":\"UnaryOp\",\"op\":{},\"ops\":[{}]}}",
                    esc(&format!("{:?}", op)),
                    self.operand(a, body_did)
                );
            }
            Rvalue::Discriminant(p) => {
                let _ = write!(s, "{{\"k\":\"Discriminant\",\"place\":{}}}", self.place(p));
            }
            Rvalue::Aggregate(kind, ops) => {
                let mut kinds = String::new();
                match &**kind {
                    AggregateKind::Array(_) => kinds.push_str("\"agg\":\"Array\""),
                    AggregateKind::Tuple => kinds.push_str("\"agg\":\"Tuple\""),
                    AggregateKind::Adt(did, vidx, _, _, _) => {
                        self.note_adt(*did);
                        let def = self.tcx.adt_def(*did);
                        let v = def.variant(*vidx);
                        let _ = write!(
                            kinds,
                            "\"agg\":\"Adt\",\"adt\":{},\"variant\":{},\"fields\":[{}]",
                            esc(&self.path(*did)),
                            esc(v.name.as_str()),
                            v.fields.iter().map(|f| esc(f.name.as_str())).collect::<Vec<_>>().join(",")
                        );
                    }
                    AggregateKind::Closure(did, _) => {
                        let _ = write!(kinds, "\"agg\":\"Closure\",\"def\":{}", esc(&self.path(*did)));
                    }
                    AggregateKind::Coroutine(did, _) | AggregateKind::CoroutineClosure(did, _) => {
                        let _ = write!(kinds, "\"agg\":\"Coroutine\",\"def\":{}", esc(&self.path(*did)));
                    }
                    AggregateKind::RawPtr(..) => kinds.push_str("\"agg\":\"RawPtr\""),
                }
                let opss: Vec<String> = ops.iter().map(|o| self.operand(o, body_did)).collect();
                let _ = write!(s, "{{\"k\":\"Aggregate\",{},\"ops\":[{}]}}", kinds, opss.join(","));
            }
            Rvalue::CopyForDeref(p) => {
                let _ = write!(s, "{{\"k\":\"Use\",\"ops\":[{{\"copy\":{}}}]}}", self.place(p));
            }
            Rvalue::ThreadLocalRef(did) => {
                let _ = write!(s, "{{\"k\":\"ThreadLocalRef\",\"def\":{}}}", esc(&self.path(*did)));
            }
            _ => {
                let _ = write!(s, "{{\"k\":\"Other\",\"text\":{}}}", esc(&format!("{:?}", r)));
            }
        }
        s
    }

    fn body(&mut self, did: DefId, body: &Body<'tcx>, out: &mut String) {
        let tcx = self.tcx;
        let kind = tcx.def_kind(did);
        let (file, line, _) = self.loc(tcx.def_span(did));
        let _ = write!(out, "{{\"name\":{},\"kind\":{}", esc(&self.path(did)), esc(&format!("{:?}", kind)));
        let _ = write!(out, ",\"file\":{},\"line\":{}", esc(&file), line);
        if matches!(kind, DefKind::Closure) {
            let parent = tcx.typeck_root_def_id(did);
            let _ = write!(out, ",\"root\":{}", esc(&self.path(parent)));
            let _ = write!(out, ",\"parent\":{}", esc(&self.path(tcx.parent(did))));
        }
        if matches!(kind, DefKind::Fn | DefKind::AssocFn) {
            let v = tcx.visibility(did);
            let _ = write!(out, ",\"pub\":{}", v.is_public());
        }
        if matches!(kind, DefKind::AssocFn) {
            let p = tcx.parent(did);
            if matches!(tcx.def_kind(p), DefKind::Impl { .. }) {
                let self_ty = tcx.type_of(p).instantiate_identity().skip_norm_wip();
                let _ = write!(out, ",\"impl_self\":{}", esc(&self.ty(self_ty)));
                if let Some(tr) = tcx.impl_opt_trait_ref(p) {
                    let tr = tr.instantiate_identity().skip_norm_wip();
                    let _ = write!(out, ",\"impl_trait\":{}", esc(&self.path(tr.def_id)));
                    if let Some(item) = tcx.associated_item(did).trait_item_def_id() {
                        let _ = write!(out, ",\"trait_item\":{}", esc(&self.path(item)));
                    }
                }
            }
        }
        let _ = write!(out, ",\"arg_count\":{}", body.arg_count);
        // locals
        out.push_str(",\"locals\":[");
        let mut names: BTreeMap<usize, String> = BTreeMap::new();
        let mut upvar_names: Vec<(String, String)> = vec![];
        for vdi in &body.var_debug_info {
            if let VarDebugInfoContents::Place(p) = &vdi.value {
                if p.projection.is_empty() {
                    names.insert(p.local.as_usize(), vdi.name.to_string());
                } else {
                    upvar_names.push((self.place(p), vdi.name.to_string()));
                }
            }
        }
        for (i, (l, decl)) in body.local_decls.iter_enumerated().enumerate() {
            if i > 0 {
                out.push(',');
            }
            let _ = write!(out, "{{\"ty\":{}", esc(&self.ty(decl.ty)));
            if let Some(n) = names.get(&l.as_usize()) {
                let _ = write!(out, ",\"name\":{}", esc(n));
            }
            if let ty::Adt(def, _) = decl.ty.peel_refs().kind() {
                if def.did().is_local() || def.is_enum() {
                    self.note_adt(def.did());
                }
            }
            out.push('}');
        }
        out.push_str("],\"upvars\":[");
        for (i, (p, n)) in upvar_names.iter().enumerate() {
            if i > 0 {
                out.push(',');
            }
            let _ = write!(out, "{{\"place\":{},\"name\":{}}}", p, esc(n));
        }
        out.push_str("],\"blocks\":[");
        for (bi, (_bb, data)) in body.basic_blocks.iter_enumerated().enumerate() {
            if bi > 0 {
                out.push(',');
            }
            let _ = write!(out, "{{\"cleanup\":{},\"stmts\":[", data.is_cleanup);
            let mut first = true;
            for st in &data.statements {
                let txt = match &st.kind {
                    StatementKind::Assign(b) => {
                        let (p, r) = &**b;
                        let (_, line, exp) = self.loc(st.source_info.span);
                        Some(format!(
                            "{{\"k\":\"Assign\",\"place\":{},\"rv\":{},\"line\":{},\"x\":{}}}",
                            self.place(p),
                            self.rvalue(r, did),
                            line,
                            exp
                        ))
                    }
                    StatementKind::SetDiscriminant { place, variant_index } => Some(format!(
                        "{{\"k\":\"SetDiscriminant\",\"place\":{},\"variant\":{}}}",
                        self.place(place),
                        variant_index.as_usize()
                    )),
                    _ => None,
                };
                if let Some(t) = txt {
                    if !first {
                        out.push(',');
                    }
                    first = false;
                    out.push_str(&t);
                }
            }
            out.push_str("],\"term\":");
            let term = data.terminator();
            let (_, line, exp) = self.loc(term.source_info.span);
            let macro_name = term
                .source_info
                .span
                .macro_backtrace()
                .map(|e| e.kind.descr())
                .collect::<Vec<_>>()
                .join("<");
            let common = format!("\"line\":{},\"x\":{},\"macro\":{}", line, exp, esc(&macro_name));
            match &term.kind {
                TerminatorKind::Goto { target } => {
                    let _ = write!(out, "{{\"k\":\"Goto\",\"target\":{},{}}}", target.as_usize(), common);
                }
                TerminatorKind::SwitchInt { discr, targets } => {
                    let d = self.operand(discr, did);
                    let ts: Vec<String> = targets.iter().map(|(v, b)| format!("[\"{}\",{}]", v, b.as_usize())).collect();
                    let _ = write!(
                        out,
                        "{{\"k\":\"SwitchInt\",\"discr\":{},\"targets\":[{}],\"otherwise\":{},{}}}",
                        d,
                        ts.join(","),
                        targets.otherwise().as_usize(),
                        common
                    );
                }
                TerminatorKind::Return => {
                    let _ = write!(out, "{{\"k\":\"Return\",{}}}", common);
                }
                TerminatorKind::Unreachable => {
                    let _ = write!(out, "{{\"k\":\"Unreachable\",{}}}", common);
                }
                TerminatorKind::UnwindResume => {
                    let _ = write!(out, "{{\"k\":\"UnwindResume\",{}}}", common);
                }
                TerminatorKind::UnwindTerminate(_) => {
                    let _ = write!(out, "{{\"k\":\"UnwindTerminate\",{}}}", common);
                }
                TerminatorKind::Drop { place, target, unwind, .. } => {
                    let uw = match unwind {
                        UnwindAction::Cleanup(b) => format!("{}", b.as_usize()),
                        _ => "null".to_string(),
                    };
                    let _ = write!(
                        out,
                        "{{\"k\":\"Drop\",\"place\":{},\"target\":{},\"unwind\":{},{}}}",
                        self.place(place),
                        target.as_usize(),
                        uw,
                        common
                    );
                }
                TerminatorKind::Call { func, args, destination, target, unwind, .. } => {
                    let f = self.operand(func, did);
                    let a: Vec<String> = args.iter().map(|a| self.operand(&a.node, did)).collect();
                    let uw = match unwind {
                        UnwindAction::Cleanup(b) => format!("{}", b.as_usize()),
                        _ => "null".to_string(),
                    };
                    let _ = write!(
                        out,
                        "{{\"k\":\"Call\",\"func\":{},\"args\":[{}],\"dest\":{},\"target\":{},\"unwind\":{},{}}}",
                        f,
                        a.join(","),
                        self.place(destination),
                        target.map(|t| format!("{}", t.as_usize())).unwrap_or_else(|| "null".into()),
                        uw,
                        common
                    );
                }
                TerminatorKind::Assert { cond, expected, msg, target, unwind } => {
                    let kind = match &**msg {
                        AssertKind::BoundsCheck { .. } => "BoundsCheck".to_string(),
                        AssertKind::Overflow(op, ..) => format!("Overflow({:?})", op),
                        AssertKind::OverflowNeg(_) => "OverflowNeg".to_string(),
                        AssertKind::DivisionByZero(_) => "DivisionByZero".to_string(),
                        AssertKind::RemainderByZero(_) => "RemainderByZero".to_string(),
                        AssertKind::MisalignedPointerDereference { .. } => "MisalignedPointerDereference".to_string(),
                        AssertKind::NullPointerDereference => "NullPointerDereference".to_string(),
                        AssertKind::InvalidEnumConstruction(_) => "InvalidEnumConstruction".to_string(),
                        _ => "Other".to_string(),
                    };
                    let ops: Vec<String> = match &**msg {
                        AssertKind::BoundsCheck { len, index } => vec![self.operand(len, did), self.operand(index, did)],
                        AssertKind::Overflow(_, a, b) => vec![self.operand(a, did), self.operand(b, did)],
                        AssertKind::OverflowNeg(a) | AssertKind::DivisionByZero(a) | AssertKind::RemainderByZero(a) => {
                            vec![self.operand(a, did)]
                        }
                        _ => vec![],
                    };
                    let uw = match unwind {
                        UnwindAction::Cleanup(b) => format!("{}", b.as_usize()),
                        _ => "null".to_string(),
                    };
                    let _ = write!(
                        out,
                        "{{\"k\":\"Assert\",\"cond\":{},\"expected\":{},\"assert\":{},\"ops\":[{}],\"target\":{},\"unwind\":{},{}}}",
                        self.operand(cond, did),
                        expected,
                        esc(&kind),
                        ops.join(","),
                        target.as_usize(),
                        uw,
                        common
                    );
                }
                other => {
                    let succ: Vec<String> = other.successors().map(|b| format!("{}", b.as_usize())).collect();
                    let _ = write!(
                        out,
                        "{{\"k\":\"Other\",\"text\":{},\"succ\":[{}],{}}}",
                        esc(&format!("{:?}", other)),
                        succ.join(","),
                        common
                    );
                }
            }
            out.push('}');
        }
        out.push_str("]}");
    }
}

struct Cb;

impl rustc_driver::Callbacks for Cb {
    fn after_analysis<'tcx>(
        &mut self,
        _compiler: &rustc_interface::interface::Compiler,
        tcx: TyCtxt<'tcx>,
    ) -> rustc_driver::Compilation {
        let krate = tcx.crate_name(LOCAL_CRATE).to_string();
        let wanted = std::env::var("MIRFACTS_CRATES").unwrap_or_default();
        if !wanted.split(',').any(|w| w == krate) {
            return rustc_driver::Compilation::Continue;
        }
        let out_dir = match std::env::var("MIRFACTS_OUT") {
            Ok(d) => d,
            Err(_) => return rustc_driver::Compilation::Continue,
        };
        let mut cx = Cx { tcx, krate: krate.clone(), adts: BTreeMap::new() };
        let mut out = String::new();
        let mut features: Vec<String> = tcx
            .sess
            .config
            .iter()
            .filter_map(|(k, v)| {
                if k.as_str() == "feature" {
                    v.map(|v| v.to_string())
                } else {
                    None
                }
            })
            .collect();
        features.sort();
        let crate_types: Vec<String> = tcx.crate_types().iter().map(|c| format!("{:?}", c)).collect();
        let is_test = tcx.sess.opts.test;
        let _ = write!(
            out,
            "{{\"crate\":{},\"features\":[{}],\"crate_types\":[{}],\"test\":{},\"bodies\":[",
            esc(&krate),
            features.iter().map(|f| esc(f)).collect::<Vec<_>>().join(","),
            crate_types.iter().map(|f| esc(f)).collect::<Vec<_>>().join(","),
            is_test
        );
        let mut n = 0usize;
        for ldid in tcx.hir_body_owners() {
            let did = ldid.to_def_id();
            let kind = tcx.def_kind(did);
            if !matches!(kind, DefKind::Fn | DefKind::AssocFn | DefKind::Closure) {
                continue;
            }
            if tcx.is_constructor(did) {
                continue;
            }
            // coroutine closures etc. still have optimized_mir
            let body = tcx.optimized_mir(did);
            if n > 0 {
                out.push(',');
            }
            n += 1;
            cx.body(did, body, &mut out);
        }
        out.push_str("],\"impls\":[");
        // local trait impls: trait, self type, (trait item -> impl item)
        let mut first = true;
        for (trait_did, impls) in tcx.all_local_trait_impls(()) {
            for impl_ldid in impls {
                let impl_did = impl_ldid.to_def_id();
                let self_ty = tcx.type_of(impl_did).instantiate_identity().skip_norm_wip();
                if !first {
                    out.push(',');
                }
                first = false;
                let _ = write!(
                    out,
                    "{{\"trait\":{},\"self_ty\":{},\"items\":[",
                    esc(&cx.path(*trait_did)),
                    esc(&cx.ty(self_ty))
                );
                let mut f2 = true;
                for item in tcx.associated_items(impl_did).in_definition_order() {
                    if !matches!(item.kind, ty::AssocKind::Fn { .. }) {
                        continue;
                    }
                    if let Some(ti) = item.trait_item_def_id() {
                        if !f2 {
                            out.push(',');
                        }
                        f2 = false;
                        let _ = write!(out, "[{},{}]", esc(&cx.path(ti)), esc(&cx.path(item.def_id)));
                    }
                }
                out.push_str("]}");
            }
        }
        out.push_str("],\"adts\":{");
        let mut first = true;
        for (k, v) in &cx.adts {
            if !first {
                out.push(',');
            }
            first = false;
            let _ = write!(out, "{}:{}", esc(k), v);
        }
        out.push_str("}}");
        // unique name per rustc invocation (the same crate may be compiled twice)
        let mut h: u64 = 0xcbf29ce484222325;
        for a in std::env::args() {
            for b in a.bytes() {
                h ^= b as u64;
                h = h.wrapping_mul(0x100000001b3);
            }
        }
        let fname = format!("{}/{}-{:016x}.json", out_dir, krate, h);
        let _ = std::fs::create_dir_all(&out_dir);
        if let Err(e) = std::fs::write(&fname, out) {
            eprintln!("mirfacts: cannot write {}: {}", fname, e);
        }
        rustc_driver::Compilation::Continue
    }
}

fn main() {
    let mut args: Vec<String> = std::env::args().collect();
    // RUSTC_WORKSPACE_WRAPPER passes the real rustc as argv[1]
    if args.len() > 1 && (args[1].ends_with("rustc") || args[1].contains("/rustc")) {
        args.remove(1);
    }
    rustc_driver::run_compiler(&args, &mut Cb);
}
