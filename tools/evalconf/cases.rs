// Differential conformance cases for rules/absint.py: every `case_*` function is (1) compiled and run by rustc and (2) interpreted
// by the abstract evaluator; the Debug rendering of both results must agree (bin/evalconf). Only constructs the rules rely on.
#![allow(clippy::all, unused)]
use std::collections::BTreeMap;

#[derive(Debug, Clone, PartialEq)]
pub enum V { A(i64), B(String), C }

pub fn case_find_consumes() -> Vec<i64> {
    let v = vec![1, 2, 3, 4, 5];
    let mut it = v.iter();
    let first_even = it.by_ref().find(|x| **x % 2 == 0).copied().unwrap_or(0);
    let rest: Vec<i64> = it.copied().collect();
    let mut out = vec![first_even];
    out.extend(rest);
    out
}
pub fn case_position_consumes() -> Vec<i64> {
    let v = vec![5, 6, 7, 8];
    let mut it = v.iter();
    let p = it.by_ref().position(|x| *x == 6).map(|p| p as i64).unwrap_or(-1);
    let mut out = vec![p];
    for x in it { out.push(*x); }
    out
}
pub fn case_any_consumes() -> Vec<i64> {
    let v = vec![1, 3, 4, 5];
    let mut it = v.iter();
    let found = it.by_ref().any(|x| *x % 2 == 0);
    let mut out = vec![if found { 1 } else { 0 }];
    out.extend(it.copied());
    out
}
pub fn case_for_by_ref_break() -> Vec<i64> {
    let v = vec![1, 2, 3, 4];
    let mut it = v.iter();
    let mut out = Vec::new();
    for x in it.by_ref() {
        if *x == 2 { break; }
        out.push(*x);
    }
    out.push(100);
    for x in it { out.push(*x); }
    out
}
pub fn case_try_fold_option() -> Option<i64> {
    let v = vec![1, 2, 3];
    v.iter().try_fold(0i64, |acc, x| if *x < 5 { Some(acc + *x) } else { None })
}
pub fn case_try_fold_option_none() -> Option<i64> {
    let v = vec![1, 9, 3];
    v.iter().try_fold(0i64, |acc, x| if *x < 5 { Some(acc + *x) } else { None })
}
pub fn case_try_fold_empty() -> Option<i64> {
    let v: Vec<i64> = vec![];
    v.iter().try_fold(7i64, |acc, x| Some(acc + *x))
}
pub fn case_collect_result_empty() -> Result<Vec<i64>, String> {
    let v: Vec<i64> = vec![];
    v.iter().map(|x| if *x > 0 { Ok(*x) } else { Err("neg".to_string()) }).collect::<Result<Vec<_>, _>>()
}
pub fn case_collect_result_err() -> Result<Vec<i64>, String> {
    let v = vec![1, -2, 3];
    v.iter().map(|x| if *x > 0 { Ok(*x) } else { Err("neg".to_string()) }).collect::<Result<Vec<_>, _>>()
}
pub fn case_iter_once_chain() -> Vec<i64> {
    let rest = vec![2, 3];
    std::iter::once(1).chain(rest.into_iter()).collect()
}
pub fn case_option_flatten() -> Vec<Option<i64>> {
    let a: Option<Option<i64>> = Some(Some(1));
    let b: Option<Option<i64>> = Some(None);
    let c: Option<Option<i64>> = None;
    vec![a.flatten(), b.flatten(), c.flatten()]
}
pub fn case_bool_then() -> Vec<Option<i64>> {
    vec![true.then(|| 1), false.then(|| 2), true.then_some(3), false.then_some(4)]
}
pub fn case_float_cast_saturates() -> Vec<i64> {
    let big = 1e20f64;
    let neg = -1e19f64;
    vec![(big as u64 == u64::MAX) as i64, neg as i64, 3.9f64 as i64, -3.9f64 as i64, (300.0f64 as u8) as i64]
}
pub fn case_float_fract() -> Vec<bool> {
    vec![3.0f64.fract() == 0.0, 2.5f64.fract() == 0.0, 1e20f64.fract() == 0.0, -0.0f64 < 0.0]
}
pub fn case_int_cast_wraps() -> Vec<i64> {
    vec![(300i64 as u8) as i64, (-1i64 as u8) as i64, (200i64 as i8) as i64, (70000i64 as u16) as i64]
}
pub fn case_f32_narrow() -> bool {
    (16777217i64 as f32) as f64 == 16777217f64
}
pub fn case_float_display_debug() -> Vec<String> {
    vec![format!("{}", 2.0f64), format!("{:?}", 2.0f64), format!("{}", 2.5f64), format!("{}{}", 1, "x"), format!("{:04x}", 31), format!("{:?}", "q")]
}
pub fn case_write_into_string() -> String {
    use std::fmt::Write;
    let mut s = String::from("a");
    let _ = write!(s, "\\u{:04x}", 12);
    s.push('b');
    let _ = write!(s, "{}-{}", 1, "z");
    s
}
// (limit: the evaluator models maps as insertion-ordered association lists - iteration order is not the key order)
pub fn case_limit_map_entry_order() -> Vec<(String, i64)> {
    let mut m: BTreeMap<String, i64> = BTreeMap::new();
    *m.entry("b".to_string()).or_default() += 2;
    *m.entry("a".to_string()).or_insert(5) += 1;
    *m.entry("b".to_string()).or_insert_with(|| 100) += 1;
    m.into_iter().collect()
}
// (limit: without types, an integer argument to get / remove on a list is an index; integer-keyed maps are not modelled)
pub fn case_limit_int_keyed_map() -> Vec<Option<i64>> {
    let mut m: BTreeMap<i64, i64> = BTreeMap::new();
    vec![m.insert(1, 10), m.insert(1, 11), m.get(&1).copied(), m.remove(&1), m.remove(&1)]
}
pub fn case_map_entry_sorted_view() -> Vec<(String, i64)> {
    let mut m: BTreeMap<String, i64> = BTreeMap::new();
    *m.entry("a".to_string()).or_default() += 2;
    *m.entry("b".to_string()).or_insert(5) += 1;
    *m.entry("a".to_string()).or_insert_with(|| 100) += 1;
    m.into_iter().collect()
}
pub fn case_map_insert_returns_old_str() -> Vec<Option<i64>> {
    let mut m: BTreeMap<String, i64> = BTreeMap::new();
    vec![m.insert("k".into(), 10), m.insert("k".into(), 11), m.get("k").copied(), m.remove("k"), m.remove("k")]
}
pub fn case_retain_dedup() -> Vec<i64> {
    let mut v = vec![1, 1, 2, 3, 3, 3, 4, 1];
    v.dedup();
    v.retain(|x| *x != 4);
    v
}
pub fn case_sort_by_key_reverse() -> Vec<(i64, i64)> {
    let mut v = vec![(1, 1), (3, 2), (2, 3), (3, 4), (1, 5)];
    v.sort_by(|a, b| a.0.cmp(&b.0).reverse());
    v
}
pub fn case_split_first_last() -> Vec<i64> {
    let v = vec![1, 2, 3];
    let (first, rest) = v.split_first().unwrap();
    let (last, init) = v.split_last().unwrap();
    vec![*first, rest.len() as i64, *last, init.len() as i64]
}
pub fn case_slice_patterns() -> Vec<i64> {
    fn f(v: &[i64]) -> i64 {
        match v {
            [] => 0,
            [one] => *one,
            [first, .., last] => first * 10 + last,
        }
    }
    vec![f(&[]), f(&[7]), f(&[1, 2]), f(&[1, 2, 3])]
}
pub fn case_str_ops() -> Vec<String> {
    let s = "  a.b:c_one ";
    let t = s.trim();
    let (l, r) = t.split_once(':').unwrap();
    let (base, suf) = r.rsplit_once('_').unwrap();
    vec![l.to_string(), base.to_string(), suf.to_string(), t.strip_suffix("one").unwrap_or(t).to_string(), t.trim_end_matches('e').to_string(),
         t.replace('_', "-"), t.to_uppercase(), format!("{}", t.starts_with("a.")), format!("{}", "é".len()), format!("{:?}", "aé".char_indices().collect::<Vec<_>>())]
}
pub fn case_str_eq_ignore_case() -> Vec<bool> {
    vec!["FR".eq_ignore_ascii_case("fr"), "fr-CA".eq_ignore_ascii_case("FR-ca"), "fr" == "FR", "é".eq_ignore_ascii_case("É")]
}
pub fn case_enum_match_guard() -> Vec<i64> {
    fn f(v: &V) -> i64 {
        match v {
            V::A(n) if *n > 10 => 2,
            V::A(_) => 1,
            V::B(s) if s.is_empty() => -1,
            V::B(_) | V::C => 0,
        }
    }
    vec![f(&V::A(11)), f(&V::A(3)), f(&V::B(String::new())), f(&V::B("x".into())), f(&V::C)]
}
pub fn case_mutate_through_iter_mut_map() -> Vec<i64> {
    let mut v = vec![1, 2, 3];
    let doubled: Vec<i64> = v.iter_mut().map(|x| { *x += 1; *x * 2 }).collect();
    let mut out = v.clone();
    out.extend(doubled);
    out
}
pub fn case_option_as_deref_mut_map() -> Vec<i64> {
    fn bump(xs: &mut [i64]) -> i64 { for x in xs.iter_mut() { *x += 10; } xs.len() as i64 }
    let mut o: Option<Vec<i64>> = Some(vec![1, 2]);
    let n = o.as_deref_mut().map(bump).unwrap_or(0);
    let mut out = o.unwrap();
    out.push(n);
    out
}
pub fn case_labeled_loops() -> Vec<i64> {
    let mut out = Vec::new();
    'outer: for i in 0..4 {
        for j in 0..4 {
            if j == 2 { continue 'outer; }
            if i == 3 { break 'outer; }
            out.push(i * 10 + j);
        }
    }
    out
}
pub fn case_chunks_div_ceil() -> Vec<i64> {
    let v: Vec<i64> = (0..7).collect();
    let size = v.len().div_ceil(3);
    v.chunks(size).map(|c| c.len() as i64).collect()
}
pub fn case_checked_sub() -> Vec<Option<u64>> {
    vec![3u64.checked_sub(1), 0u64.checked_sub(1)]
}
pub fn case_zip_enumerate_rev() -> Vec<i64> {
    let a = vec![1, 2, 3];
    let b = vec![10, 20];
    let mut out: Vec<i64> = a.iter().zip(b.iter()).map(|(x, y)| x + y).collect();
    out.extend(a.iter().enumerate().map(|(i, x)| i as i64 * x));
    out.extend(a.iter().rev().copied());
    out.extend(a.iter().skip(1).take(1).copied());
    out
}
pub fn case_mem_take_replace() -> Vec<String> {
    let mut a = String::from("x");
    let b = std::mem::take(&mut a);
    let mut c = String::from("y");
    let d = std::mem::replace(&mut c, String::from("z"));
    vec![a, b, c, d]
}
pub fn case_unwrap_or_default_map_or() -> Vec<i64> {
    let a: Option<i64> = None;
    let b: Option<i64> = Some(4);
    vec![a.unwrap_or_default(), b.map_or(0, |x| x * 2), a.map_or(7, |x| x), b.filter(|x| *x > 5).unwrap_or(-1), a.or(b).unwrap_or(0), b.xor(a).unwrap_or(0)]
}

// ---------------------------------------------------------------- second batch
pub fn case_str_find_indices() -> Vec<String> {
    let s = "a<b>é</b>c{{ x }}";
    vec![format!("{:?}", s.find('<')), format!("{:?}", s.find("</")), format!("{:?}", s.rfind('>')), format!("{:?}", s.find("zz")),
         format!("{:?}", s.match_indices("b>").map(|(i, _)| i).collect::<Vec<_>>()), format!("{:?}", s.split_at(4)), format!("{:?}", &s[1..4]),
         format!("{:?}", s.split_once("{{")), format!("{:?}", s.char_indices().nth(4)), format!("{}", s.len()), format!("{}", s.chars().count())]
}
pub fn case_str_trim_strip() -> Vec<String> {
    let s = "\n  __x__ \t";
    vec![s.trim().to_string(), s.trim_start().to_string(), s.trim_end().to_string(), s.trim().trim_matches('_').to_string(), s.trim().trim_start_matches("__").to_string(),
         format!("{:?}", s.trim().strip_prefix("__")), format!("{:?}", s.trim().strip_suffix("!")), format!("{}", s.trim().is_empty()), format!("{}", "   ".trim().is_empty())]
}
pub fn case_str_split_variants() -> Vec<String> {
    let s = "a.b..c";
    vec![format!("{:?}", s.split('.').collect::<Vec<_>>()), format!("{:?}", s.splitn(2, '.').collect::<Vec<_>>()), format!("{:?}", s.rsplit('.').collect::<Vec<_>>()),
         format!("{:?}", s.split("..").collect::<Vec<_>>()), format!("{:?}", "a b  c".split_whitespace().collect::<Vec<_>>()), format!("{:?}", s.rsplit_once('.')),
         format!("{:?}", "k_ordinal_one".rsplit_once('_')), format!("{:?}", "k_ordinal".strip_suffix("_ordinal")), format!("{:?}", "x_ordinal_ordinal".trim_end_matches("_ordinal"))]
}
pub fn case_str_bytes_chars() -> Vec<String> {
    let s = "aé\u{1f600}";
    vec![format!("{:?}", s.bytes().map(|b| b as u32).collect::<Vec<_>>().len()), format!("{:?}", s.chars().map(|c| c.len_utf8()).collect::<Vec<_>>()),
         format!("{}", s.is_char_boundary(2)), format!("{}", s.is_ascii()), format!("{:?}", s.chars().rev().collect::<String>()), format!("{:?}", s.chars().next()),
         format!("{:?}", s.chars().last()), format!("{}", 'é'.is_alphabetic()), format!("{}", '1'.is_ascii_digit()), format!("{}", ' '.is_whitespace())]
}
pub fn case_string_building() -> String {
    let mut s = String::new();
    s.push_str("ab");
    s.push('c');
    s.insert(0, '>');
    s += "d";
    s.extend(['e', 'f']);
    let t = s.clone() + "!";
    format!("{}|{}|{}|{}", s, t, s.len(), s.contains("cd"))
}
pub fn case_option_combinators() -> Vec<String> {
    let a: Option<i64> = Some(3);
    let n: Option<i64> = None;
    vec![format!("{:?}", a.map(|x| x + 1)), format!("{:?}", a.and_then(|x| if x > 5 { Some(x) } else { None })), format!("{:?}", n.or_else(|| Some(9))),
         format!("{:?}", a.ok_or("e")), format!("{:?}", n.ok_or_else(|| "e2".to_string())), format!("{:?}", a.zip(Some('c'))), format!("{:?}", a.is_some_and(|x| x == 3)),
         format!("{:?}", n.is_none()), format!("{:?}", a.unwrap_or(0) + n.unwrap_or(10)), format!("{:?}", a.as_ref().map(|x| *x * 2)), format!("{:?}", a.iter().chain(n.iter()).count())]
}
pub fn case_result_combinators() -> Vec<String> {
    let a: Result<i64, String> = Ok(3);
    let e: Result<i64, String> = Err("bad".to_string());
    vec![format!("{:?}", a.clone().map(|x| x * 2)), format!("{:?}", e.clone().map_err(|s| s.len())), format!("{:?}", a.clone().ok()), format!("{:?}", e.clone().ok()),
         format!("{:?}", e.clone().err()), format!("{:?}", a.clone().and_then(|x| if x > 1 { Ok(x) } else { Err("small".to_string()) })), format!("{:?}", e.clone().unwrap_or(7)),
         format!("{:?}", e.clone().unwrap_or_else(|s| s.len() as i64)), format!("{:?}", a.is_ok()), format!("{:?}", e.is_err())]
}
pub fn case_question_mark() -> Vec<String> {
    fn f(v: &[i64]) -> Option<i64> { let a = v.first()?; let b = v.get(1)?; Some(a + b) }
    fn g(s: &str) -> Result<i64, String> { let n: i64 = s.parse().map_err(|_| format!("nan: {}", s))?; if n < 0 { return Err("neg".into()); } Ok(n * 2) }
    vec![format!("{:?}", f(&[1, 2])), format!("{:?}", f(&[1])), format!("{:?}", g("21")), format!("{:?}", g("x")), format!("{:?}", g("-1"))]
}
pub fn case_vec_ops() -> Vec<String> {
    let mut v = vec![3, 1, 2];
    v.sort();
    let sorted = v.clone();
    v.reverse();
    v.insert(1, 9);
    let removed = v.remove(0);
    v.swap(0, 1);
    v.truncate(2);
    let last = v.last().copied();
    let popped = v.pop();
    vec![format!("{:?}", sorted), format!("{:?}", v), format!("{}", removed), format!("{:?}", last), format!("{:?}", popped), format!("{:?}", v.first()),
         format!("{:?}", vec![1, 2, 3].iter().position(|x| *x == 3)), format!("{:?}", vec![1, 2, 3].contains(&2)), format!("{:?}", vec![1, 2, 3].iter().max()),
         format!("{:?}", vec![1, 2, 3].iter().sum::<i64>()), format!("{:?}", vec![0; 3]), format!("{:?}", [1, 2, 3, 4].windows(2).map(|w| w[0] + w[1]).collect::<Vec<_>>())]
}
pub fn case_iter_adaptors() -> Vec<String> {
    let v = vec![1, 2, 3, 4, 5, 6];
    vec![format!("{:?}", v.iter().filter(|x| **x % 2 == 0).collect::<Vec<_>>()), format!("{:?}", v.iter().filter_map(|x| if *x > 4 { Some(x * 10) } else { None }).collect::<Vec<_>>()),
         format!("{:?}", v.iter().take_while(|x| **x < 3).collect::<Vec<_>>()), format!("{:?}", v.iter().skip_while(|x| **x < 5).collect::<Vec<_>>()),
         format!("{:?}", v.iter().step_by(2).collect::<Vec<_>>()), format!("{:?}", v.iter().fold(0, |a, x| a * 2 + x)), format!("{:?}", v.iter().all(|x| *x > 0)),
         format!("{:?}", v.iter().flat_map(|x| vec![*x; (*x % 3) as usize]).collect::<Vec<_>>()), format!("{:?}", v.iter().last()), format!("{:?}", v.iter().nth(10)),
         format!("{:?}", v.iter().map(|x| x.to_string()).collect::<Vec<_>>().join("-")), format!("{:?}", v.iter().min_by_key(|x| (**x - 4i64).abs())),
         format!("{:?}", v.iter().partition::<Vec<i64>, _>(|x| **x > 3)), format!("{:?}", v.chunks(4).map(|c| c.to_vec()).collect::<Vec<_>>())]
}
pub fn case_peekable() -> Vec<i64> {
    let v = vec![1, 2, 3];
    let mut it = v.iter().peekable();
    let mut out = Vec::new();
    while let Some(x) = it.next() {
        out.push(*x);
        if let Some(nx) = it.peek() { out.push(**nx * 10); }
    }
    out
}
pub fn case_while_let_pop() -> Vec<i64> {
    let mut stack = vec![1, 2, 3];
    let mut out = Vec::new();
    while let Some(top) = stack.pop() {
        out.push(top);
        if top == 3 { stack.push(7); }
    }
    out
}
pub fn case_nested_struct_update() -> String {
    #[derive(Debug, Clone, Default)]
    struct Inner { n: i64, tags: Vec<String> }
    #[derive(Debug, Clone, Default)]
    struct Outer { inner: Inner, name: String }
    let mut o = Outer::default();
    o.inner.n += 2;
    o.inner.tags.push("t".into());
    o.name.push_str("nm");
    let p = Outer { name: "other".into(), ..o.clone() };
    format!("{:?}|{:?}", o, p)
}
pub fn case_match_tuple_bindings() -> Vec<i64> {
    fn f(a: Option<i64>, b: Option<i64>) -> i64 {
        match (a, b) {
            (Some(x), Some(y)) if x == y => 100 + x,
            (Some(x), Some(y)) => x * 10 + y,
            (Some(x), None) | (None, Some(x)) => x,
            (None, None) => -1,
        }
    }
    vec![f(Some(2), Some(2)), f(Some(2), Some(3)), f(Some(4), None), f(None, Some(5)), f(None, None)]
}
pub fn case_if_let_else_chain() -> Vec<i64> {
    fn f(v: &V) -> i64 {
        if let V::A(n) = v { *n } else if let V::B(s) = v { s.len() as i64 } else { -1 }
    }
    fn g(o: Option<i64>) -> i64 { let Some(x) = o else { return -7; }; x + 1 }
    vec![f(&V::A(5)), f(&V::B("abc".into())), f(&V::C), g(Some(1)), g(None)]
}
pub fn case_closure_captures_mutation() -> Vec<i64> {
    let mut count = 0;
    let mut log = Vec::new();
    let mut bump = |by: i64| { count += by; log.push(count); };
    bump(2);
    bump(3);
    log.push(count * 100);
    log
}
pub fn case_btreeset_ops() -> Vec<String> {
    use std::collections::BTreeSet;
    let mut s: BTreeSet<String> = BTreeSet::new();
    let a = s.insert("b".into());
    let b = s.insert("b".into());
    s.insert("a".into());
    let had = s.contains("a");
    let rm = s.remove("a");
    let rm2 = s.remove("zz");
    vec![format!("{} {} {} {} {}", a, b, had, rm, rm2), format!("{:?}", s.len()), format!("{:?}", s.is_empty())]
}
pub fn case_shadowing_and_blocks() -> i64 {
    let x = 1;
    let y = {
        let x = x + 10;
        let x = x * 2;
        x
    };
    let x = x + y;
    x
}
pub fn case_integer_semantics() -> Vec<i64> {
    vec![7 / 2, -7 / 2, 7 % 3, -7 % 3, (7i64).pow(2), (-7i64).abs(), 5i64.min(3), 5i64.max(3), (5u64).saturating_sub(9) as i64, 3i64.signum(), (10usize).div_ceil(4) as i64, 1 << 4, 0xff & 0x0f, 6 ^ 3]
}
pub fn case_string_local_a() -> String { let mut s = String::new(); s.push_str("ab"); s.push('c'); s }
pub fn case_string_local_b() -> String { let mut s = String::new(); s.push_str("ab"); s.insert(0, '>'); s }
pub fn case_string_local_c() -> String { let mut s = String::new(); s.push_str("ab"); s += "d"; s }
pub fn case_string_local_d() -> String { let mut s = String::from("ab"); s.extend(['e', 'f']); s }
pub fn case_string_local_e() -> String { let s = String::from("ab"); let t = s.clone() + "!"; t }
pub fn case_string_local_f() -> usize { let a: Option<i64> = Some(3); let n: Option<i64> = None; a.iter().chain(n.iter()).count() }
pub fn case_string_local_g() -> Vec<i64> { let v = vec![1, 2, 3]; v }
pub fn case_string_local_h() -> Vec<i64> { let v = vec![7; 3]; v }
pub fn case_string_local_i() -> Vec<&'static str> { "a b  c".split_whitespace().collect() }
pub struct SeedP { a: i64, b: String, c: bool }
impl SeedP { fn take_ab(self) -> String { let Self { a, b, .. } = self; format!("{}{}", a, b) } }
pub fn case_self_struct_pattern() -> String {
    SeedP { a: 4, b: "x".to_string(), c: true }.take_ab()
}
#[derive(Debug, Clone, PartialEq)]
pub enum ValD { Text(String), Many(Vec<ValD>) }
impl Default for ValD { fn default() -> Self { ValD::Text(String::new()) } }
impl ValD {
    fn shrink(&mut self) { if let ValD::Many(vs) = self { if vs.len() <= 1 { *self = vs.pop().unwrap_or_default(); } } }
}
pub fn case_default_of_self() -> Vec<ValD> {
    let mut a = ValD::Many(vec![]);
    let mut b = ValD::Many(vec![ValD::Text("x".into())]);
    let mut c = ValD::Many(vec![ValD::Text("x".into()), ValD::Text("y".into())]);
    a.shrink(); b.shrink(); c.shrink();
    vec![a, b, c]
}
pub fn case_more_option_a() -> Vec<String> {
    let a: Option<String> = Some("x".to_owned());
    let n: Option<String> = None;
    let r: Option<Result<i64, String>> = Some(Ok(3));
    let e: Option<Result<i64, String>> = Some(Err("bad".to_owned()));
    vec![format!("{:?}", a.as_deref()), format!("{:?}", n.as_deref()), format!("{:?}", a.is_some()), format!("{:?}", r.transpose()), format!("{:?}", e.transpose()),
         format!("{:?}", a.clone().into_iter().chain(n.clone()).collect::<Vec<_>>()), format!("{:?}", a.as_ref().map(|s| s.as_str()).unwrap_or("none")),
         format!("{:?}", a.iter().cloned().collect::<Vec<String>>()), format!("{:?}", std::ops::Not::not(a.is_none()))]
}
pub fn case_find_map_unzip() -> Vec<String> {
    let v = vec![("a", 1), ("b", 2), ("c", 3)];
    let (names, nums): (Vec<&str>, Vec<i64>) = v.iter().cloned().unzip();
    vec![format!("{:?}", v.iter().find_map(|(k, n)| if *n > 1 { Some(*k) } else { None })), format!("{:?}", v.iter().find_map(|(_, n)| if *n > 5 { Some(*n) } else { None })),
         format!("{:?}", names), format!("{:?}", nums)]
}
pub fn case_vec_mut_ends() -> Vec<i64> {
    let mut v = vec![5, 3, 9, 1];
    if let Some(f) = v.first_mut() { *f += 10; }
    if let Some(l) = v.last_mut() { *l = 7; }
    if let Some(x) = v.get_mut(1) { *x *= 2; }
    v.sort_unstable();
    let s = v.as_slice().len() as i64;
    v.push(s);
    v
}
pub fn case_vec_clear_reuse() -> Vec<String> {
    let mut v = vec!["a".to_string(), "b".to_string()];
    let before = v.len();
    v.clear();
    v.push("c".to_owned());
    vec![format!("{}", before), format!("{:?}", v), format!("{}", v.is_empty())]
}
pub fn case_map_keys_values() -> Vec<String> {
    let mut m = std::collections::BTreeMap::new();
    m.insert("a", 1);
    m.insert("b", 2);
    m.insert("c", 3);
    for v in m.values_mut() { *v *= 10; }
    if let Some(v) = m.get_mut("b") { *v += 1; }
    vec![format!("{:?}", m.keys().collect::<Vec<_>>()), format!("{:?}", m.values().collect::<Vec<_>>()), format!("{}", m.contains_key("b")), format!("{}", m.contains_key("z")),
         format!("{:?}", m.get("b")), format!("{:?}", m.len())]
}
pub fn case_set_difference() -> Vec<String> {
    let a: std::collections::BTreeSet<&str> = ["few", "one", "zero"].into_iter().collect();
    let b: std::collections::BTreeSet<&str> = ["one", "other"].into_iter().collect();
    vec![format!("{:?}", a.difference(&b).collect::<Vec<_>>()), format!("{:?}", b.difference(&a).copied().collect::<Vec<_>>()), format!("{}", a.contains("few"))]
}
pub fn case_option_get_or_insert() -> Vec<String> {
    let mut o: Option<Vec<i64>> = None;
    o.get_or_insert_with(Vec::new).push(1);
    o.get_or_insert_with(Vec::new).push(2);
    let mut p: Option<i64> = Some(5);
    let got = *p.get_or_insert_with(|| 9);
    vec![format!("{:?}", o), format!("{:?}", p), format!("{}", got)]
}
pub fn case_reduce_fold() -> Vec<String> {
    let v = vec![1, 2, 3, 4];
    let e: Vec<i64> = vec![];
    vec![format!("{:?}", v.iter().copied().reduce(|a, b| a * b)), format!("{:?}", e.iter().copied().reduce(|a, b| a * b)), format!("{:?}", v.iter().fold(String::new(), |mut acc, x| { acc.push_str(&x.to_string()); acc })),
         format!("{:?}", v.iter().rev().skip(1).take(2).collect::<Vec<_>>())]
}
pub fn case_str_bytes_cmp() -> Vec<String> {
    let s = "ab";
    vec![format!("{:?}", s.as_bytes().len()), format!("{}", s.as_bytes()[1]), format!("{}", "abc".cmp("abd") == std::cmp::Ordering::Less), format!("{}", "b" > "a"), format!("{:?}", "x".to_owned() + "y")]
}
pub fn case_alias_a() -> Vec<i64> { let mut v = vec![1, 2, 3]; for x in v.iter_mut() { *x *= 3; } v }
pub fn case_alias_b() -> Vec<i64> { let mut v = vec![1, 2, 3]; for x in &mut v { if *x > 1 { *x -= 1; } } v }
pub fn case_alias_c() -> Vec<i64> { let mut v = vec![1, 2, 3]; for (i, x) in v.iter_mut().enumerate() { *x += i as i64; } v }
pub fn case_alias_d() -> Vec<i64> { let mut v = vec![1, 2, 3]; for x in v.iter_mut() { *x = *x * 3; } v }
pub fn case_alias_e() -> Vec<i64> { let mut acc = vec![1]; { let a2 = &mut acc; a2.push(99); } acc }
pub fn case_alias_f() -> Vec<i64> { let mut acc = vec![1]; let a2 = &mut acc; a2.push(99); acc }
pub fn case_alias_g() -> i64 { let mut n = 0; let mut next = || { n += 2; n }; let a = next(); let b = next(); a + b + n }
pub fn case_alias_h() -> Vec<i64> { let mut n = 0; let mut next = || { n += 2; n }; let v: Vec<i64> = (0..3).map(|i| i * 10 + next()).collect(); v }
pub fn case_alias_i() -> i64 { let mut n = 0; let mut next = || { n += 2; n }; let _v: Vec<i64> = (0..3).map(|_| next()).collect(); n }
pub fn case_alias_j() -> i64 { let mut n = 0; let mut next = || { n += 2; n }; for _ in 0..3 { next(); } n }
pub fn case_alias_k() -> Vec<i64> { let mut log = vec![]; let mut push = |x: i64| log.push(x); for i in 0..3 { if i != 1 { push(i); } } let mut i = 0; while i < 2 { push(10 + i); i += 1; } log }
pub fn case_closure_scope_1() -> i64 { let mut n = 0; let mut next = || { n += 2; n }; next(); next(); n }
pub fn case_closure_scope_2() -> i64 { let mut n = 0; let mut next = || { n += 2; n }; for _ in 0..3 { next(); } n }
pub fn case_closure_scope_3() -> i64 { let mut n = 0; let mut next = || { n += 2; n }; for _ in 0..3 { let _x = next(); } n }
pub fn case_closure_scope_4() -> i64 { let mut n = 0; let mut next = || { n += 2; n }; if true { next(); } n }
pub fn case_cf_while_pop() -> Vec<i64> {
    let mut stack = vec![1, 2, 3];
    let mut out = vec![];
    while let Some(x) = stack.pop() {
        if x == 2 { stack.push(20); stack.push(10); continue; }
        out.push(x);
        if out.len() > 10 { break; }
    }
    out
}
pub fn case_cf_labeled_break_value() -> (i64, i64) {
    let grid = vec![vec![1, 2, 3], vec![4, 5, 6]];
    let found = 'outer: loop {
        for (i, row) in grid.iter().enumerate() {
            for (j, v) in row.iter().enumerate() {
                if *v == 5 { break 'outer (i as i64, j as i64); }
            }
        }
        break (-1, -1);
    };
    found
}
pub fn case_cf_let_else() -> Vec<String> {
    fn f(s: &str) -> String {
        let Some((k, v)) = s.split_once('=') else { return format!("no-eq:{}", s); };
        let Ok(n) = v.trim().parse::<i64>() else { return format!("nan:{}", k); };
        format!("{}={}", k.trim(), n + 1)
    }
    vec![f("a = 4"), f("b"), f("c=x")]
}
pub fn case_cf_match_guards() -> Vec<String> {
    fn f(v: Option<(i64, &str)>) -> String {
        match v {
            Some((n, s)) if n < 0 => format!("neg {}", s),
            Some((n @ 0..=9, _)) => format!("digit {}", n),
            Some((n, "big")) | Some((n, "huge")) => format!("named {}", n),
            Some((_, s)) if s.is_empty() => "empty".to_string(),
            Some(other) => format!("{:?}", other),
            None => "none".to_string(),
        }
    }
    vec![f(Some((-1, "a"))), f(Some((5, "b"))), f(Some((50, "big"))), f(Some((60, "huge"))), f(Some((70, ""))), f(Some((80, "x"))), f(None)]
}
pub fn case_cf_fnmut_counter() -> Vec<i64> {
    let mut n = 0;
    let mut next = || { n += 2; n };
    let a = next();
    let b = next();
    let v: Vec<i64> = (0..3).map(|i| i * 10 + next()).collect();
    let mut out = vec![a, b];
    out.extend(v);
    out.push(n);
    out
}
pub fn case_cf_mut_param() -> Vec<String> {
    fn add(v: &mut Vec<i64>, s: &mut String, n: i64) -> bool { if n % 2 == 0 { v.push(n); s.push('e'); true } else { s.push('o'); false } }
    let mut v = vec![];
    let mut s = String::new();
    let rs: Vec<bool> = (1..=4).map(|n| add(&mut v, &mut s, n)).collect();
    vec![format!("{:?}", v), s, format!("{:?}", rs)]
}
pub fn case_cf_iter_mut_loop() -> Vec<i64> {
    let mut v = vec![1, 2, 3];
    for x in v.iter_mut() { *x *= 3; }
    for x in &mut v { if *x > 5 { *x -= 1; } }
    for (i, x) in v.iter_mut().enumerate() { *x += i as i64; }
    v
}
pub fn case_cf_retain_dedup_drain() -> Vec<String> {
    let mut v = vec![1, 1, 2, 3, 3, 3, 4, 1];
    v.dedup();
    let d = format!("{:?}", v);
    v.retain(|x| *x != 3);
    let r = format!("{:?}", v);
    let dr: Vec<i64> = v.drain(1..3).collect();
    let mut w = vec!["bb", "a", "ccc"];
    w.sort_by_key(|s| s.len());
    let mut z = vec![3, 1, 2];
    z.sort_by(|a, b| b.cmp(a));
    vec![d, r, format!("{:?}", dr), format!("{:?}", v), format!("{:?}", w), format!("{:?}", z)]
}
pub fn case_cf_char_scanner() -> Vec<String> {
    fn scan(s: &str) -> Vec<String> {
        let mut out = vec![];
        let mut it = s.char_indices().peekable();
        while let Some((i, c)) = it.next() {
            if c == '{' && it.peek().map(|(_, c2)| *c2) == Some('{') {
                it.next();
                let start = i + 2;
                let mut end = None;
                while let Some((j, d)) = it.next() {
                    if d == '}' && it.peek().map(|(_, c2)| *c2) == Some('}') { it.next(); end = Some(j); break; }
                }
                match end { Some(e) => out.push(format!("var:{}", s[start..e].trim())), None => out.push("unclosed".to_string()) }
            } else if !c.is_whitespace() {
                out.push(format!("ch:{}", c));
            }
        }
        out
    }
    let mut r = scan("a {{ x }}é{{y}} {{ z");
    r.extend(scan(""));
    r
}
pub fn case_cf_question_in_closure() -> Vec<String> {
    fn all(v: &[&str]) -> Result<Vec<i64>, String> { v.iter().map(|s| s.parse::<i64>().map_err(|_| format!("bad {}", s))).collect() }
    fn first_even(v: &[&str]) -> Option<i64> { v.iter().filter_map(|s| s.parse::<i64>().ok()).find(|n| n % 2 == 0) }
    fn sum(v: &[&str]) -> Result<i64, String> { let mut t = 0; for s in v { t += s.parse::<i64>().map_err(|e| e.to_string().len().to_string())?; } Ok(t) }
    vec![format!("{:?}", all(&["1", "2"])), format!("{:?}", all(&["1", "x", "y"])), format!("{:?}", first_even(&["1", "q", "4", "6"])), format!("{:?}", sum(&["1", "2"])), format!("{:?}", sum(&["1", "z"]).is_err())]
}
pub fn case_cf_shadow_blocks() -> Vec<i64> {
    let x = 1;
    let y = { let x = x + 10; x * 2 };
    let x = x + y;
    let z = if x > 20 { let y = 5; x + y } else { 0 };
    let mut acc = vec![x, y, z];
    { let acc2 = &mut acc; acc2.push(99); }
    acc
}
pub fn case_cf_nested_option_patterns() -> Vec<String> {
    fn f(v: Option<Option<Result<i64, &str>>>) -> String {
        match v { Some(Some(Ok(n))) if n > 0 => "pos".into(), Some(Some(Ok(_))) => "nonpos".into(), Some(Some(Err(e))) => format!("err {}", e), Some(None) => "inner none".into(), None => "none".into() }
    }
    vec![f(Some(Some(Ok(1)))), f(Some(Some(Ok(0)))), f(Some(Some(Err("x")))), f(Some(None)), f(None)]
}
pub fn case_cf_strip_prefix_chain() -> Vec<String> {
    fn f(s: &str) -> String {
        if let Some(rest) = s.strip_prefix("$t(") { if let Some(inner) = rest.strip_suffix(')') { return format!("fk:{}", inner.trim()); } return "unclosed".into(); }
        match s.find("::") { Some(i) => format!("ns:{}|{}", &s[..i], &s[i + 2..]), None => format!("plain:{}", s) }
    }
    vec![f("$t( a.b )"), f("$t(a"), f("ns::key"), f("key"), f("::"), f("é::ü")]
}
pub fn case_cf_early_return_loop() -> Vec<i64> {
    fn idx(v: &[i64], t: i64) -> i64 { for (i, x) in v.iter().enumerate() { if *x == t { return i as i64; } if *x > t { break; } } -1 }
    vec![idx(&[1, 3, 5], 3), idx(&[1, 3, 5], 4), idx(&[1, 3, 5], 9), idx(&[], 1)]
}
pub fn case_cf_tuple_swap_assign() -> Vec<i64> {
    let (mut a, mut b) = (1, 2);
    (a, b) = (b, a + b);
    let mut t = (a, b, 0);
    t.2 = t.0 * t.1;
    std::mem::swap(&mut a, &mut b);
    vec![a, b, t.0, t.1, t.2]
}
