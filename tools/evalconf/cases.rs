// Differential conformance cases for rules/absint.py: every `case_*` function is (1) compiled and run by rustc and (2) interpreted
// by the abstract evaluator; the Debug rendering of both results must agree (bin/evalconf). Only constructs the rules rely on.
#![allow(clippy::all, unused)]
use std::collections::BTreeMap;

#[derive(Debug, Clone, PartialEq)]
pub enum V { A(i64), B(String), C }

pub fn case_find_consumes() -> Vec<i64> {
    let v = vec![1, 2, 3, 4, 5];
    let mut it = v.iter();
    let first_even = it.by_ref().find(|x| **x % 2 == 0).copied().unwrap_or(0);
    let rest: Vec<i64> = it.copied().collect();
    let mut out = vec![first_even];
    out.extend(rest);
    out
}
pub fn case_position_consumes() -> Vec<i64> {
    let v = vec![5, 6, 7, 8];
    let mut it = v.iter();
    let p = it.by_ref().position(|x| *x == 6).map(|p| p as i64).unwrap_or(-1);
    let mut out = vec![p];
    for x in it { out.push(*x); }
    out
}
pub fn case_any_consumes() -> Vec<i64> {
    let v = vec![1, 3, 4, 5];
    let mut it = v.iter();
    let found = it.by_ref().any(|x| *x % 2 == 0);
    let mut out = vec![if found { 1 } else { 0 }];
    out.extend(it.copied());
    out
}
pub fn case_for_by_ref_break() -> Vec<i64> {
    let v = vec![1, 2, 3, 4];
    let mut it = v.iter();
    let mut out = Vec::new();
    for x in it.by_ref() {
        if *x == 2 { break; }
        out.push(*x);
    }
    out.push(100);
    for x in it { out.push(*x); }
    out
}
pub fn case_try_fold_option() -> Option<i64> {
    let v = vec![1, 2, 3];
    v.iter().try_fold(0i64, |acc, x| if *x < 5 { Some(acc + *x) } else { None })
}
pub fn case_try_fold_option_none() -> Option<i64> {
    let v = vec![1, 9, 3];
    v.iter().try_fold(0i64, |acc, x| if *x < 5 { Some(acc + *x) } else { None })
}
pub fn case_try_fold_empty() -> Option<i64> {
    let v: Vec<i64> = vec![];
    v.iter().try_fold(7i64, |acc, x| Some(acc + *x))
}
pub fn case_collect_result_empty() -> Result<Vec<i64>, String> {
    let v: Vec<i64> = vec![];
    v.iter().map(|x| if *x > 0 { Ok(*x) } else { Err("neg".to_string()) }).collect::<Result<Vec<_>, _>>()
}
pub fn case_collect_result_err() -> Result<Vec<i64>, String> {
    let v = vec![1, -2, 3];
    v.iter().map(|x| if *x > 0 { Ok(*x) } else { Err("neg".to_string()) }).collect::<Result<Vec<_>, _>>()
}
pub fn case_iter_once_chain() -> Vec<i64> {
    let rest = vec![2, 3];
    std::iter::once(1).chain(rest.into_iter()).collect()
}
pub fn case_option_flatten() -> Vec<Option<i64>> {
    let a: Option<Option<i64>> = Some(Some(1));
    let b: Option<Option<i64>> = Some(None);
    let c: Option<Option<i64>> = None;
    vec![a.flatten(), b.flatten(), c.flatten()]
}
pub fn case_bool_then() -> Vec<Option<i64>> {
    vec![true.then(|| 1), false.then(|| 2), true.then_some(3), false.then_some(4)]
}
pub fn case_float_cast_saturates() -> Vec<i64> {
    let big = 1e20f64;
    let neg = -1e19f64;
    vec![(big as u64 == u64::MAX) as i64, neg as i64, 3.9f64 as i64, -3.9f64 as i64, (300.0f64 as u8) as i64]
}
pub fn case_float_fract() -> Vec<bool> {
    vec![3.0f64.fract() == 0.0, 2.5f64.fract() == 0.0, 1e20f64.fract() == 0.0, -0.0f64 < 0.0]
}
pub fn case_int_cast_wraps() -> Vec<i64> {
    vec![(300i64 as u8) as i64, (-1i64 as u8) as i64, (200i64 as i8) as i64, (70000i64 as u16) as i64]
}
pub fn case_f32_narrow() -> bool {
    (16777217i64 as f32) as f64 == 16777217f64
}
pub fn case_float_display_debug() -> Vec<String> {
    vec![format!("{}", 2.0f64), format!("{:?}", 2.0f64), format!("{}", 2.5f64), format!("{}{}", 1, "x"), format!("{:04x}", 31), format!("{:?}", "q")]
}
pub fn case_write_into_string() -> String {
    use std::fmt::Write;
    let mut s = String::from("a");
    let _ = write!(s, "\\u{:04x}", 12);
    s.push('b');
    let _ = write!(s, "{}-{}", 1, "z");
    s
}
// (limit: the evaluator models maps as insertion-ordered association lists - iteration order is not the key order)
pub fn case_limit_map_entry_order() -> Vec<(String, i64)> {
    let mut m: BTreeMap<String, i64> = BTreeMap::new();
    *m.entry("b".to_string()).or_default() += 2;
    *m.entry("a".to_string()).or_insert(5) += 1;
    *m.entry("b".to_string()).or_insert_with(|| 100) += 1;
    m.into_iter().collect()
}
// (limit: without types, an integer argument to get / remove on a list is an index; integer-keyed maps are not modelled)
pub fn case_limit_int_keyed_map() -> Vec<Option<i64>> {
    let mut m: BTreeMap<i64, i64> = BTreeMap::new();
    vec![m.insert(1, 10), m.insert(1, 11), m.get(&1).copied(), m.remove(&1), m.remove(&1)]
}
pub fn case_map_entry_sorted_view() -> Vec<(String, i64)> {
    let mut m: BTreeMap<String, i64> = BTreeMap::new();
    *m.entry("a".to_string()).or_default() += 2;
    *m.entry("b".to_string()).or_insert(5) += 1;
    *m.entry("a".to_string()).or_insert_with(|| 100) += 1;
    m.into_iter().collect()
}
pub fn case_map_insert_returns_old_str() -> Vec<Option<i64>> {
    let mut m: BTreeMap<String, i64> = BTreeMap::new();
    vec![m.insert("k".into(), 10), m.insert("k".into(), 11), m.get("k").copied(), m.remove("k"), m.remove("k")]
}
pub fn case_retain_dedup() -> Vec<i64> {
    let mut v = vec![1, 1, 2, 3, 3, 3, 4, 1];
    v.dedup();
    v.retain(|x| *x != 4);
    v
}
pub fn case_sort_by_key_reverse() -> Vec<(i64, i64)> {
    let mut v = vec![(1, 1), (3, 2), (2, 3), (3, 4), (1, 5)];
    v.sort_by(|a, b| a.0.cmp(&b.0).reverse());
    v
}
pub fn case_split_first_last() -> Vec<i64> {
    let v = vec![1, 2, 3];
    let (first, rest) = v.split_first().unwrap();
    let (last, init) = v.split_last().unwrap();
    vec![*first, rest.len() as i64, *last, init.len() as i64]
}
pub fn case_slice_patterns() -> Vec<i64> {
    fn f(v: &[i64]) -> i64 {
        match v {
            [] => 0,
            [one] => *one,
            [first, .., last] => first * 10 + last,
        }
    }
    vec![f(&[]), f(&[7]), f(&[1, 2]), f(&[1, 2, 3])]
}
pub fn case_str_ops() -> Vec<String> {
    let s = "  a.b:c_one ";
    let t = s.trim();
    let (l, r) = t.split_once(':').unwrap();
    let (base, suf) = r.rsplit_once('_').unwrap();
    vec![l.to_string(), base.to_string(), suf.to_string(), t.strip_suffix("one").unwrap_or(t).to_string(), t.trim_end_matches('e').to_string(),
         t.replace('_', "-"), t.to_uppercase(), format!("{}", t.starts_with("a.")), format!("{}", "é".len()), format!("{:?}", "aé".char_indices().collect::<Vec<_>>())]
}
pub fn case_str_eq_ignore_case() -> Vec<bool> {
    vec!["FR".eq_ignore_ascii_case("fr"), "fr-CA".eq_ignore_ascii_case("FR-ca"), "fr" == "FR", "é".eq_ignore_ascii_case("É")]
}
pub fn case_enum_match_guard() -> Vec<i64> {
    fn f(v: &V) -> i64 {
        match v {
            V::A(n) if *n > 10 => 2,
            V::A(_) => 1,
            V::B(s) if s.is_empty() => -1,
            V::B(_) | V::C => 0,
        }
    }
    vec![f(&V::A(11)), f(&V::A(3)), f(&V::B(String::new())), f(&V::B("x".into())), f(&V::C)]
}
pub fn case_mutate_through_iter_mut_map() -> Vec<i64> {
    let mut v = vec![1, 2, 3];
    let doubled: Vec<i64> = v.iter_mut().map(|x| { *x += 1; *x * 2 }).collect();
    let mut out = v.clone();
    out.extend(doubled);
    out
}
pub fn case_option_as_deref_mut_map() -> Vec<i64> {
    fn bump(xs: &mut [i64]) -> i64 { for x in xs.iter_mut() { *x += 10; } xs.len() as i64 }
    let mut o: Option<Vec<i64>> = Some(vec![1, 2]);
    let n = o.as_deref_mut().map(bump).unwrap_or(0);
    let mut out = o.unwrap();
    out.push(n);
    out
}
pub fn case_labeled_loops() -> Vec<i64> {
    let mut out = Vec::new();
    'outer: for i in 0..4 {
        for j in 0..4 {
            if j == 2 { continue 'outer; }
            if i == 3 { break 'outer; }
            out.push(i * 10 + j);
        }
    }
    out
}
pub fn case_chunks_div_ceil() -> Vec<i64> {
    let v: Vec<i64> = (0..7).collect();
    let size = v.len().div_ceil(3);
    v.chunks(size).map(|c| c.len() as i64).collect()
}
pub fn case_checked_sub() -> Vec<Option<u64>> {
    vec![3u64.checked_sub(1), 0u64.checked_sub(1)]
}
pub fn case_zip_enumerate_rev() -> Vec<i64> {
    let a = vec![1, 2, 3];
    let b = vec![10, 20];
    let mut out: Vec<i64> = a.iter().zip(b.iter()).map(|(x, y)| x + y).collect();
    out.extend(a.iter().enumerate().map(|(i, x)| i as i64 * x));
    out.extend(a.iter().rev().copied());
    out.extend(a.iter().skip(1).take(1).copied());
    out
}
pub fn case_mem_take_replace() -> Vec<String> {
    let mut a = String::from("x");
    let b = std::mem::take(&mut a);
    let mut c = String::from("y");
    let d = std::mem::replace(&mut c, String::from("z"));
    vec![a, b, c, d]
}
pub fn case_unwrap_or_default_map_or() -> Vec<i64> {
    let a: Option<i64> = None;
    let b: Option<i64> = Some(4);
    vec![a.unwrap_or_default(), b.map_or(0, |x| x * 2), a.map_or(7, |x| x), b.filter(|x| *x > 5).unwrap_or(-1), a.or(b).unwrap_or(0), b.xor(a).unwrap_or(0)]
}
