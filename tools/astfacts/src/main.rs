//! astfacts: dump Rust source files as a generic JSON syntax tree (syn 2).
//!
//! usage: astfacts <out.json> <root> <file.rs>...
//!
//! Every node is an object with a kind `k` and a source `line`. Macro
//! invocations keep their token tree (with `#ident` / `#( .. )sep*`
//! interpolations of `quote!` recognised) and, when the tokens parse as a
//! comma separated expression list, the parsed `args`.
use proc_macro2::{Delimiter, Spacing, TokenStream, TokenTree};
use quote::ToTokens;
use serde_json::{json, Map, Value};
use syn::spanned::Spanned;
use syn::*;

fn ts<T: ToTokens>(t: &T) -> String {
    t.to_token_stream().to_string()
}

fn line<T: Spanned>(t: &T) -> usize {
    t.span().start().line
}

fn obj(k: &str, l: usize) -> Map<String, Value> {
    let mut m = Map::new();
    m.insert("k".into(), json!(k));
    m.insert("line".into(), json!(l));
    m
}

fn path_str(p: &Path) -> String {
    let mut s = String::new();
    if p.leading_colon.is_some() {
        s.push_str("::");
    }
    for (i, seg) in p.segments.iter().enumerate() {
        if i > 0 {
            s.push_str("::");
        }
        s.push_str(&seg.ident.to_string());
    }
    s
}

fn path_generics(p: &Path) -> Vec<Value> {
    let mut out = vec![];
    for seg in &p.segments {
        if let PathArguments::AngleBracketed(a) = &seg.arguments {
            for arg in &a.args {
                out.push(json!(ts(arg)));
            }
        }
    }
    out
}

fn tokens(stream: TokenStream) -> Value {
    let tts: Vec<TokenTree> = stream.into_iter().collect();
    let mut out = vec![];
    let mut i = 0;
    while i < tts.len() {
        match &tts[i] {
            TokenTree::Punct(p) if p.as_char() == '#' && i + 1 < tts.len() => {
                match &tts[i + 1] {
                    TokenTree::Ident(id) => {
                        out.push(json!({"t":"interp","v":id.to_string(),"line":id.span().start().line}));
                        i += 2;
                        continue;
                    }
                    TokenTree::Group(g) if g.delimiter() == Delimiter::Parenthesis => {
                        // repetition: #( ... ) sep? *
                        let mut j = i + 2;
                        let mut sep = String::new();
                        let mut ok = false;
                        while j < tts.len() && j <= i + 4 {
                            if let TokenTree::Punct(q) = &tts[j] {
                                if q.as_char() == '*' {
                                    ok = true;
                                    break;
                                }
                                sep.push(q.as_char());
                                j += 1;
                            } else {
                                break;
                            }
                        }
                        if ok {
                            out.push(json!({"t":"rep","c":tokens(g.stream()),"sep":sep,"line":g.span().start().line}));
                            i = j + 1;
                            continue;
                        }
                    }
                    _ => {}
                }
                out.push(json!({"t":"punct","v":"#"}));
                i += 1;
            }
            TokenTree::Punct(p) => {
                // glue joint puncts
                let mut s = String::new();
                s.push(p.as_char());
                let mut sp = p.spacing();
                let mut j = i + 1;
                while sp == Spacing::Joint && j < tts.len() {
                    if let TokenTree::Punct(q) = &tts[j] {
                        if q.as_char() == '#' {
                            break;
                        }
                        s.push(q.as_char());
                        sp = q.spacing();
                        j += 1;
                    } else {
                        break;
                    }
                }
                out.push(json!({"t":"punct","v":s}));
                i = j;
            }
            TokenTree::Ident(id) => {
                out.push(json!({"t":"ident","v":id.to_string(),"line":id.span().start().line}));
                i += 1;
            }
            TokenTree::Literal(l) => {
                out.push(json!({"t":"lit","v":l.to_string(),"line":l.span().start().line}));
                i += 1;
            }
            TokenTree::Group(g) => {
                let d = match g.delimiter() {
                    Delimiter::Parenthesis => "(",
                    Delimiter::Brace => "{",
                    Delimiter::Bracket => "[",
                    Delimiter::None => "",
                };
                out.push(json!({"t":"group","d":d,"c":tokens(g.stream()),"line":g.span().start().line}));
                i += 1;
            }
        }
    }
    Value::Array(out)
}

fn mac(m: &Macro) -> Value {
    let mut o = obj("Macro", line(m));
    o.insert("path".into(), json!(path_str(&m.path)));
    o.insert("tokens".into(), tokens(m.tokens.clone()));
    o.insert("text".into(), json!(m.tokens.to_string()));
    if m.path.is_ident("matches") {
        // matches!(scrutinee, pattern [if guard]) : also emitted in parsed form
        let parsed = parse::Parser::parse2(
            |input: parse::ParseStream| {
                let e: Expr = input.parse()?;
                input.parse::<Token![,]>()?;
                let p = Pat::parse_multi_with_leading_vert(input)?;
                let g = if input.peek(Token![if]) {
                    input.parse::<Token![if]>()?;
                    Some(input.parse::<Expr>()?)
                } else {
                    None
                };
                let _ = input.parse::<Option<Token![,]>>()?;
                Ok((e, p, g))
            },
            m.tokens.clone(),
        );
        if let Ok((e, p, g)) = parsed {
            o.insert("scrutinee".into(), expr(&e));
            o.insert("mpat".into(), pat(&p));
            if let Some(g) = g {
                o.insert("mguard".into(), expr(&g));
            }
        }
    }
    let parser = punctuated::Punctuated::<Expr, Token![,]>::parse_terminated;
    if let Ok(args) = parse::Parser::parse2(parser, m.tokens.clone()) {
        o.insert("args".into(), Value::Array(args.iter().map(expr).collect()));
    } else if let Ok((x, n)) = parse::Parser::parse2(
        |input: parse::ParseStream| {
            let x: Expr = input.parse()?;
            input.parse::<Token![;]>()?;
            let n: Expr = input.parse()?;
            Ok((x, n))
        },
        m.tokens.clone(),
    ) {
        // vec![x; n]
        o.insert("repeat".into(), Value::Array(vec![expr(&x), expr(&n)]));
    } else if let Ok(b) = parse::Parser::parse2(Block::parse_within, m.tokens.clone()) {
        // e.g. macro bodies that are statement lists
        if !b.is_empty() {
            o.insert("stmts".into(), Value::Array(b.iter().map(stmt).collect()));
        }
    }
    Value::Object(o)
}

fn strip_dollar(stream: TokenStream) -> TokenStream {
    let mut out = TokenStream::new();
    let mut it = stream.into_iter().peekable();
    while let Some(tt) = it.next() {
        match tt {
            TokenTree::Punct(ref p) if p.as_char() == '$' => {
                if let Some(TokenTree::Ident(_)) = it.peek() {
                    continue; // `$name` -> `name`
                }
                out.extend(std::iter::once(tt));
            }
            TokenTree::Group(g) => {
                let mut ng = proc_macro2::Group::new(g.delimiter(), strip_dollar(g.stream()));
                ng.set_span(g.span());
                out.extend(std::iter::once(TokenTree::Group(ng)));
            }
            other => out.extend(std::iter::once(other)),
        }
    }
    out
}

/// `( $a:expr, $b:ident ) => { body } [;]` -> (["a","b"], body as a block)
fn single_rule(stream: TokenStream) -> Option<(Vec<String>, Value)> {
    let tts: Vec<TokenTree> = stream.into_iter().collect();
    let mut n = tts.len();
    if n > 0 {
        if let TokenTree::Punct(p) = &tts[n - 1] {
            if p.as_char() == ';' {
                n -= 1;
            }
        }
    }
    if n != 4 {
        return None;
    }
    let (pat_g, body_g) = match (&tts[0], &tts[1], &tts[2], &tts[3]) {
        (TokenTree::Group(a), TokenTree::Punct(e), TokenTree::Punct(gt), TokenTree::Group(b))
            if e.as_char() == '=' && gt.as_char() == '>' =>
        {
            (a, b)
        }
        _ => return None,
    };
    let pts: Vec<TokenTree> = pat_g.stream().into_iter().collect();
    let mut params = vec![];
    let mut i = 0;
    while i < pts.len() {
        match (&pts.get(i), &pts.get(i + 1), &pts.get(i + 2), &pts.get(i + 3)) {
            (Some(TokenTree::Punct(d)), Some(TokenTree::Ident(name)), Some(TokenTree::Punct(c)), Some(TokenTree::Ident(_)))
                if d.as_char() == '$' && c.as_char() == ':' =>
            {
                params.push(name.to_string());
                i += 4;
            }
            _ => return None,
        }
        if i < pts.len() {
            match &pts[i] {
                TokenTree::Punct(c) if c.as_char() == ',' => i += 1,
                _ => return None,
            }
        }
    }
    let inner = strip_dollar(body_g.stream());
    let stmts = parse::Parser::parse2(Block::parse_within, inner).ok()?;
    let mut o = obj("Block", body_g.span().start().line);
    o.insert("stmts".into(), Value::Array(stmts.iter().map(stmt).collect()));
    Some((params, Value::Object(o)))
}

fn attrs(a: &[Attribute]) -> Value {
    Value::Array(
        a.iter()
            .filter(|a| !a.path().is_ident("doc"))
            .map(|a| json!(ts(&a.meta)))
            .collect(),
    )
}

fn docs(a: &[Attribute]) -> Value {
    let mut s = String::new();
    for at in a {
        if at.path().is_ident("doc") {
            if let Meta::NameValue(nv) = &at.meta {
                if let Expr::Lit(ExprLit { lit: Lit::Str(l), .. }) = &nv.value {
                    s.push_str(&l.value());
                    s.push('\n');
                }
            }
        }
    }
    json!(s)
}

fn vis(v: &Visibility) -> Value {
    match v {
        Visibility::Public(_) => json!("pub"),
        Visibility::Restricted(r) => json!(format!("pub({})", path_str(&r.path))),
        Visibility::Inherited => json!(""),
    }
}

fn pat(p: &Pat) -> Value {
    let l = line(p);
    match p {
        Pat::Ident(i) => {
            let mut o = obj("PIdent", l);
            o.insert("name".into(), json!(i.ident.to_string()));
            o.insert("by_ref".into(), json!(i.by_ref.is_some()));
            o.insert("mut".into(), json!(i.mutability.is_some()));
            if let Some((_, sub)) = &i.subpat {
                o.insert("sub".into(), pat(sub));
            }
            Value::Object(o)
        }
        Pat::Tuple(t) => {
            let mut o = obj("PTuple", l);
            o.insert("elems".into(), Value::Array(t.elems.iter().map(pat).collect()));
            Value::Object(o)
        }
        Pat::TupleStruct(t) => {
            let mut o = obj("PTupleStruct", l);
            o.insert("path".into(), json!(path_str(&t.path)));
            o.insert("elems".into(), Value::Array(t.elems.iter().map(pat).collect()));
            Value::Object(o)
        }
        Pat::Struct(s) => {
            let mut o = obj("PStruct", l);
            o.insert("path".into(), json!(path_str(&s.path)));
            o.insert(
                "fields".into(),
                Value::Array(
                    s.fields
                        .iter()
                        .map(|f| json!({"member": ts(&f.member), "pat": pat(&f.pat)}))
                        .collect(),
                ),
            );
            o.insert("rest".into(), json!(s.rest.is_some()));
            Value::Object(o)
        }
        Pat::Or(or) => {
            let mut o = obj("POr", l);
            o.insert("cases".into(), Value::Array(or.cases.iter().map(pat).collect()));
            Value::Object(o)
        }
        Pat::Wild(_) => Value::Object(obj("PWild", l)),
        Pat::Rest(_) => Value::Object(obj("PRest", l)),
        Pat::Lit(lit) => {
            let mut o = obj("PLit", l);
            o.insert("text".into(), json!(ts(lit)));
            Value::Object(o)
        }
        Pat::Range(r) => {
            let mut o = obj("PRange", l);
            o.insert("text".into(), json!(ts(r)));
            o.insert("start".into(), r.start.as_ref().map(|e| expr(e)).unwrap_or(Value::Null));
            o.insert("end".into(), r.end.as_ref().map(|e| expr(e)).unwrap_or(Value::Null));
            o.insert(
                "inclusive".into(),
                json!(matches!(r.limits, RangeLimits::Closed(_))),
            );
            Value::Object(o)
        }
        Pat::Reference(r) => {
            let mut o = obj("PRef", l);
            o.insert("pat".into(), pat(&r.pat));
            Value::Object(o)
        }
        Pat::Slice(s) => {
            let mut o = obj("PSlice", l);
            o.insert("elems".into(), Value::Array(s.elems.iter().map(pat).collect()));
            Value::Object(o)
        }
        Pat::Path(pp) => {
            let mut o = obj("PPath", l);
            o.insert("path".into(), json!(path_str(&pp.path)));
            Value::Object(o)
        }
        Pat::Type(t) => {
            let mut o = obj("PType", l);
            o.insert("pat".into(), pat(&t.pat));
            o.insert("ty".into(), json!(ts(&t.ty)));
            Value::Object(o)
        }
        Pat::Paren(p) => pat(&p.pat),
        Pat::Macro(m) => mac(&m.mac),
        Pat::Const(c) => {
            let mut o = obj("PConst", l);
            o.insert("text".into(), json!(ts(c)));
            Value::Object(o)
        }
        other => {
            let mut o = obj("POther", l);
            o.insert("text".into(), json!(ts(other)));
            Value::Object(o)
        }
    }
}

fn block(b: &Block) -> Value {
    let mut o = obj("Block", line(b));
    o.insert("stmts".into(), Value::Array(b.stmts.iter().map(stmt).collect()));
    Value::Object(o)
}

fn stmt(s: &Stmt) -> Value {
    match s {
        Stmt::Local(l) => {
            let mut o = obj("Let", line(l));
            o.insert("pat".into(), pat(&l.pat));
            if let Some(init) = &l.init {
                o.insert("init".into(), expr(&init.expr));
                if let Some((_, e)) = &init.diverge {
                    o.insert("else".into(), expr(e));
                }
            }
            Value::Object(o)
        }
        Stmt::Item(i) => item(i),
        Stmt::Expr(e, semi) => {
            let mut o = obj("ExprStmt", line(e));
            o.insert("expr".into(), expr(e));
            o.insert("semi".into(), json!(semi.is_some()));
            Value::Object(o)
        }
        Stmt::Macro(m) => {
            let mut o = obj("ExprStmt", line(m));
            o.insert("expr".into(), mac(&m.mac));
            o.insert("semi".into(), json!(m.semi_token.is_some()));
            Value::Object(o)
        }
    }
}

fn opt_expr(e: &Option<Box<Expr>>) -> Value {
    e.as_ref().map(|e| expr(e)).unwrap_or(Value::Null)
}

fn expr(e: &Expr) -> Value {
    let l = line(e);
    let mut o;
    match e {
        Expr::MethodCall(m) => {
            o = obj("MethodCall", l);
            o.insert("receiver".into(), expr(&m.receiver));
            o.insert("method".into(), json!(m.method.to_string()));
            o.insert(
                "turbofish".into(),
                json!(m.turbofish.as_ref().map(|t| ts(t)).unwrap_or_default()),
            );
            o.insert("args".into(), Value::Array(m.args.iter().map(expr).collect()));
        }
        Expr::Call(c) => {
            o = obj("Call", l);
            o.insert("func".into(), expr(&c.func));
            o.insert("args".into(), Value::Array(c.args.iter().map(expr).collect()));
        }
        Expr::Path(p) => {
            o = obj("Path", l);
            o.insert("path".into(), json!(path_str(&p.path)));
            let g = path_generics(&p.path);
            if !g.is_empty() {
                o.insert("generics".into(), Value::Array(g));
            }
            if let Some(q) = &p.qself {
                o.insert("qself".into(), json!(ts(&q.ty)));
            }
        }
        Expr::Match(m) => {
            o = obj("Match", l);
            o.insert("scrutinee".into(), expr(&m.expr));
            o.insert(
                "arms".into(),
                Value::Array(
                    m.arms
                        .iter()
                        .map(|a| {
                            let mut ao = obj("Arm", line(a));
                            ao.insert("pat".into(), pat(&a.pat));
                            ao.insert(
                                "guard".into(),
                                a.guard.as_ref().map(|(_, g)| expr(g)).unwrap_or(Value::Null),
                            );
                            ao.insert("body".into(), expr(&a.body));
                            Value::Object(ao)
                        })
                        .collect(),
                ),
            );
        }
        Expr::Closure(c) => {
            o = obj("Closure", l);
            o.insert("inputs".into(), Value::Array(c.inputs.iter().map(pat).collect()));
            o.insert("body".into(), expr(&c.body));
            o.insert("move".into(), json!(c.capture.is_some()));
        }
        Expr::Let(le) => {
            o = obj("LetExpr", l);
            o.insert("pat".into(), pat(&le.pat));
            o.insert("expr".into(), expr(&le.expr));
        }
        Expr::If(i) => {
            o = obj("If", l);
            o.insert("cond".into(), expr(&i.cond));
            o.insert("then".into(), block(&i.then_branch));
            o.insert(
                "else".into(),
                i.else_branch.as_ref().map(|(_, e)| expr(e)).unwrap_or(Value::Null),
            );
        }
        Expr::ForLoop(f) => {
            o = obj("ForLoop", l);
            if let Some(lb) = &f.label {
                o.insert("label".into(), json!(lb.name.ident.to_string()));
            }
            o.insert("pat".into(), pat(&f.pat));
            o.insert("iter".into(), expr(&f.expr));
            o.insert("body".into(), block(&f.body));
        }
        Expr::While(w) => {
            o = obj("While", l);
            if let Some(lb) = &w.label {
                o.insert("label".into(), json!(lb.name.ident.to_string()));
            }
            o.insert("cond".into(), expr(&w.cond));
            o.insert("body".into(), block(&w.body));
        }
        Expr::Loop(lp) => {
            o = obj("Loop", l);
            if let Some(lb) = &lp.label {
                o.insert("label".into(), json!(lb.name.ident.to_string()));
            }
            o.insert("body".into(), block(&lp.body));
        }
        Expr::Block(b) => {
            let mut v = block(&b.block);
            if let (Some(lb), Value::Object(m)) = (&b.label, &mut v) {
                m.insert("label".into(), json!(lb.name.ident.to_string()));
            }
            return v;
        }
        Expr::Unsafe(b) => {
            o = obj("Unsafe", l);
            o.insert("body".into(), block(&b.block));
        }
        Expr::Const(b) => {
            o = obj("ConstBlock", l);
            o.insert("body".into(), block(&b.block));
        }
        Expr::Async(b) => {
            o = obj("Async", l);
            o.insert("body".into(), block(&b.block));
        }
        Expr::Index(i) => {
            o = obj("Index", l);
            o.insert("expr".into(), expr(&i.expr));
            o.insert("index".into(), expr(&i.index));
        }
        Expr::Range(r) => {
            o = obj("Range", l);
            o.insert("start".into(), opt_expr(&r.start));
            o.insert("end".into(), opt_expr(&r.end));
            o.insert(
                "inclusive".into(),
                json!(matches!(r.limits, RangeLimits::Closed(_))),
            );
        }
        Expr::Binary(b) => {
            o = obj("Binary", l);
            o.insert("op".into(), json!(ts(&b.op)));
            o.insert("left".into(), expr(&b.left));
            o.insert("right".into(), expr(&b.right));
        }
        Expr::Unary(u) => {
            o = obj("Unary", l);
            o.insert("op".into(), json!(ts(&u.op)));
            o.insert("expr".into(), expr(&u.expr));
        }
        Expr::Reference(r) => {
            o = obj("Ref", l);
            o.insert("mut".into(), json!(r.mutability.is_some()));
            o.insert("expr".into(), expr(&r.expr));
        }
        Expr::Field(f) => {
            o = obj("Field", l);
            o.insert("base".into(), expr(&f.base));
            o.insert("member".into(), json!(ts(&f.member)));
        }
        Expr::Struct(s) => {
            o = obj("Struct", l);
            o.insert("path".into(), json!(path_str(&s.path)));
            o.insert(
                "fields".into(),
                Value::Array(
                    s.fields
                        .iter()
                        .map(|f| json!({"member": ts(&f.member), "expr": expr(&f.expr), "shorthand": f.colon_token.is_none()}))
                        .collect(),
                ),
            );
            o.insert("rest".into(), opt_expr(&s.rest));
        }
        Expr::Tuple(t) => {
            o = obj("Tuple", l);
            o.insert("elems".into(), Value::Array(t.elems.iter().map(expr).collect()));
        }
        Expr::Array(a) => {
            o = obj("Array", l);
            o.insert("elems".into(), Value::Array(a.elems.iter().map(expr).collect()));
        }
        Expr::Repeat(r) => {
            o = obj("Repeat", l);
            o.insert("expr".into(), expr(&r.expr));
            o.insert("len".into(), expr(&r.len));
        }
        Expr::Return(r) => {
            o = obj("Return", l);
            o.insert("expr".into(), opt_expr(&r.expr));
        }
        Expr::Break(b) => {
            o = obj("Break", l);
            if let Some(lb) = &b.label {
                o.insert("label".into(), json!(lb.ident.to_string()));
            }
            o.insert("expr".into(), opt_expr(&b.expr));
        }
        Expr::Continue(c) => {
            o = obj("Continue", l);
            if let Some(lb) = &c.label {
                o.insert("label".into(), json!(lb.ident.to_string()));
            }
        }
        Expr::Try(t) => {
            o = obj("Try", l);
            o.insert("expr".into(), expr(&t.expr));
        }
        Expr::Await(t) => {
            o = obj("Await", l);
            o.insert("expr".into(), expr(&t.base));
        }
        Expr::Macro(m) => {
            return mac(&m.mac);
        }
        Expr::Lit(lit) => {
            o = obj("Lit", l);
            o.insert("text".into(), json!(ts(&lit.lit)));
            match &lit.lit {
                Lit::Str(s) => {
                    o.insert("str".into(), json!(s.value()));
                }
                Lit::Int(i) => {
                    o.insert("int".into(), json!(i.base10_digits()));
                }
                Lit::Bool(b) => {
                    o.insert("bool".into(), json!(b.value));
                }
                Lit::Char(c) => {
                    o.insert("char".into(), json!(c.value().to_string()));
                }
                _ => {}
            }
        }
        Expr::Assign(a) => {
            o = obj("Assign", l);
            o.insert("left".into(), expr(&a.left));
            o.insert("right".into(), expr(&a.right));
        }
        Expr::Cast(c) => {
            o = obj("Cast", l);
            o.insert("expr".into(), expr(&c.expr));
            o.insert("ty".into(), json!(ts(&c.ty)));
        }
        Expr::Paren(p) => {
            return expr(&p.expr);
        }
        Expr::Group(p) => {
            return expr(&p.expr);
        }
        other => {
            o = obj("Other", l);
            o.insert("text".into(), json!(ts(other)));
        }
    }
    Value::Object(o)
}

fn fields(f: &Fields) -> Value {
    Value::Array(
        f.iter()
            .enumerate()
            .map(|(i, f)| {
                json!({
                    "name": f.ident.as_ref().map(|i| i.to_string()).unwrap_or_else(|| i.to_string()),
                    "ty": ts(&f.ty),
                    "attrs": attrs(&f.attrs),
                    "vis": vis(&f.vis),
                    "line": line(f),
                })
            })
            .collect(),
    )
}

fn sig(s: &Signature) -> Value {
    json!({
        "name": s.ident.to_string(),
        "generics": ts(&s.generics),
        "where": s.generics.where_clause.as_ref().map(|w| ts(w)).unwrap_or_default(),
        "inputs": s.inputs.iter().map(|a| match a {
            FnArg::Receiver(r) => json!({"pat": {"k":"PIdent","name":"self","line":line(r)}, "ty": ts(r)}),
            FnArg::Typed(t) => json!({"pat": pat(&t.pat), "ty": ts(&t.ty)}),
        }).collect::<Vec<_>>(),
        "output": match &s.output { ReturnType::Default => String::new(), ReturnType::Type(_, t) => ts(t) },
        "const": s.constness.is_some(),
        "async": s.asyncness.is_some(),
    })
}

fn item(i: &Item) -> Value {
    let l = line(i);
    let mut o;
    match i {
        Item::Fn(f) => {
            o = obj("Fn", l);
            o.insert("name".into(), json!(f.sig.ident.to_string()));
            o.insert("vis".into(), vis(&f.vis));
            o.insert("attrs".into(), attrs(&f.attrs));
            o.insert("docs".into(), docs(&f.attrs));
            o.insert("sig".into(), sig(&f.sig));
            o.insert("body".into(), block(&f.block));
        }
        Item::Impl(im) => {
            o = obj("Impl", l);
            o.insert("self_ty".into(), json!(ts(&im.self_ty)));
            o.insert(
                "trait".into(),
                im.trait_.as_ref().map(|(_, p, _)| json!(ts(p))).unwrap_or(Value::Null),
            );
            o.insert(
                "trait_path".into(),
                im.trait_.as_ref().map(|(_, p, _)| json!(path_str(p))).unwrap_or(Value::Null),
            );
            o.insert("generics".into(), json!(ts(&im.generics)));
            o.insert("attrs".into(), attrs(&im.attrs));
            o.insert(
                "items".into(),
                Value::Array(
                    im.items
                        .iter()
                        .map(|ii| match ii {
                            ImplItem::Fn(f) => {
                                let mut fo = obj("Fn", line(f));
                                fo.insert("name".into(), json!(f.sig.ident.to_string()));
                                fo.insert("vis".into(), vis(&f.vis));
                                fo.insert("attrs".into(), attrs(&f.attrs));
                                fo.insert("docs".into(), docs(&f.attrs));
                                fo.insert("sig".into(), sig(&f.sig));
                                fo.insert("body".into(), block(&f.block));
                                Value::Object(fo)
                            }
                            ImplItem::Const(c) => {
                                let mut co = obj("Const", line(c));
                                co.insert("name".into(), json!(c.ident.to_string()));
                                co.insert("ty".into(), json!(ts(&c.ty)));
                                co.insert("expr".into(), expr(&c.expr));
                                co.insert("attrs".into(), attrs(&c.attrs));
                                Value::Object(co)
                            }
                            ImplItem::Type(t) => {
                                let mut to = obj("Type", line(t));
                                to.insert("name".into(), json!(t.ident.to_string()));
                                to.insert("ty".into(), json!(ts(&t.ty)));
                                Value::Object(to)
                            }
                            ImplItem::Macro(m) => mac(&m.mac),
                            other => {
                                let mut oo = obj("OtherItem", line(other));
                                oo.insert("text".into(), json!(ts(other)));
                                Value::Object(oo)
                            }
                        })
                        .collect(),
                ),
            );
        }
        Item::Trait(t) => {
            o = obj("Trait", l);
            o.insert("name".into(), json!(t.ident.to_string()));
            o.insert("attrs".into(), attrs(&t.attrs));
            o.insert("supertraits".into(), json!(ts(&t.supertraits)));
            o.insert(
                "items".into(),
                Value::Array(
                    t.items
                        .iter()
                        .map(|ti| match ti {
                            TraitItem::Fn(f) => {
                                let mut fo = obj("Fn", line(f));
                                fo.insert("name".into(), json!(f.sig.ident.to_string()));
                                fo.insert("attrs".into(), attrs(&f.attrs));
                                fo.insert("docs".into(), docs(&f.attrs));
                                fo.insert("sig".into(), sig(&f.sig));
                                fo.insert(
                                    "body".into(),
                                    f.default.as_ref().map(block).unwrap_or(Value::Null),
                                );
                                Value::Object(fo)
                            }
                            TraitItem::Const(c) => {
                                let mut co = obj("Const", line(c));
                                co.insert("name".into(), json!(c.ident.to_string()));
                                co.insert("ty".into(), json!(ts(&c.ty)));
                                co.insert("attrs".into(), attrs(&c.attrs));
                                co.insert(
                                    "expr".into(),
                                    c.default.as_ref().map(|(_, e)| expr(e)).unwrap_or(Value::Null),
                                );
                                Value::Object(co)
                            }
                            TraitItem::Type(t) => {
                                let mut to = obj("Type", line(t));
                                to.insert("name".into(), json!(t.ident.to_string()));
                                to.insert("bounds".into(), json!(ts(&t.bounds)));
                                Value::Object(to)
                            }
                            other => {
                                let mut oo = obj("OtherItem", line(other));
                                oo.insert("text".into(), json!(ts(other)));
                                Value::Object(oo)
                            }
                        })
                        .collect(),
                ),
            );
        }
        Item::Struct(s) => {
            o = obj("StructDef", l);
            o.insert("name".into(), json!(s.ident.to_string()));
            o.insert("vis".into(), vis(&s.vis));
            o.insert("attrs".into(), attrs(&s.attrs));
            o.insert("generics".into(), json!(ts(&s.generics)));
            o.insert("fields".into(), fields(&s.fields));
            o.insert("tuple".into(), json!(matches!(s.fields, Fields::Unnamed(_))));
        }
        Item::Enum(e) => {
            o = obj("EnumDef", l);
            o.insert("name".into(), json!(e.ident.to_string()));
            o.insert("vis".into(), vis(&e.vis));
            o.insert("attrs".into(), attrs(&e.attrs));
            o.insert("generics".into(), json!(ts(&e.generics)));
            o.insert(
                "variants".into(),
                Value::Array(
                    e.variants
                        .iter()
                        .map(|v| {
                            json!({
                                "name": v.ident.to_string(),
                                "attrs": attrs(&v.attrs),
                                "fields": fields(&v.fields),
                                "tuple": matches!(v.fields, Fields::Unnamed(_)),
                                "unit": matches!(v.fields, Fields::Unit),
                                "line": line(v),
                            })
                        })
                        .collect(),
                ),
            );
        }
        Item::Mod(m) => {
            o = obj("Mod", l);
            o.insert("name".into(), json!(m.ident.to_string()));
            o.insert("attrs".into(), attrs(&m.attrs));
            o.insert("vis".into(), vis(&m.vis));
            if let Some((_, items)) = &m.content {
                o.insert("items".into(), Value::Array(items.iter().map(item).collect()));
            }
        }
        Item::Const(c) => {
            o = obj("Const", l);
            o.insert("name".into(), json!(c.ident.to_string()));
            o.insert("ty".into(), json!(ts(&c.ty)));
            o.insert("expr".into(), expr(&c.expr));
            o.insert("attrs".into(), attrs(&c.attrs));
            o.insert("vis".into(), vis(&c.vis));
        }
        Item::Static(c) => {
            o = obj("Static", l);
            o.insert("name".into(), json!(c.ident.to_string()));
            o.insert("ty".into(), json!(ts(&c.ty)));
            o.insert("expr".into(), expr(&c.expr));
            o.insert("attrs".into(), attrs(&c.attrs));
            o.insert("mut".into(), json!(matches!(c.mutability, StaticMutability::Mut(_))));
        }
        Item::Macro(m) => {
            let mut mo = match mac(&m.mac) {
                Value::Object(mo) => mo,
                _ => unreachable!(),
            };
            mo.insert("k".into(), json!("ItemMacro"));
            mo.insert(
                "ident".into(),
                json!(m.ident.as_ref().map(|i| i.to_string()).unwrap_or_default()),
            );
            mo.insert("attrs".into(), attrs(&m.attrs));
            if m.mac.path.is_ident("macro_rules") {
                if let Some((params, body)) = single_rule(m.mac.tokens.clone()) {
                    // a one-rule macro whose parameters are plain `$x:frag`: the body parsed as a block with `$x` read as `x`
                    mo.insert("rule_params".into(), json!(params));
                    mo.insert("rule_body".into(), body);
                }
            }
            // try to parse the body as items (e.g. impl_from!{...} expands are not
            // visible, but invocation args are kept as tokens)
            o = mo;
        }
        Item::Use(u) => {
            o = obj("Use", l);
            o.insert("text".into(), json!(ts(&u.tree)));
            o.insert("attrs".into(), attrs(&u.attrs));
        }
        Item::Type(t) => {
            o = obj("TypeAlias", l);
            o.insert("name".into(), json!(t.ident.to_string()));
            o.insert("ty".into(), json!(ts(&t.ty)));
        }
        other => {
            o = obj("OtherItem", l);
            o.insert("text".into(), json!(ts(other)));
        }
    }
    Value::Object(o)
}

fn main() {
    let args: Vec<String> = std::env::args().collect();
    if args.len() < 4 {
        eprintln!("usage: astfacts <out.json> <root> <file.rs>...");
        std::process::exit(2);
    }
    let out = &args[1];
    let root = std::path::Path::new(&args[2]);
    let mut files = vec![];
    let mut errors = vec![];
    for f in &args[3..] {
        let p = std::path::Path::new(f);
        let rel = p.strip_prefix(root).unwrap_or(p).to_string_lossy().to_string();
        let src = match std::fs::read_to_string(p) {
            Ok(s) => s,
            Err(e) => {
                errors.push(json!({"file": rel, "error": e.to_string()}));
                continue;
            }
        };
        match syn::parse_file(&src) {
            Ok(file) => {
                files.push(json!({
                    "path": rel,
                    "attrs": attrs(&file.attrs),
                    "items": file.items.iter().map(item).collect::<Vec<_>>(),
                }));
            }
            Err(e) => {
                errors.push(json!({"file": rel, "error": e.to_string(), "line": e.span().start().line}));
            }
        }
    }
    let doc = json!({"files": files, "errors": errors});
    std::fs::write(out, serde_json::to_vec(&doc).unwrap()).unwrap();
    if !doc["errors"].as_array().unwrap().is_empty() {
        eprintln!("astfacts: {} file(s) failed to parse", doc["errors"].as_array().unwrap().len());
        std::process::exit(3);
    }
}
