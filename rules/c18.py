"""C18 Formatters apply the declared options for the locale being rendered."""
import re

from report import Rule
from mirlib import callee_name, callee_of, op_const, op_place
import mustlib as M
from astlib import find_all, find_first, show, show_pat, quotes_in, tok_text, tok_interps
from rules.common import flat, flatp, has, same, xquotes

EXPLANATION = (
    "Static analysis; nothing executed. Decided structural clauses: (R1) cache-key soundness, on MIR: in each of the 7 "
    "get_*_formatter/get_plural_rules getters every value the constructing closure captures (other than the cache itself) "
    "flows, uncomputed, into the key of the two-level `entry(locale)` / `entry(options)` lookup, so a cached formatter can "
    "only be returned for the locale and options it was built with. (R2) lock discipline, on MIR: the FORMATTERS static is "
    "reachable only through StaticLock::with_mut, which takes the write lock, recovers a poisoned guard and runs the whole "
    "lookup-or-insert under it; no closure run under the lock can reach with_mut again. (R3) option tables: parser "
    "argument tables, `#[default]` variants, the book's bullet lists, the macro-side enums / From / ToTokens mappings and "
    "the run-time option conversions agree value by value; names, argument names and values are trimmed; omitted or "
    "unrecognised arguments fall back to Default. (R4) the three run-time entry points of every formatter family (and the "
    "three code generators) hand their own locale and option parameters, unchanged and in order, to the family's getter. "
    "(R5) every option value the parser accepts is one the ICU4X constructor that the getter `.expect`s can build. "
    "NOT decided / not applicable: that ICU4X's output for a value is the right text (numerical/textual results), and "
    "actual thread interleavings (the argument is structural: one write lock around lookup+insert)."
)
ASSUMPTIONS = [
    "std RwLock/OnceLock/HashMap::entry have their documented semantics",
    "ICU4X 1.5 constructors: TimeFormatter::try_new_with_length and DateTimeFormatter::try_new reject length::Time::{Full,Long} (time-zone field) - confirmed by findings/d20_time_length_probe.rs",
    "Locale::as_icu_locale returns a distinct static icu Locale per declared locale (generated code, see C12/C13)",
]

PF = "leptos_i18n_parser/src/utils/formatter.rs"
PV = "leptos_i18n_parser/src/parse_locales/parsed_value.rs"
MF = "leptos_i18n_macro/src/utils/formatter.rs"
TF = "leptos_i18n_macro/src/t_format/parsed_input.rs"
RT = "leptos_i18n/src/macro_helpers/formatting/"
BOOK = "docs/book/src/declare/08_formatters.md"
FMOD = "leptos_i18n::macro_helpers::formatting::"

GETTERS = {
    "get_currency_formatter": ("currency", ["locale", "width"]),
    "get_num_formatter": ("num", ["locale", "grouping_strategy"]),
    "get_date_formatter": ("date", ["locale", "length"]),
    "get_time_formatter": ("time", ["locale", "length"]),
    "get_datetime_formatter": ("datetime", ["locale", "date_length", "time_length"]),
    "get_list_formatter": ("list", ["locale", "list_type", "length"]),
    "get_plural_rules": ("plural_rule", ["locale", "plural_rule_type"]),
}
# conversions allowed between a parameter and the key built from it: each is an injection (table-checked in R3 when local)
INJECTIVE = [
    (r"Locale::as_icu_locale$", "locale -> its static icu Locale"),
    (r"<.*as std::convert::Into<.*>>::into$|std::convert::Into::into$", "From/Into conversion of an option enum (identity table checked in R3)"),
    (r"currency::Width as std::convert::From<.*>>::from$", "CurrencyWidth -> hashable Width (identity table checked in R3)"),
]


# --------------------------------------------------------------------------------------------- R1

def _sources(body, cap_src, extra=None):
    """flow-insensitive provenance: local -> set of source names. cap_src: capture index -> name (closure bodies) or
    param local -> name. Also records, per local, whether a computation other than copy/ref/tuple/allowed call touched it."""
    src = {}
    computed = {}
    if extra:
        for l, n in extra.items():
            src[l] = {n}

    def place_src(p):
        if p is None:
            return set(), None
        l = p["l"]
        if l == 1 and cap_src is not None and p["p"] and p["p"][0].startswith("."):
            k = int(p["p"][0][1:])
            if k in cap_src:
                return {cap_src[k]}, None
        return set(src.get(l, ())), computed.get(l)

    changed = True
    while changed:
        changed = False
        for i, j, s in body.assigns():
            dst = s["place"]["l"]
            rv = s["rv"]
            ns = set()
            comp = None
            places = []
            if "place" in rv:
                places.append(rv["place"])
            for op in rv.get("ops", []):
                p = op_place(op)
                if p:
                    places.append(p)
            for p in places:
                a, c = place_src(p)
                ns |= a
                comp = comp or c
                if a and any(e.startswith(".") for e in p["p"]) and not (p["l"] == 1 and cap_src is not None):
                    comp = comp or ("only a field of the value is used, line %s" % s.get("line"))
            k = rv["k"]
            if k not in ("Use", "Ref", "Aggregate", "CopyForDeref", "Discriminant") or (k == "Aggregate" and rv.get("agg") not in ("Tuple", "Closure")):
                if ns:
                    comp = comp or ("%s at line %s" % (k if k != "BinaryOp" else "BinaryOp " + str(rv.get("op")), s.get("line")))
            if ns - src.get(dst, set()) or (comp and not computed.get(dst)):
                src.setdefault(dst, set()).update(ns)
                if comp:
                    computed[dst] = comp
                changed = True
        for i, t in body.calls():
            dst = t["dest"]["l"]
            ns = set()
            comp = None
            for a in t["args"]:
                a2, c = place_src(op_place(a))
                ns |= a2
                comp = comp or c
            n = callee_name(t) or "<indirect>"
            if ns and not any(re.search(rx, n) for rx, _ in INJECTIVE) and not re.search(r"HashMap.*::entry$|Entry.*::or_default$|Entry.*::or_insert_with$", n):
                comp = comp or ("call to %s" % n)
            if ns - src.get(dst, set()) or (comp and not computed.get(dst)):
                src.setdefault(dst, set()).update(ns)
                if comp:
                    computed[dst] = comp
                changed = True
    return src, computed, place_src


_KEYOP = re.compile(r"HashMap<.*>::(entry|get|get_mut|insert|contains_key|remove|get_or_insert_with)$|HashMap::<K, V, S, A?>::(entry|get|get_mut|insert|contains_key|remove)$|HashMap::<K, V, S>::(entry|get|get_mut|insert|contains_key|remove)$")


def _general_cache(prog, b0, cap0, params):
    """("ok", description, (constructor body, capture labels)) | ("bad", key, message) | ("unknown",)"""
    work = [(b0, cap0, {2: "<cache>"})]
    ops = []
    ctor = None
    seen = set()
    while work:
        bb, cap, extra = work.pop()
        if bb.name in seen:
            continue
        seen.add(bb.name)
        _src, _comp, place = _sources(bb, cap, extra)

        def names(pl):
            s_, c_ = place(pl)
            out = set()
            for x in s_:
                out |= set(x.split("+"))
            return out, c_
        for _i, _j, st in bb.assigns():
            if st["rv"]["k"] == "Aggregate" and st["rv"].get("agg") == "Closure":
                nb = prog.bodies.get(st["rv"]["def"])
                if nb is None:
                    return ("unknown",)
                capn = {}
                for k_, op in enumerate(st["rv"]["ops"]):
                    nm_, _c = names(op_place(op))
                    if nm_:
                        capn[k_] = "+".join(sorted(nm_))
                work.append((nb, capn, None))
        for i_, t_ in bb.calls():
            n_ = callee_name(t_) or ""
            if _KEYOP.search(n_) and len(t_["args"]) >= 2:
                ks, kc = names(op_place(t_["args"][1]))
                ops.append((ks - {"<cache>"}, kc, n_.split("::")[-1], t_.get("line")))
            elif re.search(r"::try_new_\w+$|::new_formatter$", n_):
                ctor = (bb, [cap.get(k_, "?") if cap else "?" for k_ in range(0, (max(cap) + 1) if cap else 0)])
    if not ops or ctor is None:
        return ("unknown",)
    opts = set(params) - {"locale"}
    for ks, kc, what, ln in ops:
        if kc:
            return ("bad", "computed-key", "the cache key of `%s` (line %s) is computed (%s) rather than being the locale/options themselves: distinct options can share a slot" % (what, ln, kc))
        if not ks or not ks <= set(params):
            return ("bad", "shape", "`%s` (line %s) on the cache takes a key that is not made of the getter's parameters (%s)" % (what, ln, sorted(ks)))
    outer = [o for o in ops if o[0] == {"locale"}]
    inner = [o for o in ops if o[0] != {"locale"}]
    if outer:
        bad_ = [o for o in inner if o[0] != opts]
        if not inner or bad_:
            o = (bad_ or [(set(), None, "?", None)])[0]
            return ("bad", "unkeyed:" + ",".join(sorted(opts - o[0])), "parameter(s) %s are used to build the formatter but are not part of the cache key (`%s`, line %s, is keyed by %s)" % (sorted(opts - o[0]), o[2], o[3], sorted(o[0])))
    else:
        bad_ = [o for o in inner if o[0] != set(params)]
        if bad_:
            return ("bad", "unkeyed:" + ",".join(sorted(set(params) - bad_[0][0])), "`%s` (line %s) is keyed by %s, not by the locale and every option" % (bad_[0][2], bad_[0][3], sorted(bad_[0][0])))
    return ("ok", "%d keyed map operation(s): %s" % (len(ops), ", ".join("%s[%s]" % (o[2], "+".join(sorted(o[0]))) for o in ops)), ctor)


CTOR = {}   # id(prog) -> getter -> (MIR body of the constructing closure, [what each captured variable is: parameter name(s) / <cache>])


def _closure_arg(body, call_block, argi):
    """(def path, [capture operands]) of the closure aggregate passed as argument argi of the call"""
    t = body.blocks[call_block]["term"]
    p = op_place(t["args"][argi])
    if not p:
        return None
    for (bi, j, s) in body.defs().get(p["l"], []):
        if j != "term" and s["rv"]["k"] == "Aggregate" and s["rv"].get("agg") == "Closure":
            return s["rv"]["def"], s["rv"]["ops"]
    return None


def r1_cache_key(ctx, prog):
    r = Rule("C18.R1", "a cached formatter is keyed by everything it was built from",
             "`select the documented formatter and options ... for the locale being rendered` and `does not depend on which "
             "formatters ran before`: if the constructing closure uses a value that is not part of the (locale, options) key - or "
             "the key is a lossy computation of it - the first caller's formatter is returned to later callers with other options",
             floor=7)
    for g, (field, params) in sorted(GETTERS.items()):
        b = prog.body(FMOD + g)
        if b is None:
            r.missing(g)
            continue
        names = [b.local_name(i) for i in range(1, b.arg_count + 1)]
        if names != params:
            r.viol("R1:%s#params" % g, "parameters are %s, confirmed table has %s" % (names, params), file=b.file, line=b.line)
            continue
        wm = M.call_blocks(b, r"StaticLock::<T>::with_mut$")
        if len(wm) != 1:
            r.viol("R1:%s#with_mut" % g, "expected exactly one with_mut call, found %d" % len(wm), file=b.file, line=b.line)
            continue
        c0 = _closure_arg(b, wm[0], 1)
        if c0 is None:
            r.viol("R1:%s#closure" % g, "with_mut is not given a closure literal", file=b.file, line=b.line)
            continue
        # captures of closure#0 -> parameter names
        psrc, _, pplace = _sources(b, None, {i: names[i - 1] for i in range(1, b.arg_count + 1)})
        cap0 = {}
        for k, op in enumerate(c0[1]):
            s, _c = pplace(op_place(op))
            if len(s) == 1:
                cap0[k] = next(iter(s))
        b0 = prog.bodies.get(c0[0])
        if b0 is None:
            r.missing(c0[0])
            continue
        src0, comp0, place0 = _sources(b0, cap0, {2: "<cache>"})
        entries = M.call_blocks(b0, r"HashMap::<K, V, S, A>::entry$|HashMap<.*>::entry$")
        oi = M.call_blocks(b0, r"Entry::<'a, K, V, A>::or_insert_with$|Entry.*::or_insert_with$")
        vins = M.call_blocks(b0, r"VacantEntry::<'a, K, V, A>::insert$|VacantEntry.*::insert$|VacantEntry.*::insert_entry$")
        if len(entries) == 2 and not oi and vins:
            # `match map.entry(k) { Occupied(e) => .., Vacant(e) => e.insert(<constructor>) }`: same cache, written with a match. The
            # constructor is inline: everything this closure reads besides the cache must be part of the two keys
            if b0.dominates(entries[1], entries[0]):
                entries = [entries[1], entries[0]]
            keys, badk = [], None
            for e_ in entries:
                ks, kc = place0(op_place(b0.blocks[e_]["term"]["args"][1]))
                keys.append(ks - {"<cache>"})
                badk = badk or kc
            used = set()
            for i_, t_ in b0.calls():
                if i_ in entries:
                    continue
                for a_ in t_["args"]:
                    pl_ = op_place(a_)
                    if pl_:
                        used |= place0(pl_)[0]
            used.discard("<cache>")
            key_all = keys[0] | keys[1]
            if badk:
                r.viol("R1:%s#computed-key" % g, "the cache key is computed (%s) rather than being the locale/options themselves: distinct options can share a slot" % badk, file=b0.file, line=b0.line)
            elif keys[0] != {"locale"}:
                r.viol("R1:%s#locale-key" % g, "the outer map is keyed by %s, not by the locale" % sorted(keys[0]), file=b0.file, line=b0.line)
            elif (used & set(params)) - key_all or set(params) - key_all:
                r.viol("R1:%s#unkeyed:%s" % (g, ",".join(sorted(((used & set(params)) | set(params)) - key_all))), "parameter(s) %s are used to build the formatter but are not part of the cache key" % sorted(((used & set(params)) | set(params)) - key_all), file=b0.file, line=b0.line)
            else:
                CTOR.setdefault(id(prog), {})[g] = (b0, [cap0.get(k_, "?") for k_ in range((max(cap0) + 1) if cap0 else 0)])
                r.inst(g, "key = (locale, %s); entry matched by hand (Occupied / Vacant), constructor inline" % ", ".join(sorted(keys[1])))
            continue
        if len(entries) != 2 or len(oi) != 1 or _closure_arg(b0, oi[0], 1) is None:
            # any other way of writing the cache (lookup / early return / insert, a named constructor closure ..): every map operation that
            # takes a key, in this closure and the closures it builds, is keyed by the locale alone (outer level) or by all the option
            # parameters (inner level), uncomputed - so no parameter the formatter is built from is left out of the key
            verdict = _general_cache(prog, b0, cap0, params)
            if verdict[0] == "ok":
                CTOR.setdefault(id(prog), {})[g] = verdict[2]
                r.inst(g, "key = (locale, %s); cache written by hand: %s" % (", ".join(p_ for p_ in params if p_ != "locale"), verdict[1]))
                continue
            if verdict[0] == "bad":
                r.viol("R1:%s#%s" % (g, verdict[1]), verdict[2], file=b0.file, line=b0.line)
                continue
            r.viol("R1:%s#shape" % g, "expected entry(locale).or_default().entry(options).or_insert_with(..): %d entry call(s), %d or_insert_with" % (len(entries), len(oi)), file=b0.file, line=b0.line)
            continue
        if b0.dominates(entries[1], entries[0]):
            entries = [entries[1], entries[0]]
        keys = []
        bad = None
        for e in entries:
            t = b0.blocks[e]["term"]
            ks, kc = place0(op_place(t["args"][1]))
            keys.append(ks - {"<cache>"})
            if kc:
                bad = kc
        if bad:
            r.viol("R1:%s#computed-key" % g, "the cache key is computed (%s) rather than being the locale/options themselves: distinct options can share a slot" % bad, file=b0.file, line=b0.line)
            continue
        if keys[0] != {"locale"}:
            r.viol("R1:%s#locale-key" % g, "the outer map is keyed by %s, not by the locale" % sorted(keys[0]), file=b0.file, line=b0.line)
            continue
        # the outer map must be a field of the cache, the inner one the result of or_default on it
        key_all = keys[0] | keys[1]
        c1 = _closure_arg(b0, oi[0], 1)
        if c1 is None:
            r.viol("R1:%s#ctor" % g, "or_insert_with is not given a closure literal", file=b0.file, line=b0.line)
            continue
        used = set()
        labels = []
        for op in c1[1]:
            s, _c = place0(op_place(op))
            used |= s
            labels.append("+".join(sorted(s)) or "?")
        CTOR.setdefault(id(prog), {})[g] = (prog.bodies.get(c1[0]), labels)
        used.discard("<cache>")
        missing = used - key_all
        unkeyed = set(params) - key_all
        if missing:
            r.viol("R1:%s#unkeyed:%s" % (g, ",".join(sorted(missing))), "the formatter is built from %s but cached under a key made of %s only" % (sorted(missing), sorted(key_all)), file=b0.file, line=b0.line)
            continue
        if unkeyed:
            r.viol("R1:%s#unkeyed:%s" % (g, ",".join(sorted(unkeyed))), "parameter(s) %s are not part of the cache key" % sorted(unkeyed), file=b0.file, line=b0.line)
            continue
        # the value handed back is what the entry holds
        ret_src, _c = place0({"l": 0, "p": []})
        t = b0.blocks[oi[0]]["term"]
        # _0 is a copy (through any number of locals / dereferences) of what or_insert_with returned
        ok_ret = False
        reach, todo = {0}, [0]
        while todo:
            l = todo.pop()
            for (bi, j, s) in b0.defs().get(l, []):
                if j == "term" or s["rv"]["k"] not in ("Use", "CopyForDeref", "Ref", "Cast"):
                    continue
                p = s["rv"].get("place") or (op_place(s["rv"]["ops"][0]) if s["rv"].get("ops") else None)
                if p and p["l"] not in reach:
                    reach.add(p["l"])
                    todo.append(p["l"])
        ok_ret = t["dest"]["l"] in reach
        if not ok_ret:
            r.viol("R1:%s#returns-entry" % g, "the getter does not return the cached entry", file=b0.file, line=b0.line)
            continue
        r.inst(g, "key = (locale, %s); constructor captures %s" % (", ".join(sorted(keys[1])), sorted(used)))
    return r


# --------------------------------------------------------------------------------------------- R2

def r2_lock(ctx, prog):
    r = Rule("C18.R2", "the cache is only touched under its write lock, which is never re-entered and survives a panic",
             "`does not depend on which formatters ran before, in what order, or from how many threads`: lookup and insert must be "
             "one critical section; a poisoned lock (a constructor panicked earlier) must not make every later call panic; "
             "re-entering with_mut from a constructor would deadlock", floor=10)
    users = []
    for name, b in sorted(prog.bodies.items()):
        if b.crate != "leptos_i18n":
            continue
        for i, j, s in b.assigns():
            for op in s["rv"].get("ops", []):
                c = op_const(op)
                if c and re.search(r"^&.*inner::StaticLock<.*inner::Formatters>$", c.get("ty", "")):
                    users.append((b, s["place"]["l"]))
    names = sorted({b.name.replace(FMOD, "") for b, _ in users})
    want = sorted(list(GETTERS) + ["inner::set_icu_data_provider"])
    main_want = sorted(GETTERS)
    if names in (want, main_want):
        r.inst("FORMATTERS users", ", ".join(names))
    else:
        r.viol("R2:FORMATTERS#users", "the cache static is referenced from %s (expected the 7 getters)" % names)
    for b, l in users:
        # every use of the reference ends as the receiver of with_mut
        ok = True
        reach = {l}
        changed = True
        while changed:
            changed = False
            for i, j, s in b.assigns():
                ps = [op_place(o) for o in s["rv"].get("ops", [])] + [s["rv"].get("place")]
                if any(p and p["l"] in reach for p in ps) and s["place"]["l"] not in reach:
                    reach.add(s["place"]["l"])
                    changed = True
        for i, t in b.calls():
            for k, a in enumerate(t["args"]):
                p = op_place(a)
                if p and p["l"] in reach:
                    if not (re.search(r"StaticLock::<T>::with_mut$", callee_name(t) or "") and k == 0):
                        ok = False
        if ok:
            r.inst(b.name.replace(FMOD, "") + "#access", "FORMATTERS only used as receiver of with_mut")
        else:
            r.viol("R2:%s#raw-access" % b.name.replace(FMOD, ""), "the cache static is used other than through with_mut", file=b.file, line=b.line)
    # field .0 of StaticLock only in with_mut / derives
    wm = prog.body(FMOD + "inner::StaticLock::<T>::with_mut")
    if wm is None:
        r.missing("StaticLock::with_mut")
        return r
    raw = []
    for name, b in sorted(prog.bodies.items()):
        if b.crate != "leptos_i18n" or b is wm:
            continue
        for i, j, s in b.assigns():
            ps = [op_place(o) for o in s["rv"].get("ops", [])] + [s["rv"].get("place")]
            for p in ps:
                if p and ".0" in p["p"] and re.search(r"inner::StaticLock<", b.local_ty(p["l"])):
                    if not re.search(r"as std::(fmt::Debug|default::Default)>", b.name):
                        raw.append(b.name)
    if raw:
        r.viol("R2:StaticLock#field", "the lock inside StaticLock is reached outside with_mut: %s" % sorted(set(raw)))
    # with_mut: get_or_init -> write -> recover -> deref_mut -> call f ; guard dropped after
    seq = [r"OnceLock::<T>::get_or_init$", r"RwLock::<T>::write$", r"Result::<T, E>::unwrap_or_else$", r"DerefMut>::deref_mut$", r"FnOnce::call_once$"]
    blocks = []
    for rx in seq:
        bl = M.call_blocks(wm, rx)
        blocks.append(bl[0] if len(bl) == 1 else None)
    if blocks[2] is None and M.call_blocks(wm, r"Result::<T, E>::(unwrap|expect)$"):
        r.viol("R2:with_mut#poison", "with_mut unwraps the lock result: after one formatter constructor panics (see R5) every later "
               "formatter / plural call, for any locale, panics on the poisoned lock", file=wm.file, line=wm.line)
    elif None in blocks:
        r.viol("R2:with_mut#shape", "with_mut is not get_or_init -> write -> recover poisoned guard -> call closure (found %s)" % blocks, file=wm.file, line=wm.line)
    elif not all(wm.dominates(blocks[k], blocks[k + 1]) for k in range(len(blocks) - 1)):
        r.viol("R2:with_mut#order", "lock acquisition does not dominate the closure call", file=wm.file, line=wm.line)
    else:
        t = wm.blocks[blocks[2]]["term"]
        c = op_const(t["args"][1])
        rec = (c or {}).get("resolved") or (c or {}).get("fn") or ""
        if not re.search(r"PoisonError::<T>::into_inner$|PoisonError<.*>::into_inner$", rec):
            r.viol("R2:with_mut#poison", "a poisoned lock is handled by `%s`, not by taking the guard back" % rec, file=wm.file, line=wm.line)
        else:
            # guard must still be alive at the call: its Drop comes after call_once
            guard = t["dest"]["l"]
            drops = [i for i, tt in wm.terms("Drop") if tt["place"]["l"] == guard and not tt["place"]["p"]]
            if drops and all(wm.dominates(blocks[4], d) for d in drops):
                r.inst("StaticLock::with_mut", "get_or_init; write(); PoisonError::into_inner on poison; f(&mut guard); guard dropped after f returns")
            else:
                r.viol("R2:with_mut#guard-lifetime", "the write guard is released before the closure runs", file=wm.file, line=wm.line)
    # write lock (not read) is what is taken: no RwLock::read anywhere on the cache
    if M.call_blocks(wm, r"RwLock::<T>::read$|RwLock::<T>::try_"):
        r.viol("R2:with_mut#read-lock", "with_mut takes a read / try lock", file=wm.file, line=wm.line)
    # no re-entrance
    callers = sorted({bb.name.replace(FMOD, "") for (bb, i, t2) in prog.callers_of(r"StaticLock::<T>::with_mut$")})
    closures = []
    for g in GETTERS:
        b = prog.body(FMOD + g)
        if b is not None:
            closures += [c.name for c in prog.closures_of(b)]
    seen = prog.reachable(closures)
    nested = [n for n in seen if re.search(r"StaticLock::<T>::with_mut$", n) or n.replace(FMOD, "") in GETTERS]
    if nested:
        n = nested[0]
        r.viol("R2:with_mut#re-entered", "a closure run under the lock reaches %s" % " -> ".join(prog.path_to(seen, n)))
    else:
        r.inst("no re-entrance", "%d bodies reachable from the %d closures run under the lock; none is with_mut or a getter (callers of with_mut: %s)" % (len(seen), len(closures), ", ".join(callers)))
    return r


# --------------------------------------------------------------------------------------------- R3

def _macro_table(ast, file, owner):
    """impl_from_args! { "arg", "v" => Self::V, .. } inside `impl owner` -> (arg, [(v, V)])"""
    for (p, mods, it) in ast.item_macros:
        if p == file and it.get("path") == "impl_from_args" and mods and mods[-1] == owner:
            lits = re.findall(r'"([^"]*)"', it["text"])
            pairs = re.findall(r'"([^"]*)"\s*=>\s*Self\s*::\s*(\w+)', it["text"])
            return lits[0], pairs
    return None


def _book_lists(md):
    """[(preceding paragraph text, [(bullet value, is_default)])]"""
    out = []
    para = ""
    cur = None
    for line in md.splitlines():
        m = re.match(r"^- (.*)$", line)
        if m:
            if cur is None:
                cur = []
                out.append((para, cur))
            v = m.group(1).strip()
            d = bool(re.search(r"\(default\)", v, re.I))
            cur.append((re.sub(r"\s*\(default\)", "", v, flags=re.I).strip(), d))
        elif line.strip():
            cur = None
            para = line
    return out


PROVIDER_CTORS = {"try_new_num_formatter": "FixedDecimalFormatter::try_newlocale,options", "try_new_date_formatter": "DateFormatter::try_new_with_lengthlocale,length",
                  "try_new_time_formatter": "TimeFormatter::try_new_with_lengthlocale,length", "try_new_datetime_formatter": "DateTimeFormatter::try_newlocale,options",
                  "try_new_and_list_formatter": "ListFormatter::try_new_and_with_lengthlocale,style", "try_new_or_list_formatter": "ListFormatter::try_new_or_with_lengthlocale,style",
                  "try_new_unit_list_formatter": "ListFormatter::try_new_unit_with_lengthlocale,style", "try_new_plural_rules": "PluralRules::try_newlocale,rule_type",
                  "try_new_currency_formatter": "CurrencyFormatter::try_newlocale,options"}


def provider_ctors(ctx, prog, r, rid, want=None):
    """the data-provider methods: with compiled data the ICU4X constructor of the same kind called with the method's own (locale, options)
    - read off the MIR return summary, so that how it is written does not matter -; with a custom provider the call is delegated unchanged
    (that impl is not compiled in the analysed configuration: its source is compared)"""
    from rules.common import msum
    from astlib import show
    from rules.common import flatp
    RT_ = "leptos_i18n/src/macro_helpers/formatting/"
    want = want or PROVIDER_CTORS
    n = 0
    for name, w in want.items():
        ctor = w.split("locale,")[0]
        got = msum(prog, r"BakedDataProvider as .*IcuDataProvider>::%s$" % name)
        fns = [f for f in ctx.ast.fns_named(RT_ + "mod.rs", name) if f.body is not None and f.impl_trait]
        bodies = sorted(flatp(show(f.body)).strip("{}") for f in fns)
        deleg = "self.get_provider.%slocale,%s" % (name, w.rsplit(",", 1)[1])
        if len(got) == 1 and got[0][1] == "%s(p2, p3)" % ctor and not got[0][2] and deleg in bodies and len(bodies) == 2:
            n += 1
        elif len(got) != 1 or got[0][1] != "%s(p2, p3)" % ctor or got[0][2]:
            r.viol("%s:BakedDataProvider::%s" % (rid, name), "with compiled data the method computes `%s`%s, expected `%s(locale, options)` on its own parameters: the formatter / rules "
                   "built are not the ones of the locale (and options) asked for" % (got[0][1] if got else None, (" with effects %s" % got[0][2]) if got and got[0][2] else "", ctor), file=RT_ + "mod.rs")
        else:
            r.viol("%s:BakedDataProvider::%s" % (rid, name), "provider method bodies are %s (the custom-provider impl must delegate `%s`)" % (bodies, deleg), file=RT_ + "mod.rs")
    return n



def r3_tables(ctx, prog):
    r = Rule("C18.R3", "option tables agree from the book to ICU4X", "`select the documented formatter and options - defaults for "
             "omitted or unrecognised arguments, insensitive to surrounding whitespace`", floor=40)
    ast = ctx.ast
    enums = {"CurrencyWidth": "width", "GroupingStrategy": "grouping_strategy", "DateLength": "date_length",
             "TimeLength": "time_length", "ListType": "list_type", "ListStyle": "list_style"}
    icu_path = {"GroupingStrategy": "l_i18n_crate::reexports::icu::decimal::options::GroupingStrategy::",
                "CurrencyWidth": "l_i18n_crate::reexports::icu::currency::options::Width::",
                "DateLength": "l_i18n_crate::reexports::icu::datetime::options::length::$name::",
                "TimeLength": "l_i18n_crate::reexports::icu::datetime::options::length::$name::",
                "ListType": "l_i18n_crate::__private::ListType::",
                "ListStyle": "l_i18n_crate::reexports::icu::list::ListLength::"}
    length_macro = None
    for (p, mods, it) in ast.item_macros:
        if p == PF and it.get("path") == "macro_rules" and it.get("ident") == "impl_length":
            length_macro = it["text"]
    try:
        md = ctx.read(BOOK)
    except OSError:
        md = ""
        r.missing(BOOK)
    lists = _book_lists(md)
    tables = {}
    for en, arg in enums.items():
        e = ast.enum(PF, en)
        if e is None:
            r.missing("enum " + en)
            continue
        variants = [v["name"] for v in e["variants"]]
        default = [v["name"] for v in e["variants"] if "default" in v.get("attrs", [])]
        tb = _macro_table(ast, PF, en)
        if tb is None and en in ("DateLength", "TimeLength") and length_macro:
            inv = [it for (p, mods, it) in ast.item_macros if p == PF and it.get("path") == "impl_length" and it["text"].startswith(en + " ")]
            if inv:
                tb = (re.findall(r'"([^"]*)"', inv[0]["text"])[0], re.findall(r'"([^"]*)"\s*=>\s*Self\s*::\s*(\w+)', length_macro))
        if tb is None:
            r.viol("R3:%s#from_args" % en, "no argument table (impl_from_args!) for %s" % en, file=PF)
            continue
        argname, pairs = tb
        tables[en] = (argname, pairs, default)
        if argname != arg:
            r.viol("R3:%s#arg-name" % en, "argument is named `%s`, documented as `%s`" % (argname, arg), file=PF)
        notid = [(v, V) for v, V in pairs if v != V.lower()]
        if notid:
            r.viol("R3:%s#value-names" % en, "value spelling does not select the variant of the same name: %s" % notid, file=PF)
        if sorted(V for v, V in pairs) != sorted(variants) or len(set(v for v, V in pairs)) != len(pairs):
            r.viol("R3:%s#coverage" % en, "selectable values %s vs variants %s" % (pairs, variants), file=PF)
        if len(default) != 1:
            r.viol("R3:%s#default" % en, "no single #[default] variant", file=PF)
            continue
        # the book
        if "`%s`" % arg not in md:
            r.viol("R3:%s#book-arg" % en, "the book does not mention the argument `%s`" % arg, file=BOOK)
        want = sorted(v for v, V in pairs)
        found = [(para, bl) for para, bl in lists if sorted(x.lower() for x, d in bl) == want and "`%s`" % arg in para]
        if not found:
            r.viol("R3:%s#book-values" % en, "no bullet list in the book, introduced by a sentence naming `%s`, lists exactly %s" % (arg, want), file=BOOK)
        else:
            for para, bl in found:
                dflt = [x.lower() for x, d in bl if d]
                if dflt != [default[0].lower()]:
                    r.viol("R3:%s#book-default" % en, "the book marks %s as default, the parser's #[default] is %s" % (dflt, default[0]), file=BOOK)
                else:
                    r.inst("%s/`%s`" % (en, arg), "values %s, default %s: parser table = enum = book" % (want, default[0].lower()))
        # macro side: enum, From, ToTokens
        me = ast.enum(MF, en)
        mv = [v["name"] for v in me["variants"]] if me else None
        if mv != variants:
            r.viol("R3:%s#macro-enum" % en, "macro-side enum has %s, parser has %s" % (mv, variants), file=MF)
        inv = [it for (p, mods, it) in ast.item_macros if p == MF and it.get("path") == "impl_from" and flat(it["text"]).startswith(en + ",")]
        if en in ("DateLength", "TimeLength"):
            lm = [it for (p, mods, it) in ast.item_macros if p == MF and it.get("path") == "macro_rules" and it.get("ident") == "impl_length"]
            ltxt = flat(lm[0]["text"]) if lm else ""
            ok_from = "impl_from!($t,Full,Long,Medium,Short);" in ltxt
            arms = re.findall(r"Self::(\w+)=>\{quote!\(([\w:$]+)\)\}", ltxt)
            inv2 = [it for (p, mods, it) in ast.item_macros if p == MF and it.get("path") == "impl_length" and flat(it["text"]).startswith(en + ",")]
            nm = flat(inv2[0]["text"]).split(",")[1] if inv2 else None
            if nm != {"DateLength": "Date", "TimeLength": "Time"}[en]:
                r.viol("R3:%s#icu-type" % en, "emitted as icu length::%s" % nm, file=MF)
        else:
            ok_from = bool(inv) and flat(inv[0]["text"]).split(",")[1:] == variants
            fn = ast.fn(MF, "to_token_stream", impl_self=en)
            arms = []
            m = find_first(fn.body, "Match") if fn else None
            for a in (m or {"arms": []})["arms"]:
                qs = xquotes(a["body"])
                arms.append((show_pat(a["pat"]).split("::")[-1], flat(tok_text(qs[0]["tokens"])) if qs else ""))
        if not ok_from:
            r.viol("R3:%s#macro-from" % en, "parser -> macro conversion does not list exactly %s" % variants, file=MF)
        badarms = [(v, p) for v, p in arms if p != icu_path[en] + v]
        if sorted(v for v, p in arms) != sorted(variants) or badarms:
            r.viol("R3:%s#tokens" % en, "ToTokens does not emit the ICU option of the same name: %s" % (badarms or arms), file=MF)
        else:
            r.inst("%s -> tokens" % en, "each variant emits %s<same name>" % icu_path[en])
    # impl_from! is an identity match
    mr = [it for (p, mods, it) in ast.item_macros if p == MF and it.get("path") == "macro_rules" and it.get("ident") == "impl_from"]
    if mr and "leptos_i18n_parser::utils::formatter::$t::$variant=>Self::$variant" in flat(mr[0]["text"]):
        r.inst("impl_from!", "$t::$variant => Self::$variant")
    else:
        r.viol("R3:impl_from#identity", "impl_from! no longer maps a variant to the variant of the same name", file=MF)
    mr = [it for (p, mods, it) in ast.item_macros if p == PF and it.get("path") == "macro_rules" and it.get("ident") == "impl_from_args"]
    t = flat(mr[0]["text"]) if mr else ""
    if "from_args_helper(args,$name,|arg|{$(ifarg==&$arg_name{Some($value)}else)*{None}})" in t:
        r.inst("impl_from_args!", "arg == literal -> Some(value), else None; looked up under $name")
    else:
        r.viol("R3:impl_from_args#shape", "impl_from_args! changed", file=PF)
    # currency code
    fn = ast.fn(PF, "default", impl_self="CurrencyCode")
    if fn and flatp(show(fn.body)) == '{Selftinystr!3,"USD"}' and re.search(r"The USD is the default value", md):
        r.inst("CurrencyCode default", "USD in code and book")
    else:
        r.viol("R3:CurrencyCode#default", "default currency code differs from the documented USD", file=PF)
    fn = ast.fn(PF, "from_args", impl_self="CurrencyCode")
    if fn is None:
        r.missing("CurrencyCode::from_args")
    else:
        # evaluated: the argument named `currency_code` whose value is a valid code is the code; anything else is the default
        from rules import absint as _ai
        from rules.absint import AEval as _AE, C as _C, L as _L, T as _T
        _ai.set_program(ast)
        _S = lambda x: ("str", x)  # noqa: E731

        def tiny(a):
            v = a[0]
            ok_ = v[0] == "str" and 1 <= len(v[1]) <= 3 and v[1].isascii()
            return _C("Ok", _C("Tiny", v)) if ok_ else _C("Err", _ai.A("tiny-error"))
        casesc = [([("currency_code", "EUR")], "EUR"), ([("width", "narrow"), ("currency_code", "JPY")], "JPY"), ([("currency_code", "EURO"), ("currency_code", "CHF")], "CHF"),
                  ([("currency_code", "EURO")], None), ([("code", "EUR")], None), ([], None), (None, None)]
        badc = None
        try:
            for argl, wantc in casesc:
                ev = _AE(funcs={})
                ev.path_builtins["TinyAsciiStr::from_str"] = tiny
                ev.path_builtins["tinystr::TinyAsciiStr::from_str"] = tiny
                argv = _C("None") if argl is None else _C("Some", _L(*[_T(_S(k_), _S(v_)) for k_, v_ in argl]))
                got = ev.run_fn(fn, [argv])
                if isinstance(got, str):
                    raise _ai.Unknown(got)
                wv = _C("CurrencyCode", _C("Tiny", _S(wantc))) if wantc else _ai.DEFAULT
                if got != wv and badc is None:
                    badc = "arguments %s give %s, expected %s" % (argl, _ai.fmt(got)[:80], _ai.fmt(wv))
            if badc or "`currency_code`" not in md:
                r.viol("R3:CurrencyCode#from_args", "currency_code lookup changed: %s" % (badc or "the book does not mention `currency_code`"), file=PF, line=fn.line)
            else:
                r.inst("CurrencyCode/`currency_code`", "any (up to) 3-letter ASCII code, else default (7 argument lists evaluated)")
        except _ai.Unknown as u:
            r.viol("R3:CurrencyCode#undecided", "CurrencyCode::from_args cannot be interpreted on the current code (%s): not decided (fail closed)" % str(u)[:200], file=PF, line=fn.line)
    fn = ast.fn(MF, "to_token_stream", impl_self="CurrencyCode")
    qs = [flat(tok_text(q["tokens"])) for q in xquotes(fn.body)] if fn else []
    if qs == ["l_i18n_crate::reexports::icu::currency::formatter::CurrencyCode(l_i18n_crate::reexports::tinystr!(3,#code))"] and has(flatp(show(fn.body)), "letcode=Literal::stringself.0.as_str;"):
        r.inst("CurrencyCode -> tokens", "the code itself")
    else:
        r.viol("R3:CurrencyCode#tokens", "CurrencyCode tokens changed", file=MF)
    _r3_helper(r, ctx)
    _r3_names(r, ctx)
    _r3_codegen(r, ctx)
    _r3_runtime(r, ctx, prog)
    return r


def _r3_helper(r, ctx):
    """from_args_helper: default when absent/unrecognised; whitespace trimmed by the caller"""
    import itertools
    from rules import absint
    from rules.absint import AEval, A, C as K, L, T
    ast = ctx.ast
    fn = ast.fn(PF, "from_args_helper")
    if fn is None:
        r.missing("from_args_helper")
        return
    # decision table over the only observations the helper makes: is the argument named `name`, does f recognise the value
    S = lambda x: ("str", x)
    classes = {"hit1": (S("NAME"), S("good1")), "hit2": (S("NAME"), S("good2")), "unrecognised": (S("NAME"), S("bad")), "other-name": (S("zzz"), S("good3"))}

    def F(v, rest):
        return K("Some", A("value-of:" + v[1])) if v[1].startswith("good") else K("None")

    def run(argsv):
        return AEval(funcs={}, builtins={"F": F}).run_fn(fn, [argsv, S("NAME"), ("builtin-fn", "F")])
    bad = []
    n = 0
    cases = [("no arguments", K("None"), absint.DEFAULT)]
    for k in range(0, 4):
        for combo in itertools.product(sorted(classes), repeat=k):
            first = next((c for c in combo if c.startswith("hit")), None)
            want = A("value-of:" + classes[first][1][1]) if first else absint.DEFAULT
            cases.append(("(" + ", ".join(combo) + ")", K("Some", L(*[T(*classes[c]) for c in combo])), want))
    for label, argsv, want in cases:
        got = run(argsv)
        n += 1
        if got != want:
            bad.append("%s -> %s, expected %s" % (label, got if isinstance(got, str) else absint.fmt(got), absint.fmt(want)))
    if not bad:
        r.inst("from_args_helper", "%d argument-list shapes (up to 3 arguments x {recognised, unrecognised, other name}): no args -> Default; other names skipped; unrecognised value -> keeps scanning; first recognised wins; exhausted -> Default" % n)
    else:
        r.viol("R3:from_args_helper", "the default / skip / first-recognised-value behaviour changed: %s" % "; ".join(bad[:3]), file=fn.file, line=fn.line)
    fn = ast.fn(PV, "parse_formatter_args")
    if fn is None:
        r.missing("parse_formatter_args")
        return
    # the function only observes the positions of `(`, `)`, `;`, `:` and surrounding whitespace: one padded representative per arrangement
    table = [
        ("\t nm \n", ("nm", None)),
        (" nm ( a : x ;\tb\t:\ty\n) tail", ("nm", [("a", "x"), ("b", "y")])),
        (" nm ( a : x ", ("nm ( a : x", None)),
        (" nm ) a ( ", ("nm ) a (", None)),
        (" nm ( a ; b : y ; ) ", ("nm", [("b", "y")])),
        (" nm ( a : x : z ) ", ("nm", [("a", "x : z")])),
        (" nm ( a ( b : c ) d ) e", ("nm", [("a ( b", "c ) d")])),
        (" nm ( ) ", ("nm", [])),
        ("nm(a:x)", ("nm", [("a", "x")])),
    ]
    bad = []
    for src, (wn, wa) in table:
        want = T(S(wn), K("None") if wa is None else K("Some", L(*[T(S(x), S(y)) for x, y in wa])))
        got = AEval(funcs={}).run_fn(fn, [S(src)])
        if got != want:
            bad.append("%r -> %s, expected %s" % (src, got if isinstance(got, str) else absint.fmt(got), absint.fmt(want)))
    if not bad:
        r.inst("parse_formatter_args", "%d separator arrangements: name, argument names and values are all trimmed; first `(` .. last `)`; `;` separates arguments, first `:` splits name from value; pieces without `:` are skipped" % len(table))
    else:
        r.viol("R3:parse_formatter_args#trim", "an untrimmed component is returned or the separators changed: %s" % "; ".join(bad[:3]), file=fn.file, line=fn.line)
    fn = ctx.ast.fn(PV, "parse_formatter")
    if fn is None:
        r.missing("parse_formatter")
    else:
        # evaluated with Formatter::from_name_and_args as an oracle answering each of its three outcomes: the name and arguments handed
        # over are the parsed ones; Ok(Some(f)) -> f, Ok(None) -> UnknownFormatter(name), Err(f) -> DisabledFormatter(f)
        absint.set_program(ctx.ast)
        badp = None
        try:
            for outcome, wantk in ((K("Ok", K("Some", A("FMT"))), ("Ok", None)), (K("Ok", K("None")), ("Err", "UnknownFormatter")), (K("Err", A("FMT")), ("Err", "DisabledFormatter"))):
                seen = []
                ev = AEval(funcs={})
                ev.path_builtins["Formatter::from_name_and_args"] = lambda a, outcome=outcome, seen=seen: (seen.append(a), outcome)[1]
                got = ev.run_fn(fn, [S(" number ( grouping_strategy : never ) "), A("locale"), A("key_path")])
                if isinstance(got, str):
                    raise absint.Unknown(got)
                ok_args = len(seen) == 1 and seen[0][0] == S("number") and seen[0][1] == K("Some", L(T(S("grouping_strategy"), S("never"))))
                kind = got[2][0][1] if got[0] == "ctor" and got[1] == "Err" and got[2] and got[2][0][0] == "ctor" else None
                if kind in ("Box", "Into"):
                    kind = got[2][0][2][0][1] if got[2][0][2] and got[2][0][2][0][0] == "ctor" else kind
                okk = (got == K("Ok", A("FMT"))) if wantk[0] == "Ok" else (got[0] == "ctor" and got[1] == "Err" and kind == wantk[1])
                if not (ok_args and okk) and badp is None:
                    badp = "with from_name_and_args answering %s (asked %s) parse_formatter gives %s" % (absint.fmt(outcome), [absint.fmt(x)[:60] for x in (seen[0] if seen else [])], absint.fmt(got)[:120])
            if badp:
                r.viol("R3:parse_formatter", "parse_formatter changed: %s" % badp, file=PV, line=fn.line)
            else:
                r.inst("parse_formatter", "trimmed name and arguments go to from_name_and_args; unknown name -> UnknownFormatter, disabled feature -> DisabledFormatter")
        except absint.Unknown as u:
            r.viol("R3:parse_formatter#undecided", "cannot be interpreted on the current code (%s): not decided (fail closed)" % str(u)[:200], file=PV, line=fn.line)
    # t_format! uses the same table
    # t_format! resolves its formatter through the same table: who calls Formatter::from_name_and_args (MIR call graph) - the value
    # parser and the t_format! input parser, nobody resolves names on their own
    progm = ctx.mir("main")
    callers = sorted({bb.name.split("::{closure")[0] for (bb, _i, _t) in progm.callers_of(r"utils::formatter::Formatter::from_name_and_args$")})
    tf_callers = [c for c in callers if "t_format::parsed_input" in c]
    pv_callers = [c for c in callers if c.endswith("ParsedValue::parse_formatter")]
    others = [c for c in callers if c not in tf_callers and c not in pv_callers]
    if tf_callers and pv_callers and not others:
        r.inst("t_format!", "same Formatter::from_name_and_args (called from %s)" % ", ".join(c.split("::")[-1] for c in tf_callers))
    else:
        r.viol("R3:t_format#table", "Formatter::from_name_and_args is called from %s: t_format! and the value parser must both (and only they) resolve formatter names through it" % callers, file=TF)
    fn = ctx.ast.fn(TF, "convert_formatter_result")
    if fn is None:
        r.missing("convert_formatter_result")
    else:
        badc = None
        try:
            for res, wantc in ((K("Ok", K("Some", A("FMT"))), "ok"), (K("Ok", K("None")), "the-unknown-name-error"), (K("Err", A("FMT")), "disabled")):
                ev = AEval(funcs={}, builtins={"into": lambda rv, a: A("into:" + rv[1]) if rv[0] == "atom" else NotImplemented, "err_message": lambda rv, a: A("message-of:" + rv[1]) if rv[0] == "atom" else NotImplemented})
                ev.path_builtins["syn::Error::new"] = lambda a: K("SynError", a[0], a[1])
                got = ev.run_fn(fn, [res, A("SPAN"), A("the-unknown-name-error")])
                if isinstance(got, str):
                    raise absint.Unknown(got)
                wv = K("Ok", A("into:FMT")) if wantc == "ok" else (K("Err", A("the-unknown-name-error")) if wantc != "disabled" else K("Err", K("SynError", A("SPAN"), A("message-of:FMT"))))
                if got != wv and badc is None:
                    badc = "%s becomes %s, expected %s" % (absint.fmt(res), absint.fmt(got)[:100], absint.fmt(wv))
            if badc:
                r.viol("R3:t_format#errors", "convert_formatter_result changed: %s" % badc, file=TF, line=fn.line)
            else:
                r.inst("t_format! errors", "unknown name / disabled feature are compile errors (the formatter's own message at the formatter's span)")
        except absint.Unknown as u:
            r.viol("R3:t_format#undecided", "convert_formatter_result cannot be interpreted on the current code (%s): not decided (fail closed)" % str(u)[:200], file=TF, line=fn.line)


NAMES = {
    "currency": ("Currency", ["CurrencyWidth", "CurrencyCode"], "format_currency"),
    "number": ("Number", ["GroupingStrategy"], "format_nums"),
    "datetime": ("DateTime", ["DateLength", "TimeLength"], "format_datetime"),
    "date": ("Date", ["DateLength"], "format_datetime"),
    "time": ("Time", ["TimeLength"], "format_datetime"),
    "list": ("List", ["ListType", "ListStyle"], "format_list"),
}


def _r3_names_eval(r, ctx, fn):
    """Formatter::from_name_and_args evaluated (rules/absint.py) for every documented name, an unknown one, with each ICU feature on /
    off and with the build helper's flag: name -> Formatter::<family>(options each read from the arguments by its own from_args),
    Ok(Some(..)) when the family's feature (or the flag) is on, Err(the same formatter) otherwise, Ok(None) for an unknown name"""
    from rules import absint
    from rules.absint import AEval, C, A, B
    absint.set_program(ctx.ast)
    S = lambda x: ("str", x)  # noqa: E731
    n_ok = 0
    for name, (var, tys, feat) in list(NAMES.items()) + [("bogus", (None, [], None)), ("", (None, [], None)), ("Currency", (None, [], None))]:
        for feat_on in (True, False):
            for skip in (False, True):
                asked = []

                def cfgf(t_, feat_on=feat_on, asked=asked):
                    m_ = re.search(r'feature="(\w+)"', t_)
                    asked.append(m_.group(1) if m_ else t_)
                    return feat_on
                ev = AEval(funcs={})
                ev.cfg = cfgf
                ev.builtins["get"] = lambda rv, a, skip=skip: B(skip) if rv[0] == "atom" or rv == absint.DEFAULT else NotImplemented
                ev.consts = {"SKIP_ICU_CFG": A("SKIP_ICU_CFG")}
                for ty in ("CurrencyWidth", "CurrencyCode", "GroupingStrategy", "DateLength", "TimeLength", "ListType", "ListStyle"):
                    ev.path_builtins[ty + "::from_args"] = (lambda a, ty=ty: C("OptionOf", S(ty), a[0]))
                got = ev.run_fn(fn, [S(name), A("ARGS")])
                if isinstance(got, str):
                    raise absint.Unknown("%s (from_name_and_args %r)" % (got, name))
                if var is None:
                    want = C("Ok", C("None"))
                else:
                    fm = C(var, *[C("OptionOf", S(t_), A("ARGS")) for t_ in tys])
                    want = C("Ok", C("Some", fm)) if (feat_on or skip) else C("Err", fm)
                if got != want:
                    r.viol("R3:from_name_and_args#%s" % (name or "empty"), 'name "%s" with feature %s%s resolves to %s, expected %s' % (name, "on" if feat_on else "off", ", ICU checks skipped" if skip else "", absint.fmt(got)[:200], absint.fmt(want)[:200]), file=PF, line=fn.line)
                    return True
                if var is not None and set(asked) - {feat}:
                    r.viol("R3:from_name_and_args#%s#gate" % name, 'name "%s" is gated by %s, documented: %s' % (name, sorted(set(asked)), feat), file=PF, line=fn.line)
                    return True
                n_ok += 1
        if var is not None:
            r.inst('"%s"' % name, "Formatter::%s(%s) when %s (or ICU checks skipped), else Err(the same formatter)" % (var, ", ".join(tys), feat))
    r.inst("from_name_and_args (evaluated)", "%d evaluations: 6 documented names + unknown / empty / differently cased names x feature on / off x flag" % n_ok)
    return True


def _r3_names(r, ctx):
    fn = ctx.ast.fn(PF, "from_name_and_args")
    if fn is None:
        r.missing("from_name_and_args")
        return
    try:
        from rules import absint as _ai
        done = _r3_names_eval(r, ctx, fn)
    except _ai.Unknown as u:
        done = False
        r.viol("R3:from_name_and_args#undecided", "cannot be interpreted on the current code (%s): not decided on this tree (fail closed); structural clauses follow" % str(u)[:300], file=PF, line=fn.line)
    if done:
        md = ""
        try:
            md = ctx.read(BOOK)
        except OSError:
            pass
        for name in NAMES:
            if not re.search(r"\{\{\s*\w+\s*,\s*%s\b" % name, md):
                r.viol("R3:book#%s" % name, "the book has no `{{ var, %s }}` example" % name, file=BOOK)
        return
    n = find_first(fn.body, "If")
    seen = {}
    while n is not None and n.get("k") == "If":
        c = flat(show(n["cond"]))
        m = re.match(r'^\(?name=="(\w+)"\)?$', c)
        then = flat(show(n["then"]))
        if not m:
            r.viol("R3:from_name_and_args#cond", "unexpected condition `%s`" % c, file=PF)
            break
        mm = re.search(r"Formatter::(\w+)\(((?:\w+::from_args\(args\),?)+)\)", then)
        feat = re.findall(r'cfg!\(feature="(\w+)"\)\|\|SKIP_ICU_CFG\.get\(\)', then)
        tys = re.findall(r"(\w+)::from_args\(args\)", mm.group(2)) if mm else []
        ctor_all = set(re.findall(r"Formatter::(\w+)\(", then))
        seen[m.group(1)] = (mm.group(1) if mm else None, tys, feat[0] if len(feat) == 1 else None, ctor_all)
        e = n.get("else")
        if e is not None and e.get("k") == "Block" and len(e.get("stmts", [])) == 1:
            inner = find_first(e, "If")
            if inner is not None and flat(show(e)).startswith("{if"):
                e = inner
        n = e if e is not None and e.get("k") == "If" else None
        last_else = e
    for name, (var, tys, feat) in NAMES.items():
        got = seen.get(name)
        if got and got[0] == var and got[1] == tys and got[2] == feat and got[3] == {var}:
            r.inst('"%s"' % name, "Formatter::%s(%s) when %s (or ICU checks skipped)" % (var, ", ".join(tys), feat))
        else:
            r.viol("R3:from_name_and_args#%s" % name, 'name "%s" resolves to %s, expected Formatter::%s(%s) gated by %s' % (name, got, var, tys, feat), file=PF)
    extra = sorted(set(seen) - set(NAMES))
    if extra:
        r.viol("R3:from_name_and_args#extra", "undocumented formatter names %s" % extra, file=PF)
    if not flat(show(fn.body)).endswith("else{Ok(None)}}"):
        r.viol("R3:from_name_and_args#unknown", "an unknown formatter name is not reported as Ok(None)", file=PF)
    md = ""
    try:
        md = ctx.read(BOOK)
    except OSError:
        pass
    for name in NAMES:
        if not re.search(r"\{\{\s*\w+\s*,\s*%s\b" % name, md):
            r.viol("R3:book#%s" % name, "the book has no `{{ var, %s }}` example" % name, file=BOOK)


FAMILY = {"Currency": "currency", "Number": "number", "Date": "date", "Time": "time", "DateTime": "datetime", "List": "list"}


def _r3_codegen(r, ctx):
    ast = ctx.ast
    fn = ast.fn(MF, "from", impl_self="Formatter")
    m = find_first(fn.body, "Match") if fn else None
    ok = m is not None
    cnt = 0
    for a in (m or {"arms": []})["arms"]:
        pat = flat(show_pat(a["pat"]))
        mm = re.match(r"^leptos_i18n_parser::utils::formatter::Formatter::(\w+)(?:\(([\w,]*)\))?$", pat)
        body = flatp(show(a["body"])).strip("{}")
        if not mm:
            ok = False
            continue
        v, binds = mm.group(1), [x for x in (mm.group(2) or "").split(",") if x]
        want = "Self::" + v + ",".join(b + ".into" for b in binds)
        if body != want:
            ok = False
        cnt += 1
    if ok and cnt == 7:
        r.inst("parser Formatter -> macro Formatter", "variant by variant, arguments in order")
    else:
        r.viol("R3:Formatter#from", "the parser -> macro Formatter conversion is not the identity", file=MF)
    # the calls generated for `{{ var, formatter(options) }}`: each of the three generators evaluated (rules/absint.py) on every family,
    # the emitted tokens compared with format_<family>_<flavour>(.., locale, value, options in declaration order)
    from rules import absint as _ai
    from rules.absint import AEval as _AE, C as _C, TOK as _TOK
    _ai.set_program(ast)
    VAR = {"Currency": ["W", "CODE"], "Number": ["G"], "Date": ["DL"], "Time": ["TL"], "DateTime": ["DL", "TL"], "List": ["LT", "LS"]}
    for name, suffix in (("var_to_view", "to_view"), ("var_to_display", "to_display"), ("var_fmt", "to_formatter")):
        fn = ast.fn(MF, name, impl_self="Formatter")
        if fn is None:
            r.missing("Formatter::" + name)
            continue
        n = 0
        try:
            for v, opts in VAR.items():
                got = _AE(funcs={}).run_fn(fn, [_C(v, *[_TOK(o) for o in opts]), _TOK("KEY"), _TOK("LOC")])
                if isinstance(got, str) or got[0] != "tok":
                    raise _ai.Unknown(got if isinstance(got, str) else "not tokens: %s" % _ai.fmt(got)[:60])
                txt = flat(got[1])
                head = "l_i18n_crate::__private::format_%s_%s(" % (FAMILY[v], suffix)
                lead = ["LOC,KEY"] if suffix != "to_formatter" else ["__formatter,*LOC,KEY", "__formatter,*LOC,core::clone::Clone::clone(KEY)"]
                if any(txt == head + l_ + "".join("," + o for o in opts) + ")" for l_ in lead):
                    n += 1
                else:
                    r.viol("R3:%s#%s" % (name, v), "generated call is `%s`: expected %s<locale, value>, %s) in this order" % (txt, head, ", ".join(opts)), file=MF, line=fn.line)
            none = _AE(funcs={}).run_fn(fn, [_C("None"), _TOK("KEY"), _TOK("LOC")])
            nt = flat(none[1]) if not isinstance(none, str) and none[0] == "tok" else None
            want_none = {"var_to_view": "KEY", "var_fmt": "core::fmt::Display::fmt(KEY,__formatter)"}.get(name)
            if want_none is not None and nt != want_none:
                r.viol("R3:%s#None" % name, "a variable without formatter is rendered as `%s`, expected `%s`" % (nt if nt is not None else none, want_none), file=MF, line=fn.line)
            elif n == 6:
                r.inst("Formatter::" + name, "6 families -> format_<family>_%s(locale, value, options in declaration order); no formatter -> the value itself" % suffix)
        except _ai.Unknown as u:
            r.viol("R3:%s#undecided" % name, "cannot be interpreted on the current code (%s): not decided (fail closed)" % str(u)[:200], file=MF, line=fn.line)


def _r3_runtime(r, ctx, prog):
    ast = ctx.ast
    fn = ast.fn(RT + "currency.rs", "from", impl_self="Width")
    m = find_first(fn.body, "Match") if fn else None
    arms = [(flat(show_pat(a["pat"])), flatp(show(a["body"]))) for a in (m or {"arms": []})["arms"]]
    if arms[:2] == [("CurrencyWidth::Short", "Self::Short"), ("CurrencyWidth::Narrow", "Self::Narrow")] and all(p == "_" for p, b in arms[2:]):
        r.inst("currency::Width", "Short -> Short, Narrow -> Narrow (hashable mirror of the ICU option used as cache key)")
    else:
        r.viol("R3:currency::Width#from", "the cache-key mirror of CurrencyWidth is not the identity: %s" % arms, file=RT + "currency.rs")
    fn = ast.fn(RT + "list.rs", "new_formatter", impl_self="ListType")
    m = find_first(fn.body, "Match") if fn else None
    arms = [(flat(show_pat(a["pat"])), flatp(show(a["body"]))) for a in (m or {"arms": []})["arms"]]
    want = [("ListType::%s" % v, 'provider.try_new_%s_list_formatter&locale.into,length.expect"Alistformatter"' % v.lower()) for v in ("And", "Or", "Unit")]
    if arms == want:
        r.inst("ListType::new_formatter", "And/Or/Unit -> try_new_{and,or,unit}_list_formatter(locale, length)")
    else:
        r.viol("R3:ListType#new_formatter", "list type does not select the constructor of the same name: %s" % arms, file=RT + "list.rs")
    want = {"try_new_num_formatter": "FixedDecimalFormatter::try_newlocale,options", "try_new_date_formatter": "DateFormatter::try_new_with_lengthlocale,length",
            "try_new_time_formatter": "TimeFormatter::try_new_with_lengthlocale,length", "try_new_datetime_formatter": "DateTimeFormatter::try_newlocale,options",
            "try_new_and_list_formatter": "ListFormatter::try_new_and_with_lengthlocale,style", "try_new_or_list_formatter": "ListFormatter::try_new_or_with_lengthlocale,style",
            "try_new_unit_list_formatter": "ListFormatter::try_new_unit_with_lengthlocale,style", "try_new_plural_rules": "PluralRules::try_newlocale,rule_type",
            "try_new_currency_formatter": "CurrencyFormatter::try_newlocale,options"}
    n = provider_ctors(ctx, prog, r, "R3", want)
    if n == len(want):
        r.inst("BakedDataProvider", "%d constructors: compiled data -> the ICU4X constructor of the same kind; custom provider -> delegated unchanged" % n)
    # option conversions inside the getters
    import mirsum
    conv = {"get_currency_formatter": "CurrencyFormatter::try_new(Into::into(locale), From::from(width))",
            "get_num_formatter": "FixedDecimalFormatter::try_new(Into::into(locale), From::from(grouping_strategy))",
            "get_date_formatter": "DateFormatter::try_new_with_length(Into::into(locale), length)",
            "get_time_formatter": "TimeFormatter::try_new_with_length(Into::into(locale), length)",
            "get_datetime_formatter": "DateTimeFormatter::try_new(Into::into(locale), Into::into(Bag::from_date_time_style(date_length, time_length)))",
            "get_list_formatter": "ListType::new_formatter(list_type, <cache>, locale, length)",
            "get_plural_rules": "PluralRules::try_new(Into::into(locale), plural_rule_type)"}

    def find_ctor(t):
        if isinstance(t, tuple):
            if t and t[0] == "call" and re.search(r"::try_new\w*$|::new_formatter$", t[1]):
                return t
            for x in t:
                f = find_ctor(x)
                if f is not None:
                    return f
        return None
    for g, w in conv.items():
        info = CTOR.get(id(prog), {}).get(g)
        if info is None or info[0] is None:
            r.viol("R3:%s#ctor" % g, "the constructing closure of the getter was not found (see R1)", file=RT + "mod.rs")
            continue
        cb, labels = info
        t = mirsum.summary(prog, cb, args=[("tuple", tuple(("cap", l) for l in labels))])
        c = find_ctor(t) if t is not None else None
        if t is None:
            # a getter that matches on the entry by hand: every path that constructs must construct from the two key values
            ps = mirsum.paths(prog, cb, depth=2)
            got_all = set()
            for _conds, trace, _ret in ps or []:
                ents = [x for x in trace if x[0] == "call" and (re.search(r"HashMap.*::entry$", x[1]) or _KEYOP.search(x[1])) and len(x[2]) >= 2]
                cc = None
                for x in trace:
                    cc = cc or find_ctor(x)
                cc = cc or find_ctor(_ret)
                if cc is None or len(ents) < 2:
                    continue

                def named(x):
                    # the captures of the closure (p1.K) by the name of what they capture
                    if isinstance(x, tuple):
                        if len(x) == 3 and x[0] == "field" and x[2] == ("p", 1) and str(x[1]).isdigit() and int(x[1]) < len(labels):
                            return ("cap", labels[int(x[1])])
                        return tuple(named(y) for y in x)
                    return x
                trace = [named(x) for x in trace]
                _ret = named(_ret)
                ents = [named(x) for x in ents]
                cc = named(cc)

                def caps_in(x, acc):
                    if isinstance(x, tuple):
                        if len(x) == 2 and x[0] == "cap" and isinstance(x[1], str):
                            acc.add(x[1])
                        else:
                            for y in x:
                                caps_in(y, acc)
                    return acc

                def subst(x, m):
                    if x in m:
                        return m[x]
                    if isinstance(x, tuple):
                        return tuple(subst(y, m) for y in x)
                    return x
                # the key expressions of the map operations stand for the parameters they are made of
                m = {}
                for x in ents:
                    cs_ = sorted(caps_in(x[2][1], set()))
                    if cs_ and x[2][1] != ("cap", cs_[0]):
                        m[x[2][1]] = ("cap", "+".join(cs_))
                got_all.add(mirsum.fmt(subst(cc, m)))
            if len(got_all) == 1:
                c = True
                got = got_all.pop()
            else:
                got = "a branching computation" if not got_all else " / ".join(sorted(got_all))
        else:
            got = mirsum.fmt(c) if c is not None else mirsum.fmt(t)
        if got == w:
            r.inst(g + "#ctor", w)
        else:
            r.viol("R3:%s#ctor" % g, "the constructor is not called with the getter's own locale and options: `%s`, expected `%s`" % (got, w), file=cb.file, line=cb.line)
    # value conversions
    fn32 = ast.fn(RT + "nums.rs", "to_fixed_decimal", impl_self="f32")
    fn64 = ast.fn(RT + "nums.rs", "to_fixed_decimal", impl_self="f64")
    t32 = flatp(show(fn32.body)) if fn32 else ""
    t64 = flatp(show(fn64.body)) if fn64 else ""
    if has(t32, "FixedDecimal::try_from_f64Into::intoself,FloatPrecision::Floating") and has(t64, "FixedDecimal::try_from_f64self,FloatPrecision::Floating"):
        r.inst("floats -> FixedDecimal", "FloatPrecision::Floating (shortest round-trip digits)")
    else:
        r.viol("R3:IntoFixedDecimal#float", "float conversion precision changed", file=RT + "nums.rs")


# --------------------------------------------------------------------------------------------- R4

ENTRY = {
    "currency": ("currency::format_currency", "get_currency_formatter", ["locale", "width"]),
    "number": ("nums::format_number", "get_num_formatter", ["locale", "grouping_strategy"]),
    "date": ("date::format_date", "get_date_formatter", ["locale", "length"]),
    "time": ("time::format_time", "get_time_formatter", ["locale", "length"]),
    "datetime": ("datetime::format_datetime", "get_datetime_formatter", ["locale", "date_length", "time_length"]),
    "list": ("list::format_list", "get_list_formatter", ["locale", "list_type", "length"]),
}


def _direct_param(b, op):
    """name of the fn parameter this operand is a plain move/copy of, else None"""
    p = op_place(op)
    seen = set()
    while p is not None and not p["p"]:
        l = p["l"]
        if 1 <= l <= b.arg_count:
            return b.local_name(l)
        if l in seen:
            return None
        seen.add(l)
        ds = [d for d in b.defs().get(l, [])]
        if len(ds) != 1 or ds[0][1] == "term":
            return None
        rv = ds[0][2]["rv"]
        if rv["k"] == "Use":
            p = op_place(rv["ops"][0])
        elif rv["k"] == "Ref" and rv["place"]["p"] == ["*"]:
            # reborrow of a reference parameter
            p = {"l": rv["place"]["l"], "p": []}
        else:
            return None
    return None


def r4_entry_points(ctx, prog):
    r = Rule("C18.R4", "view / display / fmt entry points use the same formatter for the same arguments",
             "`{{ var, formatter(args) }}` and the `t*_format!` macros must format alike in every output flavour: each entry point "
             "must look the formatter up with its own locale and option parameters", floor=18)
    for fam, (pre, getter, gparams) in sorted(ENTRY.items()):
        for kind in ("to_view", "to_display", "to_formatter"):
            b = prog.body(FMOD + pre + "_" + kind)
            if b is None:
                r.missing(pre + "_" + kind)
                continue
            calls = M.call_blocks(b, re.escape(FMOD + getter) + "$")
            if len(calls) == 1:
                t = b.blocks[calls[0]]["term"]
                got = [_direct_param(b, a) for a in t["args"]]
                if got == gparams:
                    r.inst(pre.split("::")[1] + "_" + kind, "%s(%s)" % (getter, ", ".join(got)))
                else:
                    r.viol("R4:%s_%s#args" % (pre.split("::")[1], kind), "%s is called with %s instead of the entry point's own %s" % (getter, got, gparams), file=b.file, line=b.line)
                continue
            # delegation to a sibling entry point with all parameters passed through
            sib = M.call_blocks(b, re.escape(FMOD + pre) + r"_to_(view|display|formatter)$")
            if len(calls) == 0 and len(sib) == 1:
                t = b.blocks[sib[0]]["term"]
                got = [_direct_param(b, a) for a in t["args"]]
                sb = prog.bodies.get(callee_name(t))
                want = [sb.local_name(i) for i in range(1, sb.arg_count + 1)] if sb else None
                if sb is not None and got == want:
                    r.inst(pre.split("::")[1] + "_" + kind, "delegates to %s(%s)" % (sb.name.split("::")[-1], ", ".join(got)))
                    continue
            r.viol("R4:%s_%s#getter" % (pre.split("::")[1], kind), "does not obtain its formatter from %s exactly once" % getter, file=b.file, line=b.line)
    return r


# --------------------------------------------------------------------------------------------- R5

# ICU4X 1.5: which option values each constructor can build without a time zone (see ASSUMPTIONS)
UNSUPPORTED = {
    "get_time_formatter": ("time", "TimeLength", {"Full": "TimeFormatter::try_new_with_length -> UnsupportedField(TimeZone)", "Long": "TimeFormatter::try_new_with_length -> UnsupportedField(TimeZone)"}),
    "get_datetime_formatter": ("datetime", "TimeLength", {"Full": "DateTimeFormatter::try_new -> UnsupportedField(TimeZone)", "Long": "DateTimeFormatter::try_new -> UnsupportedField(TimeZone)"}),
}


def r5_supported(ctx, prog):
    r = Rule("C18.R5", "every selectable option can be built by the ICU4X constructor the getter expects to succeed",
             "`the output equals ICU4X formatting of the value with those options`: an option the parser accepts and the book "
             "documents, but that makes the `.expect(..)`ed constructor fail, turns a documented translation into a run-time panic",
             floor=7)
    ast = ctx.ast
    for g in sorted(GETTERS):
        b = prog.body(FMOD + g)
        if b is None:
            r.missing(g)
            continue
        fam = prog.family(b)
        expects = []
        for bb in fam:
            expects += [(bb, i) for i in M.call_blocks(bb, r"Result::<T, E>::(expect|unwrap)$")]
        if g == "get_list_formatter":
            nb = prog.body(FMOD + "list::ListType::new_formatter")
            expects += [(nb, i) for i in M.call_blocks(nb, r"Result::<T, E>::(expect|unwrap)$")] if nb else []
        if g not in UNSUPPORTED:
            r.inst(g, "%d expect site(s); every value of its option enums is constructible (ICU4X 1.5)" % len(expects))
            continue
        name, en, bad = UNSUPPORTED[g]
        if not expects:
            r.inst(g, "constructor errors are handled, not expected")
            continue
        tb = None
        for (p, mods, it) in ast.item_macros:
            if p == PF and it.get("path") == "macro_rules" and it.get("ident") == "impl_length":
                tb = re.findall(r'"([^"]*)"\s*=>\s*Self\s*::\s*(\w+)', it["text"])
        if tb is None:
            r.missing("impl_length! table")
            continue
        n = 0
        for v, V in tb:
            if V in bad:
                r.viol("R5:%s(time_length: %s)" % (name, v), "`%s(time_length: %s)` is accepted (and documented) but %s, and %s `.expect`s the result: run-time panic" % (name, v, bad[V], g), file=b.file, line=b.line)
            else:
                n += 1
        r.inst(g, "%d of %d time_length values constructible" % (n, len(tb)))
    return r


def run(ctx):
    prog = ctx.mir("main")
    rules = [r1_cache_key(ctx, prog), r2_lock(ctx, prog), r3_tables(ctx, prog), r4_entry_points(ctx, prog), r5_supported(ctx, prog)]
    # `for the locale being rendered`: the generated arms hand the builder's locale field to the format_* calls untouched - the
    # arm read-back of rules/gentext.py (an arm only binds its table and renders its value; also an arm shared with fallback locales)
    from rules import gentext, absint as _absint
    from report import Rule as _Rule
    r6 = _Rule("C18.R6", "generated arms pass the locale being rendered to the formatters, also when the text comes from a fallback locale",
               "`the output equals ICU4X formatting ... for the locale being rendered`: an arm shared by the locales that fall back to it receives the requested "
               "locale in the builder's locale field; rebinding it (e.g. to the locale the text was written in) formats numbers and dates for another locale", floor=2)
    try:
        gentext.check_locale_arms(ctx, r6, rid="R6")
    except _absint.Unknown as u:
        r6.viol("R6:undecided", "the per-locale generators cannot be interpreted on the current code (%s): not decided on this tree (fail closed)" % str(u)[:300])
    rules.append(r6)
    # `for the locale being rendered`: a t_format! view re-reads the context's locale each time it renders (rules/reactmacros.py)
    from rules import reactmacros
    r7 = _Rule("C18.R7", "t_format!: the locale handed to the formatter is read when the value is rendered",
               "`the output equals ICU4X formatting ... for the locale being rendered`: the view flavour is a closure; reading the locale when the closure "
               "is built formats for the locale of creation after the user switched", floor=9)
    try:
        reactmacros.check(ctx, r7, "R7")
    except _absint.Unknown as u:
        r7.viol("R7:undecided", "the generators cannot be interpreted on the current code (%s): not decided on this tree (fail closed)" % str(u)[:300])
    r7.instances = [i for i in r7.instances if "t_format" in i["site"]]
    r7.violations = [v for v in r7.violations if "t_format" in v.key or "undecided" in v.key]
    rules.append(r7)
    # every flavour of every family goes through the ICU formatter with the same converted value, on every path (MIR traces,
    # rules/c02.py R7): no flavour has a shortcut that prints the value without the locale's formatter
    from rules import c02
    from rules.common import borrow
    rules.append(borrow(c02.r7_formatter_pipeline(ctx), "C18.R8", "every entry point formats through the ICU formatter, on every path, with the same converted value",
                        "`the output equals ICU4X formatting of the value with those options for the locale being rendered`: a fast path that prints the number "
                        "itself (e.g. when grouping is off) skips the locale's digits and decimal separator", floor=11))
    if ctx.tier == "thorough":
        # the same MIR rules on the client-less build (no ssr / dynamic_load): other cfg branches of the same functions
        for cfg in ("plain", "hydrate"):
            p2 = ctx.mir(cfg)
            for rr in (r1_cache_key(ctx, p2), r2_lock(ctx, p2), r4_entry_points(ctx, p2)):
                tgt = [x for x in rules if x.id == rr.id][0]
                for i in rr.instances:
                    i = dict(i)
                    i["site"] = "%s [cfg %s]" % (i["site"], cfg)
                    tgt.instances.append(i)
                for v in rr.violations:
                    v.key = v.key + "[cfg %s]" % cfg
                    tgt.violations.append(v)
    return rules


MANIFEST_ENTRY = {
    "technique": "static analysis: MIR provenance of the formatter cache keys (everything the constructor captures, uncomputed), lock discipline and poison recovery of the cache, option tables book <-> parser <-> macro <-> run time with abstract evaluation of the argument parsers, MIR check that each of the 18 entry points passes its own parameters to the getter of its family, ICU4X capability table, and the per-locale arms of interpolated keys generated and read back (rules/gentext.py): the builder's locale field reaches the format_* calls untouched, also in an arm shared with fallback locales; rules/reactmacros.py for t_format! (the locale is read when the view renders); the pipeline clause of C02.R7 (every path of every entry point goes through the ICU formatter with the same converted value); abstract evaluation of from_name_and_args (name x feature x flag), CurrencyCode::from_args, parse_formatter, convert_formatter_result and the three generators of format calls (var_to_view / var_to_display / var_fmt); call-graph fact: only the value parser and t_format! resolve formatter names, both through from_name_and_args; provider constructors by MIR return summary; any way of writing the formatter cache (entry / get + insert / matched entry / named constructor closure): every keyed map operation is keyed by the locale or by all option parameters, uncomputed",
    "level_text": "Structural clauses only: (locale, options) keying is complete and uncomputed, lookup+insert is one write-locked critical section that survives poisoning and cannot re-enter, option names/values/defaults agree across book, parser, macro and run time, whitespace is trimmed, all entry points share the getter with their own arguments. The textual result of ICU4X formatting and real thread schedules are not applicable to static analysis and are not claimed.",
    "level_note": "Known finding D20: time_length full/long panic at run time (ICU4X non-zoned formatters). Fixed upstream: D19 (book arg name), D21 (lock poisoning). Known and undecided (hunts/C18): a foreign-key argument replacing `{{ n, number }}` drops the formatter; f32 values print their f64 widening.",
}
