"""C15 Initial locale resolution follows the documented precedence."""
import re

from report import Rule
from astlib import find_all, find_first, show, show_pat, method_chain, callee_path
from rules.common import flat, flatp, has, same

EXPLANATION = (
    "Static structural analysis (syntax facts of leptos_i18n/src/fetch_locale.rs and context.rs); nothing executed. Decided "
    "clause: (R1) the precedence chains written in the code are, source by source, the documented ones: main context on "
    "the server and in CSR = [cookie, accepted languages]; with hydrate = [<html lang> chosen by the server, cookie, "
    "accepted]; `accepted` is Locale::find_locale over the Accept-Language header / navigator.languages (which ends in the "
    "default locale, C12); the `once-then` helper yields the start value on its first run only; a sub-context's first run = "
    "[cookie, explicit initial locale, parent] and later runs = [initial locale signal, cookie, parent], where parent = "
    "[parent context's locale, the main resolution without cookie]. (R2) the cookie is read through the FromStr-based "
    "codec only when cookies are enabled, so an unknown value is `None`, never a locale (C13). NOT decided (not applicable "
    "to this technique): what a running reactive graph displays, leptos-use's header / cookie parsing."
)
ASSUMPTIONS = ["Option::or / unwrap_or evaluate left to right", "leptos_use::use_cookie_with_options decodes with FromToStringCodec = FromStr",
               "docs/book/src/infos/01_locale_resol.md is the documented order"]

F = "leptos_i18n/src/fetch_locale.rs"
C = "leptos_i18n/src/context.rs"


def _tail_call(body, env):
    """(callee last segment, [args], env after the lets) of the call a function body ends with"""
    from rules import chains
    env2 = env.child()
    stmts = body["stmts"] if body["k"] == "Block" else []
    for st in stmts[:-1]:
        if st["k"] == "Let":
            env2.bind_let(st)
    if not stmts or stmts[-1]["k"] != "ExprStmt" or stmts[-1].get("semi"):
        return None, [], env2
    e = chains._unblock(stmts[-1]["expr"])
    if e["k"] == "Call" and e["func"]["k"] == "Path":
        return e["func"]["path"].split("::")[-1], e["args"], env2
    return None, [], env2


# the sources of the chain are named functions: they stay calls (are never inlined into the chain)
SOURCES = ("get_locale_from_html", "get_accepted_locale", "init_context_inner")


def r1_chains(ctx):
    from rules import chains
    r = Rule("C15.R1", "precedence chains are the documented ones",
             "swapping two sources, or dropping one, changes the initial locale only for users who have both (a cookie and a "
             "different Accept-Language, an explicit initial locale and a cookie, ...)", floor=9)
    ast = ctx.ast
    # 1. chains read off the code (invariant under re-association / match vs combinators / let-binding / renaming)
    fn = ast.fn(F, "resolve_locale")
    if fn is None:
        r.missing("fetch_locale::resolve_locale")
    else:
        body, env = chains.fn_env(ast, fn, keep=SOURCES)
        cs = chains.cases(body, env)
        want = [((), ['cfg!feature="hydrate"?get_locale_from_html', "param0", "get_accepted_localeparam1"])]
        if cs == want:
            r.inst("resolve_locale", "[html lang (hydrate only), cookie, accepted]")
        else:
            r.viol("R1:resolve_locale", "precedence is %s, documented [html lang (hydrate only), cookie, accepted]" % cs, file=fn.file, line=fn.line)
    for name, wchain, what in (("fetch_locale_ssr", ["param0"], "[cookie, accepted]"), ("fetch_locale_csr", ["param0"], "[cookie, accepted]"),
                               ("fetch_locale_hydrate", ["get_locale_from_html", "param0"], "[html lang, cookie, accepted]")):
        fn = ast.fn(F, name)
        if fn is None:
            r.missing("fetch_locale::" + name)
            continue
        body, env = chains.fn_env(ast, fn, keep=SOURCES)
        callee, args, env2 = _tail_call(body, env)
        ok = callee == "signal_maybe_once_then" and len(args) == 2
        cs = chains.cases(args[0], env2) if ok else None
        then = env2.text(args[1]) if ok else None
        if ok and cs == [((), wchain)] and then == "param1":
            r.inst(name, what)
        else:
            r.viol("R1:" + name, "precedence changed: start value %s then %s (expected %s, then the accepted locale)" % (cs, then, wchain), file=fn.file, line=fn.line)
    want = {
        "signal_maybe_once_then": ("{matchstart{Somestart=>signal_once_thenstart,then;None=>then}}", "Some(start) -> start once, then `then`; None -> `then`"),
        "signal_once_then": ("{Memo::newmove|init|{letthen=then.get;ifinit.is_none{start.clone}else{then}}}", "first run: start, later: then"),
        "get_accepted_locale": ("{leptos_use::use_locales_with_optionsoptions.with_untracked|accepted|L::find_localeaccepted}", "find_locale(accepted languages)"),
    }
    for name, (w, what) in want.items():
        fn = ast.fn(F, name)
        if fn is None:
            r.missing("fetch_locale::" + name)
            continue
        t = flatp(show(fn.body))
        if same(t, w):
            r.inst(name, what)
        else:
            r.viol("R1:" + name, "precedence changed: `%s` (expected `%s` = %s)" % (t[:200], w[:120], what), file=fn.file, line=fn.line)
    fn = ast.fn(F, "fetch_locale")
    t = flatp(show(fn.body)) if fn else ""
    ok = has(t, "letaccepted_locales=leptos_use::use_locales_with_optionsoptions;letaccepted_locale=Memo::newmove|_|accepted_locales.with|accepted|L::find_localeaccepted;") and \
        has(t, 'ifcfg!feature="ssr"{fetch_locale_ssrcurrent_cookie,accepted_locale}elseifcfg!feature="hydrate"{fetch_locale_hydratecurrent_cookie,accepted_locale}else{fetch_locale_csrcurrent_cookie,accepted_locale}')
    if ok:
        r.inst("fetch_locale", "accepted = find_locale(use_locales); dispatch ssr / hydrate / csr with (cookie, accepted)")
    else:
        r.viol("R1:fetch_locale", "dispatch or accepted-locale computation changed", file=F)
    fn = ast.fn(F, "get_locale_from_html")
    t = flatp(show(fn.body)) if fn else ""
    if has(t, ".and_then|lang|L::from_str&lang.ok"):
        r.inst("get_locale_from_html", "<html lang> parsed with from_str (unknown -> None)")
    else:
        r.viol("R1:get_locale_from_html", "html lang is not parsed with from_str(..).ok()", file=F)
    # 2. sub-context: the Memo handed to init_context_inner
    fn = ast.fn(C, "init_subcontext_with_options")
    if fn is None:
        r.missing("init_subcontext_with_options")
    else:
        body, env = chains.fn_env(ast, fn, keep=("init_context_inner",))
        callee, args, env2 = _tail_call(body, env)
        memo = None
        if callee == "init_context_inner" and len(args) == 2:
            memo = args[1]
            if memo["k"] == "Path" and memo["path"] in env2.vars:
                memo = env2.vars[memo["path"]]
        cl = None
        if memo is not None and memo["k"] == "Call" and memo["func"]["k"] == "Path" and memo["func"]["path"].endswith("Memo::new") and memo["args"] and memo["args"][0]["k"] == "Closure" \
                and len(memo["args"][0]["inputs"]) == 1 and memo["args"][0]["inputs"][0]["k"] == "PIdent":
            cl = memo["args"][0]
        if cl is None:
            r.viol("R1:init_subcontext_with_options#memo", "the locale of a sub-context is not a Memo::new(|previous| ..) handed to init_context_inner", file=fn.file, line=fn.line)
        else:
            env3 = env2.child()
            env3.vars[cl["inputs"][0]["name"]] = {"k": "Path", "path": "previous"}
            cs = chains.cases(cl["body"], env3)

            def kind(src):
                if "use_cookie_with_options::<L,FromToStringCodec>" in src and src.endswith(".get_untracked") and "ifENABLE_COOKIE" in src:
                    return "cookie (untracked; only with a cookie name and the cookie feature)"
                if src == "param0.get":
                    return "initial locale signal (tracked)"
                if src.startswith("signal_maybe_once_thenuse_context::<I18nContext<L>>.map|§C0§|§C0§.get_locale_untracked,fetch_locale::fetch_localeNone,param3.unwrap_or_default") and src.endswith(".get"):
                    return "parent context's locale once, then the main resolution without cookie"
                return "?" + src[:120]
            got = sorted((c, [kind(x) for x in srcs]) for c, srcs in cs)
            CK, IN, PA = "cookie (untracked; only with a cookie name and the cookie feature)", "initial locale signal (tracked)", "parent context's locale once, then the main resolution without cookie"
            want = sorted([(("previous is None",), [CK, IN, PA]), (("not previous is None",), [IN, CK, PA])])
            # `if previous.is_none()` is normalised to a match on None
            got = [(tuple(x.replace("previousisNone", "previous is None") for x in c), s2) for c, s2 in got]
            if got == want:
                r.inst("init_subcontext_with_options#first-run", "[cookie, explicit initial locale, parent]")
                r.inst("init_subcontext_with_options#later-runs", "[initial locale, cookie, parent]")
                r.inst("init_subcontext_with_options#parent", PA)
                r.inst("init_subcontext_with_options#sources", "cookie read untracked, initial locale tracked")
            else:
                r.viol("R1:init_subcontext_with_options#chains", "sub-context precedence is %s; documented: first run [cookie, initial, parent], later runs [initial, cookie, parent]" % got, file=fn.file, line=fn.line)
    # documentation order
    doc = ctx.read("docs/book/src/infos/01_locale_resol.md")
    items = re.findall(r"^1\. (.*)$", doc, re.M)
    key = [("cookie" in x.lower(), "accept-language" in x.lower(), "navigator.languages" in x.lower(), "default locale" in x.lower()) for x in items]
    order = [k.index(True) if True in k else -1 for k in key]
    if order[1:] == [0, 1, 2, 3]:
        r.inst("documentation", "documented order: URL prefix (router), cookie, Accept-Language, navigator.languages, default")
    else:
        r.viol("R1:documentation", "the documented order changed (%s): the rule's expectation must be re-confirmed" % items, file="docs/book/src/infos/01_locale_resol.md")
    return r


def r2_cookie(ctx):
    r = Rule("C15.R2", "the cookie is read through the FromStr codec, only when enabled",
             "`an invalid cookie value is ignored, never trusted`", floor=3)
    fn = ctx.ast.fn(C, "init_i18n_context_with_options")
    t = flatp(show(fn.body)) if fn else ""
    if has(t, "letlang_cookie,set_lang_cookie=ifENABLE_COOKIE&&enable_cookie{leptos_use::use_cookie_with_options::<L,FromToStringCodec>&cookie_name,cookie_options}else{letlang_cookie,set_lang_cookie=signalNone;lang_cookie.into,set_lang_cookie}"):
        r.inst("init_i18n_context_with_options#cookie", "use_cookie_with_options::<L, FromToStringCodec> iff ENABLE_COOKIE && enable_cookie, else a constant None")
    else:
        r.viol("R2:init_i18n_context_with_options#cookie", "cookie acquisition changed", file=C)
    if has(t, "letinitial_locale=fetch_locale::fetch_localelang_cookie.get_untracked,ssr_lang_header_getter;"):
        r.inst("init_i18n_context_with_options#resolution", "fetch_locale(cookie value, header options)")
    else:
        r.viol("R2:init_i18n_context_with_options#resolution", "the main context does not resolve its locale with fetch_locale(cookie, ..)", file=C)
    fn = ctx.ast.fn(C, "init_subcontext_with_options")
    t = flatp(show(fn.body)) if fn else ""
    if has(t, "Somecookie_nameifENABLE_COOKIE=>leptos_use::use_cookie_with_options::<L,FromToStringCodec>&cookie_name,cookie_options"):
        r.inst("init_subcontext_with_options#cookie", "cookie only when a name is given and cookies are enabled")
    else:
        r.viol("R2:init_subcontext_with_options#cookie", "sub-context cookie acquisition changed", file=C)
    c = ctx.ast.const(C, "ENABLE_COOKIE")
    if c is not None and flat(show(c["expr"])) == 'cfg!(feature="cookie")':
        r.inst("ENABLE_COOKIE", 'cfg!(feature = "cookie")')
    else:
        r.viol("R2:ENABLE_COOKIE", "ENABLE_COOKIE is no longer the `cookie` feature switch", file=C)
    return r


def r3_own_options(ctx):
    """locale::resolve_locale_with_options: every path computes the answer from this call's own options (MIR paths)"""
    import mirsum
    r = Rule("C15.R3", "resolve_locale_with_options answers from its own options only",
             "`the documented order: cookie (when enabled, under the given name), then the request's languages, then the default`: an answer "
             "remembered from an earlier call (other cookie name, cookies disabled) skips the sources of this call", floor=2)
    prog = ctx.mir("main")
    b = prog.body("leptos_i18n::locale::resolve_locale_with_options")
    if b is None:
        r.missing("locale::resolve_locale_with_options")
        return r
    ps = mirsum.paths(prog, b, depth=3, stop=r"fetch_locale::resolve_locale$|use_cookie_with_options", max_paths=200)
    if ps is None:
        r.viol("R3:resolve_locale_with_options#paths", "the function loops or has too many paths", file=b.file, line=b.line)
        return r
    allowed = re.compile(r"(prelude::signal|signal::signal|Into<.*>>::into|Into::into|GetUntracked>?::get_untracked|Deref>?::deref|use_cookie_with_options|fetch_locale::resolve_locale|Default>?::default|Clone>?::clone|From<.*>>::from|From::from)(::<.*>)?$")
    n = 0
    for conds, trace, ret in ps:
        n += 1
        rt = mirsum.fmt(ret)
        ct = " & ".join(mirsum.fmt(c) for c in conds)
        m = re.match(r"^fetch_locale::resolve_locale\((.*), p1\.ssr_lang_header_getter\)$", rt)
        if not m:
            r.viol("R3:resolve_locale_with_options#result", "on the path [%s] the result is `%s`, not fetch_locale::resolve_locale(<cookie of this call>, <this call's header getter>)" % (ct, rt[:160]), file=b.file, line=b.line)
            break
        cookie = m.group(1)
        uses_cookie = "use_cookie_with_options(Deref::deref(p1.cookie_name), p1.cookie_options)" in cookie
        none_cookie = re.search(r"signal\(Option#None\(\)\)", cookie) is not None
        if not (uses_cookie or none_cookie) or (uses_cookie and "p1.enable_cookie != 0" not in ct) or (none_cookie and "p1.enable_cookie != 0" in ct):
            r.viol("R3:resolve_locale_with_options#cookie", "on the path [%s] the cookie source is `%s`: expected the cookie named by this call's options when enabled, else none" % (ct, cookie[:160]), file=b.file, line=b.line)
            break
        foreign = [c[1] for c in trace if c[0] == "call" and not allowed.search(c[1])]
        if foreign:
            r.viol("R3:resolve_locale_with_options#ambient", "on the path [%s] the function also consults / writes %s" % (ct, sorted(set(mirsum._short(x) for x in foreign))[:4]), file=b.file, line=b.line)
            break
    else:
        r.inst("resolve_locale_with_options", "%d paths: resolve_locale(cookie of this call's name iff enabled, this call's header getter); no other state consulted" % n)
    b2 = prog.body("leptos_i18n::locale::resolve_locale")
    if b2 is not None:
        ps2 = mirsum.paths(prog, b2, depth=0, max_paths=20)
        ok = ps2 is not None and all(mirsum.fmt(ret) == "locale::resolve_locale_with_options(Default::default())" for _c, _t, ret in ps2)
        if ok:
            r.inst("resolve_locale", "resolve_locale_with_options(Default::default())")
        else:
            r.viol("R3:resolve_locale", "resolve_locale is no longer resolve_locale_with_options(default options): %s" % ([mirsum.fmt(x[2]) for x in ps2] if ps2 else None), file=b2.file, line=b2.line)
    return r


def run(ctx):
    # `otherwise the best match for the request's Accept-Language header / navigator.languages`: what the best match is, is the
    # negotiation of C12 (find_locale -> find_match / filter_matches, evaluated over a closed universe by rules/c12.py)
    from rules import c12
    from rules.common import borrow
    res = c12.r0_negotiation(ctx)
    r4 = borrow(res[0], "C15.R4", "the header / navigator fallback is the negotiated best match",
                "`otherwise the best match for the request's Accept-Language header (server) or navigator.languages (client)`: the resolution hands the "
                "accepted languages to Locale::find_locale; a negotiation that prefers a later entry resolves another initial locale", floor=2)
    if not res[1] and not r4.violations:
        r4.viol("R4:undecided", "the negotiation cannot be interpreted on the current code (%s): not decided on this tree (fail closed)" % str(res[2] if len(res) > 2 else "")[:200])
    # `the cookie's locale when the cookie holds a configured locale name ... an invalid cookie value is ignored, never trusted`:
    # the cookie text is parsed with the generated FromStr - exactly the configured names, anything else Err(()) (the from_str
    # clauses of C13.R0: create_locales_enum evaluated and read back, rules/c13.py)
    from rules import c13
    k13 = c13.r0_generated(ctx)
    r5 = borrow(k13[0], "C15.R5", "a cookie value is a locale only when it is exactly a configured name",
                "`an invalid cookie value is ignored, never trusted`: the cookie codec is the locale's FromStr; a from_str that negotiates or normalises "
                "turns an arbitrary cookie (`fr-CA` when only `fr` is configured) into a locale that overrides the Accept-Language header", only=r"from_str", floor=1)
    if not k13[1] and not r5.violations:
        r5.viol("R5:undecided", "the generator cannot be interpreted on the current code: not decided on this tree (fail closed)")
    # the precedence itself: the initialisers interpreted over a model of signals / memos / cookie / header / <html lang> / parent
    # context (rules/localeeval.py).  The chain-extraction and fragment rules R1 / R2 on the same functions are the fallback when the
    # evaluator reports `undecided`.
    from rules import localeeval, absint as _absint
    r6 = Rule("C15.R6", "the initial locale is cookie, else the negotiated locale; sub-context: cookie, explicit initial locale, parent, then the same",
              "`The initial locale is the cookie's locale when the cookie holds a configured locale name, otherwise the best match ..., otherwise the default. For a sub-context "
              "the order is cookie, explicit initial locale, parent context's locale, then the same resolution`", floor=2)
    decided = True
    try:
        localeeval.check_main(ctx, r6, "R6")
        localeeval.check_sub(ctx, r6, "R6")
    except _absint.Unknown as u:
        decided = False
        r6.viol("R6:undecided", "the initialisers cannot be interpreted on the current code (%s): not decided on this tree (fail closed); the structural rules R1 / R2 follow" % str(u)[:300])
    # `otherwise the default`: L::default() is the first variant of the generated enum, and the configuration loader puts the configured
    # default first (C13.R0 / C19.R0)
    r7 = c13.supported_and_default(ctx, "C15.R7", "the default the resolution ends in is the configured default locale",
                                   "`otherwise the default`: Locale::default() is the variant marked #[default] - the first of the list the configuration loader produced; a loader "
                                   "that leaves another locale first makes every visitor without cookie or matching language start in that locale")
    # `the best match for the request's Accept-Language header`: on the server the header is turned into a list by leptos-use (third party):
    # its locked source is read (py/depsrc.py) - it splits at `,` and cuts everything after `;`, i.e. the `q` weights never reach the
    # negotiation, which takes list position as preference
    try:
        import depsrc
        ver_, d_ = depsrc.crate_dir(ctx.repo, "leptos-use")
        if d_ is not None:
            src_ = open(d_ + "/src/use_locales.rs").read()
            ssr_ = src_[src_.index('#[cfg(feature = "ssr")]'):] if '#[cfg(feature = "ssr")]' in src_ else src_
            if "split(',')" in ssr_ and "split_once(';')" in ssr_ and not re.search(r"q\s*=|quality|weight|sort", ssr_):
                r4.viol("R4:accept-language#q-weights", "leptos-use %s turns `Accept-Language` into a list by splitting at `,` and cutting each entry at `;`: the `q` weights are dropped and header position is "
                        "taken as preference - `de;q=0.1,fr;q=0.9` resolves `de`, `de;q=0,fr` (de not acceptable) resolves `de`" % ver_, file="Cargo.lock")
            else:
                r4.inst("leptos-use %s: Accept-Language" % ver_, "the header list is ordered by weight (or parsed otherwise than the 0.15 split)")
    except Exception:  # noqa: BLE001
        pass
    # `parent context's locale`: the parent is the context of the *enclosing* provider - a sub-context is provided inside its own child
    # owner, so it is not what a sibling provider finds as its parent (the run_as_children clause of C16.R3, rules/c16.py)
    from rules import c16
    r8 = borrow(c16.r3_isolation(ctx, ctx.mir("main")), "C15.R8", "the parent a sub-context falls back to is the enclosing context, never a sibling's sub-context",
                "`For a sub-context the order is cookie, explicit initial locale, parent context's locale`: the parent is looked up with use_context; a sub-context "
                "provided in the surrounding owner instead of its own child owner becomes the `parent` of every later sibling provider", only=r"run_as_children", floor=1)
    if decided:
        return [r6, r3_own_options(ctx), r4, r5, r7, r8]
    return [r6, r1_chains(ctx), r2_cookie(ctx), r3_own_options(ctx), r4, r5, r7, r8]


MANIFEST_ENTRY = {
    "technique": "static analysis: priority-chain extraction (rules/chains.py) for the main resolution, the hydrate and ssr/csr variants and the sub-context memo, compared with the documented order; the negotiation clause of C12.R0 (the header / navigator fallback is find_locale's best match, evaluated over a closed universe); MIR path enumeration (py/mirsum.py) of resolve_locale_with_options: every path answers from the call's own options and consults no other state; canonical-form comparison of the once-then helpers and cookie acquisition; the from_str clauses of C13.R0 (the cookie codec accepts exactly the configured names); abstract evaluation (rules/localeeval.py) of init_i18n_context_with_options, init_subcontext_with_options, fetch_locale (with its helpers) and resolve_locale over a model of signals / memos (first value and the value after the inputs moved on), the cookie, the negotiated locale, <html lang> and the parent context, in the ssr / hydrate / csr configurations - the chain extraction is now the fallback; C15.R7: the default the resolution ends in is the configured default (C13.R0 / C19.R0 clauses); C15.R8: the parent of a sub-context is the enclosing context (run_as_children provides inside its own child owner, MIR, shared with C16.R3)",
    "level_text": "Structural, one clause: the order in which the sources of the initial locale are consulted is read off the code for each configuration (ssr / hydrate / csr / sub-context first and later runs) and compared with the documentation. What a running reactive graph shows is not applicable to static analysis and is not claimed.",
    "level_note": "Trusted: Option combinator semantics, leptos-use cookie/header handling. Not decided: run-time reactive behaviour.",
}
