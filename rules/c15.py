"""C15 Initial locale resolution follows the documented precedence."""
import re

from report import Rule
from astlib import find_all, find_first, show, show_pat, method_chain, callee_path
from rules.common import flat, flatp, has, same

EXPLANATION = (
    "Static structural analysis (syntax facts of leptos_i18n/src/fetch_locale.rs and context.rs); nothing executed. Decided "
    "clause: (R1) the precedence chains written in the code are, source by source, the documented ones: main context on "
    "the server and in CSR = [cookie, accepted languages]; with hydrate = [<html lang> chosen by the server, cookie, "
    "accepted]; `accepted` is Locale::find_locale over the Accept-Language header / navigator.languages (which ends in the "
    "default locale, C12); the `once-then` helper yields the start value on its first run only; a sub-context's first run = "
    "[cookie, explicit initial locale, parent] and later runs = [initial locale signal, cookie, parent], where parent = "
    "[parent context's locale, the main resolution without cookie]. (R2) the cookie is read through the FromStr-based "
    "codec only when cookies are enabled, so an unknown value is `None`, never a locale (C13). NOT decided (not applicable "
    "to this technique): what a running reactive graph displays, leptos-use's header / cookie parsing."
)
ASSUMPTIONS = ["Option::or / unwrap_or evaluate left to right", "leptos_use::use_cookie_with_options decodes with FromToStringCodec = FromStr",
               "docs/book/src/infos/01_locale_resol.md is the documented order"]

F = "leptos_i18n/src/fetch_locale.rs"
C = "leptos_i18n/src/context.rs"


def r1_chains(ctx):
    r = Rule("C15.R1", "precedence chains are the documented ones",
             "swapping two sources, or dropping one, changes the initial locale only for users who have both (a cookie and a "
             "different Accept-Language, an explicit initial locale and a cookie, ...)", floor=9)
    ast = ctx.ast
    want = {
        "fetch_locale_ssr": ("{signal_maybe_once_thencurrent_cookie,accepted_locale}", "[cookie, accepted]"),
        "fetch_locale_csr": ("{signal_maybe_once_thencurrent_cookie,accepted_locale}", "[cookie, accepted]"),
        "fetch_locale_hydrate": ("{letbase_locale=get_locale_from_html.orcurrent_cookie;signal_maybe_once_thenbase_locale,accepted_locale}", "[html lang, cookie, accepted]"),
        "resolve_locale": ('{cfg!feature="hydrate".thenget_locale_from_html.flatten.orcurrent_cookie.unwrap_or_elsemove||get_accepted_localeoptions}', "[html lang (hydrate only), cookie, accepted]"),
        "signal_maybe_once_then": ("{matchstart{Somestart=>signal_once_thenstart,then;None=>then}}", "Some(start) -> start once, then `then`; None -> `then`"),
        "signal_once_then": ("{Memo::newmove|init|{letthen=then.get;ifinit.is_none{start.clone}else{then}}}", "first run: start, later: then"),
        "get_accepted_locale": ("{leptos_use::use_locales_with_optionsoptions.with_untracked|accepted|L::find_localeaccepted}", "find_locale(accepted languages)"),
    }
    for name, (w, what) in want.items():
        fn = ast.fn(F, name)
        if fn is None:
            r.missing("fetch_locale::" + name)
            continue
        t = flatp(show(fn.body))
        if t == w:
            r.inst(name, what)
        else:
            r.viol("R1:" + name, "precedence changed: `%s` (expected `%s` = %s)" % (t[:200], w[:120], what), file=fn.file, line=fn.line)
    fn = ast.fn(F, "fetch_locale")
    t = flatp(show(fn.body)) if fn else ""
    ok = has(t, "letaccepted_locales=leptos_use::use_locales_with_optionsoptions;letaccepted_locale=Memo::newmove|_|accepted_locales.with|accepted|L::find_localeaccepted;") and \
        has(t, 'ifcfg!feature="ssr"{fetch_locale_ssrcurrent_cookie,accepted_locale}elseifcfg!feature="hydrate"{fetch_locale_hydratecurrent_cookie,accepted_locale}else{fetch_locale_csrcurrent_cookie,accepted_locale}')
    if ok:
        r.inst("fetch_locale", "accepted = find_locale(use_locales); dispatch ssr / hydrate / csr with (cookie, accepted)")
    else:
        r.viol("R1:fetch_locale", "dispatch or accepted-locale computation changed", file=F)
    fn = ast.fn(F, "get_locale_from_html")
    t = flatp(show(fn.body)) if fn else ""
    if has(t, ".and_then|lang|L::from_str&lang.ok"):
        r.inst("get_locale_from_html", "<html lang> parsed with from_str (unknown -> None)")
    else:
        r.viol("R1:get_locale_from_html", "html lang is not parsed with from_str(..).ok()", file=F)
    fn = ast.fn(C, "init_subcontext_with_options")
    t = flatp(show(fn.body)) if fn else ""
    frags = {
        "first-run": "ifprev_locale.is_none{cookie.orinitial_locale.unwrap_orparent_locale}",
        "later-runs": "else{initial_locale.orcookie.unwrap_orparent_locale}",
        "parent": "letparent_locale=use_context::<I18nContext<L>>.map|ctx|ctx.get_locale_untracked;letparent_locale=signal_maybe_once_thenparent_locale,fetch_locale_memo;",
        "main-resolution-without-cookie": "letfetch_locale_memo=fetch_locale::fetch_localeNone,ssr_lang_header_getter.unwrap_or_default;",
        "sources": "letinitial_locale=initial_locale.get;letcookie=lang_cookie.get_untracked;letparent_locale=parent_locale.get;",
    }
    for k, frag in frags.items():
        if has(t, frag):
            r.inst("init_subcontext_with_options#" + k, frag[:100])
        else:
            r.viol("R1:init_subcontext_with_options#" + k, "sub-context precedence changed (`%s`)" % k, file=C)
    # documentation order
    doc = ctx.read("docs/book/src/infos/01_locale_resol.md")
    items = re.findall(r"^1\. (.*)$", doc, re.M)
    key = [("cookie" in x.lower(), "accept-language" in x.lower(), "navigator.languages" in x.lower(), "default locale" in x.lower()) for x in items]
    order = [k.index(True) if True in k else -1 for k in key]
    if order[1:] == [0, 1, 2, 3]:
        r.inst("documentation", "documented order: URL prefix (router), cookie, Accept-Language, navigator.languages, default")
    else:
        r.viol("R1:documentation", "the documented order changed (%s): the rule's expectation must be re-confirmed" % items, file="docs/book/src/infos/01_locale_resol.md")
    return r


def r2_cookie(ctx):
    r = Rule("C15.R2", "the cookie is read through the FromStr codec, only when enabled",
             "`an invalid cookie value is ignored, never trusted`", floor=3)
    fn = ctx.ast.fn(C, "init_i18n_context_with_options")
    t = flatp(show(fn.body)) if fn else ""
    if has(t, "letlang_cookie,set_lang_cookie=ifENABLE_COOKIE&&enable_cookie{leptos_use::use_cookie_with_options::<L,FromToStringCodec>&cookie_name,cookie_options}else{letlang_cookie,set_lang_cookie=signalNone;lang_cookie.into,set_lang_cookie}"):
        r.inst("init_i18n_context_with_options#cookie", "use_cookie_with_options::<L, FromToStringCodec> iff ENABLE_COOKIE && enable_cookie, else a constant None")
    else:
        r.viol("R2:init_i18n_context_with_options#cookie", "cookie acquisition changed", file=C)
    if has(t, "letinitial_locale=fetch_locale::fetch_localelang_cookie.get_untracked,ssr_lang_header_getter;"):
        r.inst("init_i18n_context_with_options#resolution", "fetch_locale(cookie value, header options)")
    else:
        r.viol("R2:init_i18n_context_with_options#resolution", "the main context does not resolve its locale with fetch_locale(cookie, ..)", file=C)
    fn = ctx.ast.fn(C, "init_subcontext_with_options")
    t = flatp(show(fn.body)) if fn else ""
    if has(t, "Somecookie_nameifENABLE_COOKIE=>leptos_use::use_cookie_with_options::<L,FromToStringCodec>&cookie_name,cookie_options"):
        r.inst("init_subcontext_with_options#cookie", "cookie only when a name is given and cookies are enabled")
    else:
        r.viol("R2:init_subcontext_with_options#cookie", "sub-context cookie acquisition changed", file=C)
    c = ctx.ast.const(C, "ENABLE_COOKIE")
    if c is not None and flat(show(c["expr"])) == 'cfg!(feature="cookie")':
        r.inst("ENABLE_COOKIE", 'cfg!(feature = "cookie")')
    else:
        r.viol("R2:ENABLE_COOKIE", "ENABLE_COOKIE is no longer the `cookie` feature switch", file=C)
    return r


def run(ctx):
    return [r1_chains(ctx), r2_cookie(ctx)]


MANIFEST_ENTRY = {
    "technique": "static analysis: extraction of the Option/once-then precedence chains from the syntax tree and comparison with the documented order (syn)",
    "level_text": "Structural, one clause: the order in which the sources of the initial locale are consulted is read off the code for each configuration (ssr / hydrate / csr / sub-context first and later runs) and compared with the documentation. What a running reactive graph shows is not applicable to static analysis and is not claimed.",
    "level_note": "Trusted: Option combinator semantics, leptos-use cookie/header handling. Not decided: run-time reactive behaviour.",
}
