"""C01 Rendered text is exactly what the translation source says."""
import re

from report import Rule
from astlib import find_all, find_first, show, show_pat, quotes_in, tok_text, method_chain, callee_path, walk
from rules.common import ftrav, flat, flatp, has, same, xquotes

EXPLANATION = (
    "Primary clause (R0): the string parser and reduce() are interpreted abstractly (rules/absint.py; nothing compiled or run) on strings generated from the value grammar and must give back exactly the generating pieces, in order. Static structural analysis of the parser's string splitting, the reducer and the code generators (syntax facts; a "
    "symbolic byte-offset evaluation of the splitting functions); nothing is executed. Decided clauses: (R1/R2) symbolic "
    "offset analysis of find_variable / find_foreign_key / find_component (+ helpers): the pieces (before, this, after) "
    "tile the input exactly - first piece starts at 0, last ends at the end, and the gaps are exactly the recognised "
    "delimiters / tag names / skipped whitespace - and every slicing offset is a character boundary produced by a "
    "search. (R3) literals are appended in order (`other` after `self`), blocs are flattened forward, only nulls, subkeys "
    "and empty strings are skipped. (R4) both code generators visit every kind of value in order, emit every collected "
    "piece, and large blocs are regrouped with forward, complete chunks. (R5) in every per-locale generator the value, the "
    "string table accessor and the table size come from the same locale as the match arm. (R6) Display components write "
    "open tag, children, close tag. NOT decided: which of several possible delimiter pairings is chosen, leptos' own HTML "
    "rendering, the typing of the generated Either wrappers (rustc checks that in the user's crate)."
)
ASSUMPTIONS = ["str::split_once/find/match_indices/char_indices return byte positions on character boundaries",
               "quote! repetitions emit all elements in order", "leptos renders tuple elements in order"]

PV = "leptos_i18n_parser/src/parse_locales/parsed_value.rs"
MV = "leptos_i18n_macro/src/load_locales/parsed_value.rs"
MU = "leptos_i18n_macro/src/utils/mod.rs"
ML = "leptos_i18n_macro/src/load_locales/mod.rs"
MI = "leptos_i18n_macro/src/load_locales/interpolate.rs"

BAD_ORDER = {"rev", "skip", "take", "filter", "filter_map", "step_by", "skip_while", "take_while", "chunks_exact", "rchunks", "windows", "dedup", "sort", "sort_by", "last", "nth"}


def r3_append(ctx):
    r = Rule("C01.R3", "adjacent literals are joined in order; blocs are flattened forward",
             "reduce() rewrites what the parser produced; appending in the wrong order or skipping a node changes the text",
             floor=8)
    ast = ctx.ast
    fn = ast.fn(PV, "join", impl_self="Literal")
    if fn is None:
        r.missing("Literal::join")
    else:
        m = find_first(fn.body, "Match")
        for a in (m or {"arms": []})["arms"]:
            p = show_pat(a["pat"])
            t = flatp(show(a["body"]))
            if p.startswith("Literal::String"):
                ok = t in ("s.push_str&other.to_string", "{s.push_str&other.to_string}")
                what = "s.push_str(&other.to_string())"
            else:
                v = re.findall(r"\((\w+)\)", p)
                v = v[0] if v else "v"
                ok = same(t, '{lets=format!"{}{}",%s,other;*self=Literal::Strings,usize::MAX}' % v)
                what = 'format!("{}{}", self_value, other)'
            if ok:
                r.inst("Literal::join#" + p.split("(")[0], what + " : other is appended after self")
            else:
                r.viol("R3:Literal::join#" + p.split("(")[0], "joining %s does not append `other` after `self`: %s" % (p, t[:100]), file=fn.file, line=a["line"])
        if not m or len(m["arms"]) != 5:
            r.viol("R3:Literal::join#arms", "Literal::join must handle the five literal kinds", file=fn.file, line=fn.line)
    fn = ast.fn(PV, "fmt", impl_self="Literal", impl_trait="Display")
    if fn is not None:
        m = find_first(fn.body, "Match")
        bad = [show_pat(a["pat"]) for a in (m or {"arms": []})["arms"] if not re.match(r"^Display::fmt(\w+),f$", flatp(show(a["body"])))]
        if bad:
            r.viol("R3:Literal::fmt", "Display for Literal does not print the carried value for %s" % bad, file=fn.file, line=fn.line)
        else:
            r.inst("Display for Literal", "prints the carried value of every kind")
    fn = ast.fn(PV, "reduce_into", impl_self="ParsedValue")
    if fn is None:
        r.missing("ParsedValue::reduce_into")
    else:
        t = flatp(show(fn.body))
        frags = {
            "skip-null": "ParsedValue::Default=>{}",
            "skip-subkeys": "ParsedValue::Subkeys_=>{}",
            "ranges-plurals": "mutplurals_like@ParsedValue::Ranges_|ParsedValue::Plurals_=>{plurals_like.reduce;bloc.pushplurals_like}",
            "foreign-key-inlined": "ParsedValue::ForeignKeyforeign_key=>{foreign_key.into_inner.into_inner\"reduce_into\".reduce_intobloc}",
            "literal": "ParsedValue::Literals=>{ifs.is_string.is_some_andstr::is_empty{}elseifletSomeParsedValue::Literallast=bloc.last_mut{last.join&s}else{bloc.pushParsedValue::Literals}}",
            "variable": "ParsedValue::Variable{key:key,formatter:formatter}=>{bloc.pushParsedValue::Variable{key:key,formatter:formatter}}",
            "component": "ParsedValue::Component{key:key,inner:mutinner}=>{inner.reduce;bloc.pushParsedValue::Component{key:key,inner:inner}}",
            "nested-bloc-forward": "ParsedValue::Blocinner=>{forvalueininner{value.reduce_intobloc}}",
        }
        for k, frag in frags.items():
            if has(t, frag):
                r.inst("reduce_into#" + k, frag[:80])
            else:
                r.viol("R3:reduce_into#" + k, "reduce_into changed for `%s`" % k, file=fn.file, line=fn.line)
    fn = ast.fn(PV, "reduce", impl_self="ParsedValue")
    if fn is not None:
        t = flatp(show(fn.body))
        frag = "ParsedValue::Blocvalues=>{forvalueinstd::mem::takevalues{value.reduce_intovalues}matchvalues.as_mut_slice{[]=>*self=ParsedValue::default;[one]=>*self=std::mem::takeone;_=>{}}}"
        if has(t, frag):
            r.inst("reduce#Bloc", "items re-added in order; [] -> empty string, [one] -> that item")
        else:
            r.viol("R3:reduce#Bloc", "reduce of a bloc changed", file=fn.file, line=fn.line)
        ftrav(r, "ParsedValue::reduce", fn, {
            "ForeignKey": (["reduce"], "resolved value is reduced and inlined"),
            "Ranges": (["reduce", "try_for_each_value_mut"], "every branch"),
            "Component": (["reduce"], "children"),
            "Subkeys": (["reduce"], "every value of the group"),
            "Bloc": (["reduce_into"], "items"),
            "Plurals": (["reduce"], "forms and other"),
        })
    return r


def r3_join(ctx):
    """Literal::join and reduce_into on the value kinds strings cannot produce: abstract evaluation"""
    from rules import absint
    from rules.absint import AEval, A, C, CF, L, I
    r = Rule("C01.R3", "adjacent literals are joined in order; blocs are flattened forward",
             "reduce() rewrites what the parser produced; appending in the wrong order or skipping a node changes the text",
             floor=3)
    ast = ctx.ast
    funcs = absint.file_funcs(ast, PV, impl_self="ParsedValue")
    join = funcs.get("Literal::join")
    ri = funcs.get("ParsedValue::reduce_into")
    if join is None or ri is None:
        r.missing("Literal::join / ParsedValue::reduce_into")
        return r
    S = lambda x: ("str", x)  # noqa: E731
    MAXV = C("MAX")

    def disp(v):
        if v[0] == "ctor" and v[1] in ("String", "Signed", "Unsigned", "Float", "Bool") and v[2]:
            x = v[2][0]
            if x[0] == "atom" and x[1].startswith("float:"):
                return ("float", x[1][6:])
            return ("str", x[1] if x[0] == "str" else (("true" if x[1] else "false") if x[0] == "bool" else str(x[1])))
        return ("str", absint.fmt(v))

    def mk():
        ev = AEval(funcs=funcs, builtins={"unwrap_at": lambda rv, a: rv[2][0] if rv[0] == "ctor" and rv[2] else rv})
        ev.macros = absint.file_macros(ast, PV)
        ev.display = disp
        ev.consts = {"usize::MAX": MAXV}
        return ev
    # the float 2.0: its text is `2` (what `{{ x }}` renders for x = 2.0 at run time: Display of f64), not `2.0`
    kinds = {"String": C("String", S("ab"), MAXV), "Signed": C("Signed", I(-3)), "Unsigned": C("Unsigned", I(7)), "Float": C("Float", A("float:2")), "Bool": C("Bool", ("bool", True))}
    shown = {"String": "ab", "Signed": "-3", "Unsigned": "7", "Float": "2", "Bool": "true"}
    bad = []
    for k1, v1 in kinds.items():
        for k2, v2 in kinds.items():
            ev = mk()
            got = ev.run_fn(join, [v1, v2])
            after = ev.last_env.get("self") if not isinstance(got, str) else got
            want = C("String", S(shown[k1] + shown[k2]), MAXV)
            if after != want and not (k1 == "String" and not isinstance(after, str) and after[0] == "ctor" and after[1] == "String" and after[2][0] == S(shown[k1] + shown[k2])):
                bad.append("%s.join(%s) gives %s, expected the text `%s`" % (k1, k2, after if isinstance(after, str) else absint.fmt(after), shown[k1] + shown[k2]))
    if bad:
        r.viol("R3:Literal::join", "; ".join(bad[:2]), file=PV, line=join.line)
    else:
        r.inst("Literal::join", "25 (self kind, other kind) pairs incl. the float 2.0 (text `2`): the result is the text of self followed by the text of other")
    # reduce_into on the kinds a string cannot produce
    lit = lambda t: C("Literal", C("String", S(t), MAXV))  # noqa: E731
    items = [C("Default"), lit("a"), C("Subkeys", C("None")), lit(""), C("Literal", C("Signed", I(3))), C("Ranges", A("R")), lit("b"),
             C("ForeignKey", C("Set", lit("z"))), C("Plurals", A("P")), C("Bloc", L(lit("c"), C("Bloc", L(lit("d"))))), CF("Variable", key=A("k"), formatter=A("f")), lit("e"),
             CF("Component", key=A("kc"), inner=lit("")), lit("g")]
    ev = mk()
    ev.builtins["reduce"] = lambda rv, a: absint.UNIT
    ev.builtins["into_inner"] = lambda rv, a: rv[2][0] if rv[0] == "ctor" and rv[1] == "Set" and rv[2] else rv
    got = ev.run_fn(ri, [C("Bloc", L(*items)), L()])
    out = ev.last_env.get("bloc") if not isinstance(got, str) else None
    want = L(C("Literal", C("String", S("a3"), MAXV)), C("Ranges", A("R")), C("Literal", C("String", S("bz"), MAXV)), C("Plurals", A("P")), C("Literal", C("String", S("cd"), MAXV)),
             CF("Variable", key=A("k"), formatter=A("f")), lit("e"), CF("Component", key=A("kc"), inner=lit("")), lit("g"))
    if isinstance(got, str):
        r.viol("R3:reduce_into#eval", "reduce_into cannot be evaluated on the mixed bloc: %s" % got, file=PV, line=ri.line)
    elif out != want:
        r.viol("R3:reduce_into#kinds", "a bloc of [null, `a`, subkeys, ``, 3, range, `b`, $t->`z`, plural, [`c`, [`d`]], var, `e`, <kc></kc>, `g`] reduces to %s, expected %s" % (absint.fmt(out) if out else out, absint.fmt(want)), file=PV, line=ri.line)
    else:
        r.inst("reduce_into", "nulls / subkeys / empty strings dropped, numbers joined as text, resolved references inlined, ranges / plurals / variables / components (also one without content) kept, nested blocs flattened forward")
    # a value that reduces to nothing (only empty strings / references resolving to "") is the empty *string*: it still defines its
    # key; it must not become the explicit default (null), which would pull in another locale's text
    red_fn = funcs.get("ParsedValue::reduce") or ast.fn(PV, "reduce", impl_self="ParsedValue")
    if red_fn is not None:
        bad_e = None
        for label, v0 in (("two empty strings", C("Bloc", L(lit(""), lit("")))), ("an empty bloc", C("Bloc", L())), ("a reference that resolved to the empty string", C("Bloc", L(C("ForeignKey", C("Set", lit("")))))),
                          ("an empty string and an empty reference", C("Bloc", L(lit(""), C("ForeignKey", C("Set", lit("")))))) ):
            ev = mk()
            ev.builtins["into_inner"] = lambda rv, a: rv[2][0] if rv[0] == "ctor" and rv[1] == "Set" and rv[2] else rv
            g = ev.run_fn(red_fn, [v0])
            after = ev.last_env.get("self") if not isinstance(g, str) else None
            okv = after is not None and after[0] == "ctor" and after[1] == "Literal" and after[2] and after[2][0][1] == "String" and after[2][0][2][0] in (S(""), absint.DEFAULT)
            if not okv and bad_e is None:
                bad_e = "%s reduces to %s, expected the empty string literal" % (label, g if isinstance(g, str) else absint.fmt(after)[:80])
        if bad_e:
            r.viol("R3:reduce#empty-is-a-string", bad_e, file=PV, line=red_fn.line)
        else:
            r.inst("reduce (nothing left)", "4 values that reduce to nothing: the empty string literal (the key stays defined), never null")
    fn = ast.fn(PV, "fmt", impl_self="Literal", impl_trait="Display")
    disp_ok = None
    if fn is not None:
        # evaluated: the Display text of each kind of literal is the text of the carried value (the float 2.0 prints `2`)
        absint.set_program(ast)
        disp_ok = True
        for kname, lit in kinds.items():
            ev = mk()

            def dfmt(a):
                x = a[0]
                ev.out.append(("float", x[1][6:]) if x[0] == "atom" and x[1].startswith("float:") else (("str", "true" if x[1] else "false") if x[0] == "bool" else x))
                return C("Ok", absint.UNIT)
            for kk in ("Display::fmt", "fmt::Display::fmt", "std::fmt::Display::fmt", "core::fmt::Display::fmt"):
                ev.path_builtins[kk] = dfmt
            ev.builtins["fmt"] = lambda rv, a: dfmt([rv])
            got = ev.run_fn(fn, [lit, A("formatter")])
            try:
                txt = None if isinstance(got, str) else absint.dtable.render([("fmt", S("{}"), (x,)) if x[0] in ("float", "int") else x for x in ev.out])
            except Exception as ex_:  # noqa: BLE001
                txt = None
                import os
                if os.environ.get("VERIF_DEBUG"):
                    print("DEBUG Literal::fmt", got, ev.out, repr(ex_))
            if txt is None:
                import os
                if os.environ.get("VERIF_DEBUG"):
                    print("DEBUG Literal::fmt", got, ev.out)
                disp_ok = None
                break
            if txt != shown[kname]:
                disp_ok = False
                r.viol("R3:Literal::fmt", "Display for Literal prints %s as `%s`, the carried value reads `%s`" % (absint.fmt(lit), txt, shown[kname]), file=fn.file, line=fn.line)
                break
        if disp_ok:
            r.inst("Literal as Display", "prints the carried value")
    if fn is not None and disp_ok is None:
        m = find_first(fn.body, "Match")
        badf = [show_pat(a["pat"]) for a in (m or {"arms": []})["arms"] if not re.match(r"^Display::fmt(\w+),f$", flatp(show(a["body"])))]
        if badf or not m:
            r.viol("R3:Literal::fmt", "Display for Literal does not print the carried value for %s" % badf, file=fn.file, line=fn.line)
        else:
            r.inst("Literal as Display", "prints the carried value")
    return r


def _r4_structural(ctx, r):
    """syntax-level clauses on flatten / flatten_string / to_token_stream / as_string_impl (only when the evaluation of
    rules/gentext.py is not available)"""
    ast = ctx.ast
    for name, delegates in (("flatten", {"Ranges": ["to_token_stream"], "Plurals": ["to_token_stream"], "Component": ["to_token_stream"], "Variable": ["var_to_view"]}),
                            ("flatten_string", {"Ranges": ["as_string_impl"], "Plurals": ["as_string_impl"], "Component": ["as_string_impl"], "Variable": ["var_fmt"]})):
        fn = ast.fn(MV, name)
        spec = {
            "Literal": (["to_token_stream"], "the literal itself"),
            "Bloc": ([name], "items in order"),
            "ForeignKey": ([name], "resolved value"),
            "Default": (None, "never rendered (unreachable!)"), "Subkeys": (None, "never rendered (unreachable!)"),
        }
        for k, v in delegates.items():
            spec[k] = (v, "delegated generator")
        ftrav(r, "macro parsed_value::" + name, fn, spec)
        if fn is None:
            continue
        _, arms, wild = __import__("rules.common", fromlist=["pv_arms"]).pv_arms(fn)
        if wild is not None:
            r.viol("R4:%s#wildcard" % name, "%s has a catch-all arm: a new kind of value would silently render nothing" % name, file=fn.file, line=fn.line)
        t = flatp(show(fn.body))
        if has(t, "ParsedValue::Blocvalues=>{forvalueinvalues{%svalue,tokens,locale_field,strings_count}}" % name):
            r.inst(name + "#Bloc", "for value in values { %s(value, tokens, ..) } : forward, same token list" % name)
        else:
            r.viol("R4:%s#Bloc" % name, "bloc items are not emitted forward into the same token list", file=fn.file, line=fn.line)
        pushes = len([c for c in find_all(fn.body, "MethodCall") if c["method"] == "push" and show(c["receiver"]) == "tokens"])
        r.inst(name + "#pushes", "%d tokens.push(..) sites" % pushes)
        if pushes < 5:
            r.viol("R4:%s#pushes" % name, "only %d kinds push a piece (Literal, Ranges, Variable, Component, Plurals expected)" % pushes, file=fn.file, line=fn.line)
    for name, empty, many in (("to_token_stream", 'quote!("")', "fit_in_leptos_tuple(values)"), ("as_string_impl", "quote!(Ok(()))", None)):
        cands = [f for f in ast.fns_named(MV, name) if f.impl_self is None]
        fn = cands[0] if cands else None
        if fn is None:
            r.missing("macro parsed_value::" + name)
            continue
        t = flatp(show(fn.body))
        m = find_first(fn.body, "Match")
        arms = {flat(show_pat(a["pat"])): a for a in (m or {"arms": []})["arms"]}
        ok = "[]" in arms and "[value]" in arms and "values" in arms and flatp(show(arms["[value]"]["body"])) == "std::mem::takevalue"
        if many:
            ok = ok and flatp(show(arms["values"]["body"])) == flatp(many)
        else:
            qs = [flat(tok_text(q["tokens"])) for q in xquotes(arms["values"]["body"])] if "values" in arms else []
            ok = ok and qs == ["{#(#values?;)*Ok(())}"]
        flatten_call = "flatten" + ("_string" if name == "as_string_impl" else "")
        ok = ok and has(t, "%sthis,&muttokens,&locale_field,strings_count;match&muttokens[..]{" % flatten_call)
        if ok:
            r.inst("macro parsed_value::" + name, "0 pieces -> empty, 1 -> itself, n -> all of them in order")
        else:
            r.viol("R4:parsed_value::" + name, "not all collected pieces are emitted: %s" % t[-200:], file=fn.file, line=fn.line)


def r4_emission(ctx):
    r = Rule("C01.R4", "both generators emit every piece, in order",
             "the generated view / Display impl is the concatenation of the collected pieces; a skipped kind, a reversed "
             "iteration or an incomplete regrouping drops or reorders text", floor=3)
    ast = ctx.ast
    # decided by evaluation (rules/gentext.py): both generators are interpreted on value trees of every kind and the code they
    # produce is read back into the pieces it renders
    from rules import gentext, absint as _absint
    try:
        evaluated = gentext.check(ctx, r)
    except _absint.Unknown as u:
        evaluated = False
        r.viol("R4:undecided", "the generators cannot be interpreted on the current code (%s): the emission clause is NOT decided on this tree; the structural clauses reported alongside only cover part of it (fail closed)" % str(u)[:300], file=MV)
    if not evaluated:
        _r4_structural(ctx, r)
    fn = ast.fn(MU, "fit_in_leptos_tuple")
    if fn is None:
        r.missing("fit_in_leptos_tuple")
    else:
        # symbolic evaluation (rules/absint.py) on 3, 26, 27, 60 and 700 pieces: every piece must appear exactly once, in order,
        # in tuples of at most 26 elements
        from rules import absint
        from rules.absint import AEval, L, TOK
        funcs = {"fit_in_leptos_tuple": fn}
        bad = []
        for n in (0, 1, 3, 26, 27, 60, 700):
            v = AEval(funcs=funcs).run_fn(fn, [L(*[TOK("v%d" % k) for k in range(n)])])
            if isinstance(v, str) or v[0] != "tok":
                bad.append((n, v if isinstance(v, str) else absint.fmt(v)))
                continue
            txt = re.sub(r"\s+", "", v[1])
            seq = re.findall(r"v\d+", txt)
            # tuple arities: count elements at each nesting level
            depth = 0
            counts = []
            stack = []
            ok_arity = True
            for ch in txt:
                if ch == "(":
                    stack.append(0)
                elif ch == ")":
                    c = stack.pop()
                    if c > 26:
                        ok_arity = False
                elif ch == "," and stack:
                    stack[-1] += 1
            if seq != ["v%d" % k for k in range(n)] or not ok_arity or stack:
                bad.append((n, "pieces %s.. arity-ok=%s" % (seq[:8], ok_arity)))
        if not bad:
            r.inst("fit_in_leptos_tuple", "for 0..700 pieces: every piece exactly once, in order, in (nested) tuples of at most 26 elements")
        else:
            r.viol("R4:fit_in_leptos_tuple", "large blocs are not regrouped with forward, complete chunks: %s: trailing or reordered pieces are lost" % bad[:3], file=fn.file, line=fn.line)
    return r


def locale_closures(fn):
    """closures whose single parameter is named `locale` (per-locale generators)"""
    out = []
    for c in find_all(fn.body, "Closure"):
        if len(c["inputs"]) == 1:
            p = c["inputs"][0]
            if p["k"] == "PIdent" and p["name"] == "locale":
                out.append(c)
            elif p["k"] == "PTuple" and any(e.get("k") == "PIdent" and e.get("name") == "locale" for e in p["elems"]):
                out.append(c)
    return out


def r5_pairing(ctx):
    r = Rule("C01.R5", "per-locale generators take value, string table and table size from the arm's own locale",
             "`nothing is taken from another locale`: the arm for locale X must render X's value with X's string table", floor=6)
    ast = ctx.ast
    # the two generators of interpolated keys are decided by evaluation (rules/gentext.py): their arms are generated for a key whose
    # locales differ in value, table size and fallbacks, and read back
    from rules import gentext, absint as _absint
    try:
        arms_ok = gentext.check_locale_arms(ctx, r)
    except _absint.Unknown as u:
        arms_ok = False
        r.viol("R5:undecided", "the per-locale generators cannot be interpreted on the current code (%s): not decided on this tree (fail closed)" % str(u)[:300], file=MI)
    targets = [(ML, "create_locale_type_inner", None), (MI, "display_impl", "Interpolation")]
    if not arms_ok:
        targets += [(MI, "create_locale_impl", "Interpolation"), (MI, "create_locale_string_impl", "Interpolation")]
    fields = ("top_locale_name", "top_locale_string_count", "keys", "strings", "name")
    for f, name, ty in targets:
        fn = ast.fn(f, name, impl_self=ty)
        if fn is None:
            r.missing(name)
            continue
        cls = locale_closures(fn)
        if not cls:
            r.viol("R5:%s#closures" % name, "no per-locale closure `|locale| ..` found", file=fn.file, line=fn.line)
            continue
        n = 0
        for c in cls:
            for node in find_all(c["body"], "Field"):
                if node["member"] in fields:
                    base = show(node["base"])
                    owner = base.split(".")[0].lstrip("&*")
                    if node["member"] in ("keys", "strings", "top_locale_string_count", "top_locale_name") and base not in ("locale", "locale.top_locale_name", "locale.name"):
                        # nested closures over defaulted locales only build `| Enum::key` alternatives
                        r.viol("R5:%s#foreign-%s" % (name, node["member"]), "inside the per-locale closure `%s.%s` is read from `%s`, not from the arm's locale" % (base, node["member"], base), file=fn.file, line=node["line"])
                    else:
                        n += 1
            for call in find_all(c["body"], "Call"):
                if (callee_path(call) or "") == "strings_accessor_method_name":
                    a = show(call["args"][0])
                    if a != "locale":
                        r.viol("R5:%s#accessor" % name, "string table accessor is taken from `%s`" % a, file=fn.file, line=call["line"])
                    else:
                        n += 1
                if (callee_path(call) or "").endswith(("parsed_value::to_token_stream", "parsed_value::as_string_impl")):
                    args = [show(x) for x in call["args"]]
                    if args[1:] != ["locale.top_locale_string_count"]:
                        r.viol("R5:%s#strings_count" % name, "value is rendered with table size `%s`" % args[1:], file=fn.file, line=call["line"])
                    else:
                        n += 1
        r.inst(name, "%d per-locale closure(s), %d locale-derived reads, all from the closure's own `locale`" % (len(cls), n))
    # value lookup: locale.keys.get(key)
    for f, name, ty, label in [(ML, "create_locale_type_inner", None, "create_locale_type_inner_1"), (MI, "create_locale_impl", "Interpolation", "create_locale_impl_1"), (MI, "create_locale_string_impl", "Interpolation", "create_locale_string_impl_1")]:
        fn = ast.fn(f, name, impl_self=ty)
        t = flatp(show(fn.body)) if fn else ""
        if has(t, 'locale.keys.getkey.unwrap_at"%s"' % label):
            r.inst(name + "#value", "locale.keys.get(key): this key, this locale")
        else:
            r.viol("R5:%s#value" % name, "the rendered value is not `locale.keys.get(key)`", file=f)
    return r


def r6_display(ctx):
    r = Rule("C01.R6", "Display components write open tag, children, close tag",
             "t_string!/t_display! render `<tag>children</tag>` through these impls", floor=3)
    ast = ctx.ast
    f = "leptos_i18n/src/display.rs"
    fns = [x for x in ast.fns if x.file.endswith(f) and x.name == "fmt" and x.impl_trait and "DisplayComponent" in x.impl_trait]
    seen = {}
    for fn in fns:
        seen[fn.impl_self] = flatp(show(fn.body))
    want = {"&str": '{write!f,"<{}>",self?;childrenf?;write!f,"</{}>",self}', "String": "{self.as_str.fmtf,children}", "F": "{selff,&children}"}
    for ty, w in want.items():
        if seen.get(ty) is None:
            r.missing("DisplayComponent for " + ty)
        elif not same(seen[ty], w):
            r.viol("R6:DisplayComponent for " + ty, "is `%s`, expected `%s`" % (seen[ty], w), file=f)
        else:
            r.inst("DisplayComponent for " + ty, w)
    fn = ast.fn(MV, "flatten_string")
    if fn is not None:
        qs = [flat(tok_text(q["tokens"])) for q in xquotes(fn.body)]
        mm = [re.match(r"^l_i18n_crate::display::DisplayComponent::fmt\(#key,__formatter,\|__formatter\|#(\w+)\)$", q) for q in qs]
        mm = [m for m in mm if m]
        src_ok = False
        if mm:
            for l in find_all(fn.body, "Let"):
                if l["pat"]["k"] == "PIdent" and l["pat"]["name"] == mm[0].group(1) and "init" in l and flat(show(l["init"])).startswith("as_string_impl(inner,"):
                    src_ok = True
        if mm and src_ok:
            r.inst("flatten_string#Component", "DisplayComponent::fmt(key, f, |f| children)")
        else:
            r.viol("R6:flatten_string#Component", "string back-end does not render components through DisplayComponent::fmt(key, f, children)", file=fn.file, line=fn.line)
    return r


# ---------------------------------------------------------------------------------------------- evaluation (R0)

LITS = ["Hello ", " \u00e9\u2713 ", " 1 < 2 ", " > ", "a}b{c=1 ", "100% \"q\" ", "-", "\n  x", "tail\n", "\t"]
VARS = [("name", "{{ name }}"), ("n2", "{{n2}}"), ("count", "{{  count\t}}")]
TAGS = [("b", "<b>", "</b>"), ("i", "< i >", "</ i >"), ("b", "<b>", "</b>")]


def _gen_values(thorough):
    """(source text, expected flat rendering) pairs drawn from the documented value grammar: literals, `{{ var }}`,
    `<tag>children</tag>` nested up to depth 3 including same-name nesting; expected = the pieces in source order"""
    import itertools
    lit = [("lit", t) for t in LITS]
    var = [("var", n, src) for n, src in VARS]
    leaves = lit[:5] + var[:2]

    def comp(tag, children):
        return ("comp", tag, children)
    inner1 = [[], [lit[0]], [var[0]], [lit[1], var[1]], [var[0], lit[2]]]
    comps1 = [comp(TAGS[k % 3], ch) for k, ch in enumerate(inner1)]
    comps2 = [comp(TAGS[0], [lit[0], comps1[1], lit[2]]), comp(TAGS[0], [comp(TAGS[2], [var[0]])]), comp(TAGS[1], [comps1[3], comps1[2]]),
              comp(TAGS[0], [lit[5], comp(TAGS[0], [lit[1], comp(TAGS[1], [var[2]])]), lit[3]])]
    atoms = lit + var + comps1 + comps2
    seqs = [[x] for x in atoms]
    some = lit[:4] + var[:2] + comps1[1:4] + comps2[:2]          # (incl. a literal with a lone `<`, and one with a lone `>`)
    seqs += [list(c) for c in itertools.product(some, repeat=2)]
    tri = lit[:2] + var[:1] + comps1[1:3] + comps2[:1]
    seqs += [list(c) for c in itertools.product(tri, repeat=3)]
    if thorough:
        seqs += [list(c) for c in itertools.product(atoms, repeat=2)]
        seqs += [list(c) for c in itertools.product(lit[:3] + var + comps1 + comps2, repeat=3)]

    def src(item):
        if item[0] == "lit":
            return item[1]
        if item[0] == "var":
            return item[2]
        return item[1][1] + "".join(src(c) for c in item[2]) + item[1][2]

    def flat(item, out):
        if item[0] == "lit":
            out.append(("lit", item[1]))
        elif item[0] == "var":
            out.append(("var", item[1]))
        else:
            out.append(("open", item[1][0]))
            for c in item[2]:
                flat(c, out)
            out.append(("close", item[1][0]))

    def merged(xs):
        out = []
        for x in xs:
            if x[0] == "lit" and x[1] == "":
                continue
            if x[0] == "lit" and out and out[-1][0] == "lit":
                out[-1] = ("lit", out[-1][1] + x[1])
            else:
                out.append(x)
        return out
    seen = set()
    for sq in seqs:
        text = "".join(src(i) for i in sq)
        if text in seen:
            continue
        seen.add(text)
        fl = []
        for i in sq:
            flat(i, fl)
        yield text, merged(fl)
    # braces around something that is not a variable name are text, like any other brace - and the variables around them are still variables
    yield "{{ user.name }} has {{ name }} items", [("lit", "{{ user.name }} has "), ("var", "name"), ("lit", " items")]
    yield "write {{ in mustache then hello {{ name }}", [("lit", "write {{ in mustache then hello "), ("var", "name")]
    # a reference inside a component is a component around a reference (the construct that starts first is the outer one)
    yield "<b>$t(target)</b>", [("open", "b"), ("ref", "target"), ("close", "b")]
    yield "see <b>the $t(a.b) here</b> now {{ name }}", [("lit", "see "), ("open", "b"), ("lit", "the "), ("ref", "a.b"), ("lit", " here"), ("close", "b"), ("lit", " now "), ("var", "name")]
    yield "$t(first) then <b>x</b>", [("ref", "first"), ("lit", " then "), ("open", "b"), ("lit", "x"), ("close", "b")]
    # the first closing tag at depth 0 closes the component; a stray later one is text
    yield "<b>x</b> and </b>", [("open", "b"), ("lit", "x"), ("close", "b"), ("lit", " and </b>")]
    yield "<b>a<b>c</b>d</b> e </b>", [("open", "b"), ("lit", "a"), ("open", "b"), ("lit", "c"), ("close", "b"), ("lit", "d"), ("close", "b"), ("lit", " e </b>")]
    yield "{{n2}} and {{ a b }} and <b>{{ name }}</b>", [("var", "n2"), ("lit", " and {{ a b }} and "), ("open", "b"), ("var", "name"), ("close", "b")]


def _flatten_value(v, out):
    """flat rendering of an evaluated ParsedValue: literal text, variables, component open / close, in order"""
    from rules import absint
    if v[0] != "ctor":
        raise absint.Unknown("not a parsed value: %s" % (v[:2],))
    k = v[1]
    fs = absint.fields_of(v)
    if k == "Literal":
        lit = v[2][0]
        if lit[0] == "ctor" and lit[1] == "String":
            out.append(("lit", lit[2][0][1]))
        else:
            out.append(("lit", absint.fmt(lit)))
    elif k == "Variable":
        nm = absint.fields_of(fs["key"]).get("name", ("str", "?"))[1]
        out.append(("var", nm[4:] if nm.startswith("var_") else "!" + nm))
    elif k == "Component":
        nm = absint.fields_of(fs["key"]).get("name", ("str", "?"))[1]
        nm = nm[5:] if nm.startswith("comp_") else "!" + nm
        out.append(("open", nm))
        _flatten_value(fs["inner"], out)
        out.append(("close", nm))
    elif k == "Bloc":
        for x in v[2][0][1]:
            _flatten_value(x, out)
    elif k == "Default":
        pass
    elif k == "ForeignKey":
        cell = v[2][0]
        if cell[0] == "ctor" and cell[1] == "NotSet" and cell[2] and cell[2][0][0] == "ctor":
            path = absint.fields_of(cell[2][0]).get("path")
            out.append(("ref", ".".join(absint.fields_of(x).get("name", ("str", "?"))[1] for x in path[1]) if path and path[0] == "list" else absint.fmt(cell[2][0])))
        else:
            raise absint.Unknown("reference in an unexpected state: " + absint.fmt(cell)[:60])
    else:
        raise absint.Unknown("unexpected value kind " + k)


def _merge_lits(xs):
    out = []
    for x in xs:
        if x[0] == "lit" and x[1] == "":
            continue
        if x[0] == "lit" and out and out[-1][0] == "lit":
            out[-1] = ("lit", out[-1][1] + x[1])
        else:
            out.append(x)
    return out


def _shape_ok(v, top=True):
    """after reduce(): no bloc directly inside a bloc, no two adjacent literals, no empty string literal inside a bloc"""
    from rules import absint
    if v[0] != "ctor":
        return True
    if v[1] == "Bloc":
        items = v[2][0][1]
        prev_lit = False
        for x in items:
            if x[0] == "ctor" and x[1] == "Bloc":
                return False
            is_lit = x[0] == "ctor" and x[1] == "Literal"
            if is_lit and prev_lit:
                return False
            if is_lit and x[2][0][0] == "ctor" and x[2][0][1] == "String" and x[2][0][2][0] == ("str", ""):
                return False
            prev_lit = is_lit
            if not _shape_ok(x, False):
                return False
        return True
    if v[1] == "Component":
        return _shape_ok(absint.fields_of(v)["inner"], False)
    return True


def r0_parse(ctx):
    """abstract evaluation (rules/absint.py) of ParsedValue::new (with find_component / find_variable / find_closing_tag /
    find_opening_tag ..) and of reduce() on strings generated from the value grammar; the expected rendering is the
    sequence of pieces the string was generated from"""
    from rules import absint
    from rules.absint import AEval, A, C, CF
    r = Rule("C01.R0", "strings of the value grammar parse (and reduce) to exactly their pieces, in order",
             "`literal text verbatim and in order, every {{ var }} replaced by the supplied value, every <tag>...</tag> replaced by "
             "the supplied component applied to its rendered children; nothing is dropped, duplicated, reordered`", floor=3)
    ast = ctx.ast
    funcs = absint.file_funcs(ast, PV, impl_self="ParsedValue")
    new = ast.fn(PV, "new", impl_self="ParsedValue")
    red = ast.fn(PV, "reduce", impl_self="ParsedValue")
    if new is None or red is None:
        r.missing("ParsedValue::new / reduce")
        return r, False, "anchor missing"
    macros = absint.file_macros(ast, PV)
    S = lambda x: ("str", x)  # noqa: E731

    def _disp0(v):
        # Display of a Literal (Literal::join builds the joined text with it)
        if v[0] == "ctor" and v[1] in ("String", "Signed", "Unsigned", "Float", "Bool") and v[2]:
            x = v[2][0]
            if x[0] == "atom" and x[1].startswith("float:"):
                return ("float", x[1][6:])
            return ("str", x[1] if x[0] == "str" else (("true" if x[1] else "false") if x[0] == "bool" else str(x[1])))
        return ("str", absint.fmt(v))

    def mk():
        ev = AEval(funcs=funcs, builtins={"unwrap_at": lambda rv, a: rv[2][0] if rv[0] == "ctor" and rv[2] else rv})
        ev.macros = macros
        ev.display = _disp0
        ev.path_builtins = {"Key::new": lambda a: C("Some", CF("Key", name=a[0])) if a[0][0] == "str" and re.match(r"^[A-Za-z_][A-Za-z0-9_]*$", a[0][1]) else C("None"),
                            "Formatter::from_name_and_args": lambda a: C("Ok", C("Some", C("FormatterNone")))}
        return ev
    n = 0
    bad_parse = bad_reduce = None
    for text, want in _gen_values(ctx.tier == "thorough"):
        got = mk().run_fn(new, [S(text), A("key_path"), A("locale"), A("fkp")])
        if isinstance(got, str):
            return r, False, "%s on %r" % (got, text)
        n += 1
        try:
            if not (got[0] == "ctor" and got[1] == "Ok"):
                raise absint.Unknown("result " + absint.fmt(got)[:80])
            fl = []
            _flatten_value(got[2][0], fl)
            have = _merge_lits(fl)
        except absint.Unknown as u:
            have = "<%s>" % u
        if have != want and bad_parse is None:
            bad_parse = "`%s` parses to %s, the text says %s" % (text, have, want)
        if have == want and not any(x[0] == "ref" for x in want):          # (reduce() is only defined once the references are resolved)
            ev = mk()
            rr = ev.run_fn(red, [got[2][0]])
            if isinstance(rr, str):
                return r, False, "%s in reduce() of %r" % (rr, text)
            after = ev.last_env.get("self")
            try:
                fl2 = []
                _flatten_value(after, fl2)
                have2 = _merge_lits(fl2)
            except absint.Unknown as u:
                have2 = "<%s>" % u
            if have2 != want and bad_reduce is None:
                bad_reduce = "`%s`: after reduce() the pieces are %s, before %s" % (text, have2, want)
            elif not _shape_ok(after) and bad_reduce is None:
                bad_reduce = "`%s`: reduce() leaves nested blocs / adjacent literals / empty strings: %s" % (text, absint.fmt(after)[:160])
    # the strings of a translation file reach the parser through the serde visitor: whichever string callback a file
    # format uses (serde_json / serde_yaml: visit_str, json5: visit_string, borrowed input: visit_borrowed_str) must
    # hand the text to the same parser
    B_ = lambda b: ("bool", b)  # noqa: E731
    cbs = [f for f in ast.fns if f.file.endswith(PV) and not f.is_test() and f.body is not None and "ParsedValueSeed" in (f.impl_self or "")
           and "Visitor" in (f.impl_trait or "") and f.name in ("visit_str", "visit_string", "visit_borrowed_str")]
    if not any(f.name == "visit_str" for f in cbs):
        r.missing("ParsedValueSeed::visit_str")
    sample = [tw for k, tw in enumerate(_gen_values(False)) if k % 3 == 0] + [("a < /b> b", None), ("x <b>y< /b> z", None), ("plain", None), ("", None),
                                                                                 # text with leading / trailing / only white space, line ends and tabs is the user's text too
                                                                                 ("line\n", None), ("\nline", None), ("  two  ", None), ("\n", None), (" ", None), ("a\r\n", None), ("\ttab\t", None),
                                                                                 ("{{ name }}\n", None), ("<b>x</b> ", None), ("\u00a0nbsp\u00a0", None), ("UPPER lower", None),
                                                                                 # references and nothing else to interpolate
                                                                                 ("$t(site_name)", None), ("before $t(a.b) after", None), ("$t(ns:key)", None)]
    for cb in cbs:
        bad_cb = None
        m = 0
        for text, want in sample:
            seed = CF("ParsedValueSeed", top_locale_name=A("locale"), in_range=B_(False), key_path=A("key_path"), key=A("key"), foreign_keys_paths=A("fkp"))
            ev = mk()
            ev.opaque_paths = re.compile(r"Error::custom$")
            got = ev.run_fn(cb, [seed, S(text)])
            ref = mk().run_fn(new, [S(text), A("key_path"), A("locale"), A("fkp")])
            if isinstance(got, str) or isinstance(ref, str):
                return r, False, "%s on %r (visitor callback %s)" % (got if isinstance(got, str) else ref, text, cb.name)
            m += 1
            same_ = got == ref or (got[0] == "ctor" and ref[0] == "ctor" and got[1] == ref[1] == "Err")
            if not same_ and bad_cb is None:
                bad_cb = "the string `%s` delivered through %s becomes %s, through the parser %s" % (text, cb.name, absint.fmt(got)[:200], absint.fmt(ref)[:200])
        if bad_cb:
            r.viol("R0:ParsedValueSeed::%s#same-parser" % cb.name, bad_cb, file=PV, line=cb.line)
        else:
            r.inst("ParsedValueSeed::" + cb.name, "%d strings: the callback hands the text to ParsedValue::new unchanged (the value is the parser's)" % m)
    if bad_parse:
        r.viol("R0:ParsedValue::new#pieces", bad_parse, file=PV, line=new.line)
    else:
        r.inst("ParsedValue::new", "%d generated strings (literals incl. multibyte text and lone `>`/braces, 3 variable spellings, components with whitespace in tags, nesting to depth 3 incl. same-name): pieces in order, nothing lost" % n)
    if bad_reduce:
        r.viol("R0:ParsedValue::reduce#pieces", bad_reduce, file=PV, line=red.line)
    elif not bad_parse:
        r.inst("ParsedValue::reduce", "same strings: reduce() keeps the rendering, joins adjacent literals, flattens nested blocs, drops empty strings")
    return r, True, None


def run(ctx):
    from rules import offsets
    import os
    r0, ok, why = r0_parse(ctx)
    if not ok and not r0.violations:
        r0.inst("evaluation not available", "the parser could not be evaluated abstractly (%s): the tiling analysis (R1/R2) and the structural reducer rule (R3) decide alone" % str(why)[:160])
        r0.viol("R0:undecided", "the evaluation cannot interpret the current code (%s): the clauses it decides are NOT decided on this tree; the structural rules reported alongside only cover part of them (fail closed)" % str(why)[:300])
        r0.floor = 1
    rules = [r0, offsets.rule_partition(ctx)]
    if not ok or os.environ.get("VERIF_FORCE_FALLBACK"):
        rules.append(r3_append(ctx))
    else:
        rules.append(r3_join(ctx))
    # the text of a literal is read through its index in its own locale's table: the indexing clauses of C11 (one fresh indexer
    # per locale, a literal's index written only from push_str, everything rendered is indexed; decided by rules/c11.py)
    from rules import c11
    from rules.common import borrow
    prog = ctx.mir("main")
    r7 = Rule("C01.R7", "a literal's index points at its own text in its own locale's table",
              "`nothing is ... taken from another key, subkey group, namespace or locale`: the generated accessor reads `table[index]`; an index "
              "handed out against another locale's table, or a table missing a string, shows the text of another key", floor=12)
    for k in (c11.r1_indexer(ctx, prog), c11.r2_single_writer(ctx, prog), c11.r3_traversal(ctx, prog), c11.r4_subkey_push(ctx)):
        b = borrow(k, "C01.R7", r7.title, r7.reason)
        r7.instances += b.instances
        r7.violations += b.violations
    # the t! family: the generated call must hand each supplied value to the setter of its own key
    from rules import tmacro, absint as _absint
    r8 = Rule("C01.R8", "t!/td!/tu!: every supplied value reaches the setter of its own key",
              "`every {{ var }} replaced by the supplied value, every <tag> replaced by the supplied component`: the macro binds the caller's "
              "argument expressions and passes them to the builder; a binding order in which one argument's expression sees another argument's "
              "key already rebound (`a = b, b = a`) renders a different value than the one supplied", floor=1)
    try:
        tmacro.check(ctx, r8, rid="R8")
    except _absint.Unknown as u:
        r8.viol("R8:undecided", "t_macro_inner cannot be interpreted on the current code (%s): not decided on this tree (fail closed)" % str(u)[:300])
    # `$t(key, {args})`: the values written in the source replace the variables of the referenced value (also through a chain
    # of references): the substitution clause of C06.R0 (rules/fkeval.py)
    from rules import c06, c03
    k0, _ok, _why = c06.r0_substitution(ctx)
    r9 = borrow(k0, "C01.R9", "arguments written in `$t(key, {..})` replace the variables of the referenced value",
                "`every {{ var }} replaced by the supplied value`: for a foreign key the supplied value is the one written in the translation source; "
                "substitution that stops at a nested reference leaves the variable in place and loses the written value", only=r"populate", floor=1)
    # the text comes from the key's own locale whenever that locale has a value - the empty string included; only an absent
    # or null key falls back: Locale::merge evaluated on concrete values (rules/localemerge.py, shared with C03.R2)
    r10 = borrow(c03.r2_recording(ctx, prog), "C01.R10", "a locale's own value is kept by the merge, the empty string included",
                 "`the text is exactly the translation written for that key in the effective locale; nothing is ... taken from another locale`: a merge "
                 "that treats some written values (e.g. \"\") as untranslated renders another locale's text", only=r"Locale::merge", floor=1)
    # every kind of value a file can hold reaches the renderer as that kind (a float stays the float written, a map is a group,
    # null the explicit default): the value visitor evaluated callback by callback (rules/c07.py R6)
    from rules import c07
    r11 = borrow(c07.r6_value_kinds(ctx), "C01.R11", "a file value is read as the kind of value it is written as",
                 "`literal text verbatim`: a number is rendered from the value the visitor stores; a whole float converted to an integer with a saturating "
                 "cast renders `18446744073709551615` for `1e20`", floor=9)
    return rules + [r4_emission(ctx), r5_pairing(ctx), r6_display(ctx), r7, r8, r9, r10, r11]


MANIFEST_ENTRY = {
    "technique": "static analysis: abstract evaluation (rules/absint.py, finite universe generated from the value grammar) of the string parser ParsedValue::new, of every string callback of the serde value visitor against it, and of reduce(), oracle = the pieces the string was generated from; symbolic byte-offset evaluation of the splitting functions (tiling, char boundaries); abstract evaluation of Literal::join / reduce_into; the two back-end generators of a value (view, Display) interpreted on 28 value trees x baked / dynamic_load and the code they produce read back into the pieces it renders (rules/gentext.py), incl. the tuple regrouping; the per-locale match arms of interpolated keys generated and read back (own table, own size, own value, nothing else); per-locale provenance check of the remaining generators; the indexing clauses of C11 (check_locales_inner evaluated with the real StringIndexer); abstract evaluation of the t! macro generator (t_macro_inner) with the generated `let` bindings read back by a scope interpreter (each supplied value reaches the setter of its own key, also for `a = b, b = a`); the substitution clause of C06.R0 and the Locale::merge clause of C03.R2 (a locale's own value, the empty string included, is kept); the value-visitor table of C07.R6 (a file value is read as the kind it is written as, floats included); reduce evaluated on values that reduce to nothing (empty string, never null) and on a component without content",
    "level_text": "Structural + finite abstract evaluation: the parser, the visitor callbacks and the reducer are interpreted on every string of a generated universe (literals incl. multibyte / lone delimiters, 3 variable spellings, components nested to depth 3 incl. same-name siblings with spaced tags) and must return exactly the generating pieces in order; the splitting functions are also evaluated symbolically for exact tiling; generators are shown to keep every piece in order and to read each literal from its own locale's table. No crate is built or run.",
    "level_note": "Trusted: std str search APIs return boundaries; quote!/leptos ordering. Not decided: delimiter pairing choice, HTML rendering. Known on this tree and decided by no clause (DESIGN 11.17, hunts/C01): td_display! forwards width / precision to every piece.",
}
