"""C01 Rendered text is exactly what the translation source says."""
import re

from report import Rule
from astlib import find_all, find_first, show, show_pat, quotes_in, tok_text, method_chain, callee_path, walk
from rules.common import ftrav, flat, flatp, has, same, xquotes

EXPLANATION = (
    "Static structural analysis of the parser's string splitting, the reducer and the code generators (syntax facts; a "
    "symbolic byte-offset evaluation of the splitting functions); nothing is executed. Decided clauses: (R1/R2) symbolic "
    "offset analysis of find_variable / find_foreign_key / find_component (+ helpers): the pieces (before, this, after) "
    "tile the input exactly - first piece starts at 0, last ends at the end, and the gaps are exactly the recognised "
    "delimiters / tag names / skipped whitespace - and every slicing offset is a character boundary produced by a "
    "search. (R3) literals are appended in order (`other` after `self`), blocs are flattened forward, only nulls, subkeys "
    "and empty strings are skipped. (R4) both code generators visit every kind of value in order, emit every collected "
    "piece, and large blocs are regrouped with forward, complete chunks. (R5) in every per-locale generator the value, the "
    "string table accessor and the table size come from the same locale as the match arm. (R6) Display components write "
    "open tag, children, close tag. NOT decided: which of several possible delimiter pairings is chosen, leptos' own HTML "
    "rendering, the typing of the generated Either wrappers (rustc checks that in the user's crate)."
)
ASSUMPTIONS = ["str::split_once/find/match_indices/char_indices return byte positions on character boundaries",
               "quote! repetitions emit all elements in order", "leptos renders tuple elements in order"]

PV = "leptos_i18n_parser/src/parse_locales/parsed_value.rs"
MV = "leptos_i18n_macro/src/load_locales/parsed_value.rs"
MU = "leptos_i18n_macro/src/utils/mod.rs"
ML = "leptos_i18n_macro/src/load_locales/mod.rs"
MI = "leptos_i18n_macro/src/load_locales/interpolate.rs"

BAD_ORDER = {"rev", "skip", "take", "filter", "filter_map", "step_by", "skip_while", "take_while", "chunks_exact", "rchunks", "windows", "dedup", "sort", "sort_by", "last", "nth"}


def r3_append(ctx):
    r = Rule("C01.R3", "adjacent literals are joined in order; blocs are flattened forward",
             "reduce() rewrites what the parser produced; appending in the wrong order or skipping a node changes the text",
             floor=8)
    ast = ctx.ast
    fn = ast.fn(PV, "join", impl_self="Literal")
    if fn is None:
        r.missing("Literal::join")
    else:
        m = find_first(fn.body, "Match")
        for a in (m or {"arms": []})["arms"]:
            p = show_pat(a["pat"])
            t = flatp(show(a["body"]))
            if p.startswith("Literal::String"):
                ok = t in ("s.push_str&other.to_string", "{s.push_str&other.to_string}")
                what = "s.push_str(&other.to_string())"
            else:
                v = re.findall(r"\((\w+)\)", p)
                v = v[0] if v else "v"
                ok = same(t, '{lets=format!"{}{}",%s,other;*self=Literal::Strings,usize::MAX}' % v)
                what = 'format!("{}{}", self_value, other)'
            if ok:
                r.inst("Literal::join#" + p.split("(")[0], what + " : other is appended after self")
            else:
                r.viol("R3:Literal::join#" + p.split("(")[0], "joining %s does not append `other` after `self`: %s" % (p, t[:100]), file=fn.file, line=a["line"])
        if not m or len(m["arms"]) != 5:
            r.viol("R3:Literal::join#arms", "Literal::join must handle the five literal kinds", file=fn.file, line=fn.line)
    fn = ast.fn(PV, "fmt", impl_self="Literal", impl_trait="Display")
    if fn is not None:
        m = find_first(fn.body, "Match")
        bad = [show_pat(a["pat"]) for a in (m or {"arms": []})["arms"] if not re.match(r"^Display::fmt(\w+),f$", flatp(show(a["body"])))]
        if bad:
            r.viol("R3:Literal::fmt", "Display for Literal does not print the carried value for %s" % bad, file=fn.file, line=fn.line)
        else:
            r.inst("Display for Literal", "prints the carried value of every kind")
    fn = ast.fn(PV, "reduce_into", impl_self="ParsedValue")
    if fn is None:
        r.missing("ParsedValue::reduce_into")
    else:
        t = flatp(show(fn.body))
        frags = {
            "skip-null": "ParsedValue::Default=>{}",
            "skip-subkeys": "ParsedValue::Subkeys_=>{}",
            "ranges-plurals": "mutplurals_like@ParsedValue::Ranges_|ParsedValue::Plurals_=>{plurals_like.reduce;bloc.pushplurals_like}",
            "foreign-key-inlined": "ParsedValue::ForeignKeyforeign_key=>{foreign_key.into_inner.into_inner\"reduce_into\".reduce_intobloc}",
            "literal": "ParsedValue::Literals=>{ifs.is_string.is_some_andstr::is_empty{}elseifletSomeParsedValue::Literallast=bloc.last_mut{last.join&s}else{bloc.pushParsedValue::Literals}}",
            "variable": "ParsedValue::Variable{key:key,formatter:formatter}=>{bloc.pushParsedValue::Variable{key:key,formatter:formatter}}",
            "component": "ParsedValue::Component{key:key,inner:mutinner}=>{inner.reduce;bloc.pushParsedValue::Component{key:key,inner:inner}}",
            "nested-bloc-forward": "ParsedValue::Blocinner=>{forvalueininner{value.reduce_intobloc}}",
        }
        for k, frag in frags.items():
            if has(t, frag):
                r.inst("reduce_into#" + k, frag[:80])
            else:
                r.viol("R3:reduce_into#" + k, "reduce_into changed for `%s`" % k, file=fn.file, line=fn.line)
    fn = ast.fn(PV, "reduce", impl_self="ParsedValue")
    if fn is not None:
        t = flatp(show(fn.body))
        frag = "ParsedValue::Blocvalues=>{forvalueinstd::mem::takevalues{value.reduce_intovalues}matchvalues.as_mut_slice{[]=>*self=ParsedValue::default;[one]=>*self=std::mem::takeone;_=>{}}}"
        if has(t, frag):
            r.inst("reduce#Bloc", "items re-added in order; [] -> empty string, [one] -> that item")
        else:
            r.viol("R3:reduce#Bloc", "reduce of a bloc changed", file=fn.file, line=fn.line)
        ftrav(r, "ParsedValue::reduce", fn, {
            "ForeignKey": (["reduce"], "resolved value is reduced and inlined"),
            "Ranges": (["reduce", "try_for_each_value_mut"], "every branch"),
            "Component": (["reduce"], "children"),
            "Subkeys": (["reduce"], "every value of the group"),
            "Bloc": (["reduce_into"], "items"),
            "Plurals": (["reduce"], "forms and other"),
        })
    return r


def r4_emission(ctx):
    r = Rule("C01.R4", "both generators emit every piece, in order",
             "the generated view / Display impl is the concatenation of the collected pieces; a skipped kind, a reversed "
             "iteration or an incomplete regrouping drops or reorders text", floor=20)
    ast = ctx.ast
    for name, delegates in (("flatten", {"Ranges": ["to_token_stream"], "Plurals": ["to_token_stream"], "Component": ["to_token_stream"], "Variable": ["var_to_view"]}),
                            ("flatten_string", {"Ranges": ["as_string_impl"], "Plurals": ["as_string_impl"], "Component": ["as_string_impl"], "Variable": ["var_fmt"]})):
        fn = ast.fn(MV, name)
        spec = {
            "Literal": (["to_token_stream"], "the literal itself"),
            "Bloc": ([name], "items in order"),
            "ForeignKey": ([name], "resolved value"),
            "Default": (None, "never rendered (unreachable!)"), "Subkeys": (None, "never rendered (unreachable!)"),
        }
        for k, v in delegates.items():
            spec[k] = (v, "delegated generator")
        ftrav(r, "macro parsed_value::" + name, fn, spec)
        if fn is None:
            continue
        _, arms, wild = __import__("rules.common", fromlist=["pv_arms"]).pv_arms(fn)
        if wild is not None:
            r.viol("R4:%s#wildcard" % name, "%s has a catch-all arm: a new kind of value would silently render nothing" % name, file=fn.file, line=fn.line)
        t = flatp(show(fn.body))
        if has(t, "ParsedValue::Blocvalues=>{forvalueinvalues{%svalue,tokens,locale_field,strings_count}}" % name):
            r.inst(name + "#Bloc", "for value in values { %s(value, tokens, ..) } : forward, same token list" % name)
        else:
            r.viol("R4:%s#Bloc" % name, "bloc items are not emitted forward into the same token list", file=fn.file, line=fn.line)
        pushes = len([c for c in find_all(fn.body, "MethodCall") if c["method"] == "push" and show(c["receiver"]) == "tokens"])
        r.inst(name + "#pushes", "%d tokens.push(..) sites" % pushes)
        if pushes < 5:
            r.viol("R4:%s#pushes" % name, "only %d kinds push a piece (Literal, Ranges, Variable, Component, Plurals expected)" % pushes, file=fn.file, line=fn.line)
    for name, empty, many in (("to_token_stream", 'quote!("")', "fit_in_leptos_tuple(values)"), ("as_string_impl", "quote!(Ok(()))", None)):
        cands = [f for f in ast.fns_named(MV, name) if f.impl_self is None]
        fn = cands[0] if cands else None
        if fn is None:
            r.missing("macro parsed_value::" + name)
            continue
        t = flatp(show(fn.body))
        m = find_first(fn.body, "Match")
        arms = {flat(show_pat(a["pat"])): a for a in (m or {"arms": []})["arms"]}
        ok = "[]" in arms and "[value]" in arms and "values" in arms and flatp(show(arms["[value]"]["body"])) == "std::mem::takevalue"
        if many:
            ok = ok and flatp(show(arms["values"]["body"])) == flatp(many)
        else:
            qs = [flat(tok_text(q["tokens"])) for q in xquotes(arms["values"]["body"])] if "values" in arms else []
            ok = ok and qs == ["{#(#values?;)*Ok(())}"]
        flatten_call = "flatten" + ("_string" if name == "as_string_impl" else "")
        ok = ok and has(t, "%sthis,&muttokens,&locale_field,strings_count;match&muttokens[..]{" % flatten_call)
        if ok:
            r.inst("macro parsed_value::" + name, "0 pieces -> empty, 1 -> itself, n -> all of them in order")
        else:
            r.viol("R4:parsed_value::" + name, "not all collected pieces are emitted: %s" % t[-200:], file=fn.file, line=fn.line)
    fn = ast.fn(MU, "fit_in_leptos_tuple")
    if fn is None:
        r.missing("fit_in_leptos_tuple")
    else:
        # symbolic evaluation (rules/absint.py) on 3, 26, 27, 60 and 700 pieces: every piece must appear exactly once, in order,
        # in tuples of at most 26 elements
        from rules import absint
        from rules.absint import AEval, L, TOK
        funcs = {"fit_in_leptos_tuple": fn}
        bad = []
        for n in (0, 1, 3, 26, 27, 60, 700):
            v = AEval(funcs=funcs).run_fn(fn, [L(*[TOK("v%d" % k) for k in range(n)])])
            if isinstance(v, str) or v[0] != "tok":
                bad.append((n, v if isinstance(v, str) else absint.fmt(v)))
                continue
            txt = re.sub(r"\s+", "", v[1])
            seq = re.findall(r"v\d+", txt)
            # tuple arities: count elements at each nesting level
            depth = 0
            counts = []
            stack = []
            ok_arity = True
            for ch in txt:
                if ch == "(":
                    stack.append(0)
                elif ch == ")":
                    c = stack.pop()
                    if c > 26:
                        ok_arity = False
                elif ch == "," and stack:
                    stack[-1] += 1
            if seq != ["v%d" % k for k in range(n)] or not ok_arity or stack:
                bad.append((n, "pieces %s.. arity-ok=%s" % (seq[:8], ok_arity)))
        if not bad:
            r.inst("fit_in_leptos_tuple", "for 0..700 pieces: every piece exactly once, in order, in (nested) tuples of at most 26 elements")
        else:
            r.viol("R4:fit_in_leptos_tuple", "large blocs are not regrouped with forward, complete chunks: %s: trailing or reordered pieces are lost" % bad[:3], file=fn.file, line=fn.line)
    return r


def locale_closures(fn):
    """closures whose single parameter is named `locale` (per-locale generators)"""
    out = []
    for c in find_all(fn.body, "Closure"):
        if len(c["inputs"]) == 1:
            p = c["inputs"][0]
            if p["k"] == "PIdent" and p["name"] == "locale":
                out.append(c)
            elif p["k"] == "PTuple" and any(e.get("k") == "PIdent" and e.get("name") == "locale" for e in p["elems"]):
                out.append(c)
    return out


def r5_pairing(ctx):
    r = Rule("C01.R5", "per-locale generators take value, string table and table size from the arm's own locale",
             "`nothing is taken from another locale`: the arm for locale X must render X's value with X's string table", floor=6)
    ast = ctx.ast
    targets = [(ML, "create_locale_type_inner", None), (MI, "create_locale_impl", "Interpolation"), (MI, "create_locale_string_impl", "Interpolation"), (MI, "display_impl", "Interpolation")]
    fields = ("top_locale_name", "top_locale_string_count", "keys", "strings", "name")
    for f, name, ty in targets:
        fn = ast.fn(f, name, impl_self=ty)
        if fn is None:
            r.missing(name)
            continue
        cls = locale_closures(fn)
        if not cls:
            r.viol("R5:%s#closures" % name, "no per-locale closure `|locale| ..` found", file=fn.file, line=fn.line)
            continue
        n = 0
        for c in cls:
            for node in find_all(c["body"], "Field"):
                if node["member"] in fields:
                    base = show(node["base"])
                    owner = base.split(".")[0].lstrip("&*")
                    if node["member"] in ("keys", "strings", "top_locale_string_count", "top_locale_name") and base not in ("locale", "locale.top_locale_name", "locale.name"):
                        # nested closures over defaulted locales only build `| Enum::key` alternatives
                        r.viol("R5:%s#foreign-%s" % (name, node["member"]), "inside the per-locale closure `%s.%s` is read from `%s`, not from the arm's locale" % (base, node["member"], base), file=fn.file, line=node["line"])
                    else:
                        n += 1
            for call in find_all(c["body"], "Call"):
                if (callee_path(call) or "") == "strings_accessor_method_name":
                    a = show(call["args"][0])
                    if a != "locale":
                        r.viol("R5:%s#accessor" % name, "string table accessor is taken from `%s`" % a, file=fn.file, line=call["line"])
                    else:
                        n += 1
                if (callee_path(call) or "").endswith(("parsed_value::to_token_stream", "parsed_value::as_string_impl")):
                    args = [show(x) for x in call["args"]]
                    if args[1:] != ["locale.top_locale_string_count"]:
                        r.viol("R5:%s#strings_count" % name, "value is rendered with table size `%s`" % args[1:], file=fn.file, line=call["line"])
                    else:
                        n += 1
        r.inst(name, "%d per-locale closure(s), %d locale-derived reads, all from the closure's own `locale`" % (len(cls), n))
    # value lookup: locale.keys.get(key)
    for f, name, ty, label in [(ML, "create_locale_type_inner", None, "create_locale_type_inner_1"), (MI, "create_locale_impl", "Interpolation", "create_locale_impl_1"), (MI, "create_locale_string_impl", "Interpolation", "create_locale_string_impl_1")]:
        fn = ast.fn(f, name, impl_self=ty)
        t = flatp(show(fn.body)) if fn else ""
        if has(t, 'locale.keys.getkey.unwrap_at"%s"' % label):
            r.inst(name + "#value", "locale.keys.get(key): this key, this locale")
        else:
            r.viol("R5:%s#value" % name, "the rendered value is not `locale.keys.get(key)`", file=f)
    return r


def r6_display(ctx):
    r = Rule("C01.R6", "Display components write open tag, children, close tag",
             "t_string!/t_display! render `<tag>children</tag>` through these impls", floor=3)
    ast = ctx.ast
    f = "leptos_i18n/src/display.rs"
    fns = [x for x in ast.fns if x.file.endswith(f) and x.name == "fmt" and x.impl_trait and "DisplayComponent" in x.impl_trait]
    seen = {}
    for fn in fns:
        seen[fn.impl_self] = flatp(show(fn.body))
    want = {"&str": '{write!f,"<{}>",self?;childrenf?;write!f,"</{}>",self}', "String": "{self.as_str.fmtf,children}", "F": "{selff,&children}"}
    for ty, w in want.items():
        if seen.get(ty) is None:
            r.missing("DisplayComponent for " + ty)
        elif not same(seen[ty], w):
            r.viol("R6:DisplayComponent for " + ty, "is `%s`, expected `%s`" % (seen[ty], w), file=f)
        else:
            r.inst("DisplayComponent for " + ty, w)
    fn = ast.fn(MV, "flatten_string")
    if fn is not None:
        qs = [flat(tok_text(q["tokens"])) for q in xquotes(fn.body)]
        mm = [re.match(r"^l_i18n_crate::display::DisplayComponent::fmt\(#key,__formatter,\|__formatter\|#(\w+)\)$", q) for q in qs]
        mm = [m for m in mm if m]
        src_ok = False
        if mm:
            for l in find_all(fn.body, "Let"):
                if l["pat"]["k"] == "PIdent" and l["pat"]["name"] == mm[0].group(1) and "init" in l and flat(show(l["init"])).startswith("as_string_impl(inner,"):
                    src_ok = True
        if mm and src_ok:
            r.inst("flatten_string#Component", "DisplayComponent::fmt(key, f, |f| children)")
        else:
            r.viol("R6:flatten_string#Component", "string back-end does not render components through DisplayComponent::fmt(key, f, children)", file=fn.file, line=fn.line)
    return r


def run(ctx):
    from rules import offsets
    return [offsets.rule_partition(ctx), r3_append(ctx), r4_emission(ctx), r5_pairing(ctx), r6_display(ctx)]


MANIFEST_ENTRY = {
    "technique": "static analysis: symbolic byte-offset evaluation (linear-offset abstract domain over the syn tree) of the string-splitting functions for exact tiling and char-boundary safety; traversal-completeness and order checks of reducer and generators in canonical form (py/canon.py); abstract evaluation of the tuple-regrouping generator on 0..700 pieces (rules/absint.py); per-locale provenance check in generator closures",
    "level_text": "Structural: the splitting functions are evaluated symbolically (no concrete string) to show the pieces tile the input with only delimiters in the gaps; reducer and generators are shown to keep every piece in order and to pair each arm with its own locale's data. Which delimiters pair up for a concrete text is not decided.",
    "level_note": "Trusted: std str search APIs return boundaries; quote!/leptos ordering. Not decided: delimiter pairing choice, HTML rendering.",
}
