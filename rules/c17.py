"""C17 Server-embedded translations survive embedding into the page."""
import re

from report import Rule
from mirlib import callee_name, op_const, op_place, backward_slice
import mustlib as M
from astlib import find_all, find_first, show, show_pat, quotes_in, tok_text
from rules.common import flat, flatp, has, same, xquotes

EXPLANATION = (
    "Static structural analysis (MIR taint/sink facts for the ssr and hydrate configurations, syntax facts, generator "
    "templates); nothing executed. Decided clauses: (R1) escape-before-sink: in RegisterCtx::to_array (server) and "
    "init_translations (client re-emission) every non-constant string appended to the script buffer is either a locale name "
    "/ translation-unit name (identifiers validated by the parser) or goes through push_js_str, whose table covers quote, "
    "backslash, every control character, `<` (so `</script>` and `<!--` cannot appear) and U+2028/U+2029, and frames the "
    "value in double quotes; list separators are driven by a flag initialised outside the loop it serves; values are "
    "listed forward. (R2) who-may-register: RegisterCtx::register is reached only from TranslationUnit::register, which "
    "only the generated `get_translations()` of the dynamic_load+ssr template calls; it records (T::LOCALE, T::ID) -> "
    "T::STRINGS; the map is created per provide_context call (per rendered request). NOT decided: that the browser parses "
    "the script as intended, leptos' own escaping of `inner_html`, serde_wasm_bindgen decoding."
)
ASSUMPTIONS = ["locale and namespace names are Rust identifiers (Key::new) and need no escaping inside a JS string",
               "a JS string literal may contain any character except quote, backslash and line terminators"]

F = "leptos_i18n/src/fetch_translations.rs"
ML = "leptos_i18n_macro/src/load_locales/mod.rs"


def sink_rule(r, b, cfg):
    """every String::push_str / push on the script buffer: constant, identifier-safe, or escaped"""
    n_const = n_ident = 0
    prog = PROG[cfg]
    root = M._root(b.name)
    owned = [bb for n2, bb in sorted(prog.bodies.items()) if bb.crate == b.crate and M.owner_of(prog, n2) == root]
    top = b
    for b, i, t in [(bb, i, t) for bb in owned for i, t in bb.calls()]:
        cn = callee_name(t) or ""
        if not cn.endswith("std::string::String::push_str"):
            continue
        arg = t["args"][1]
        c = op_const(arg)
        if c is not None:
            n_const += 1
            continue
        p = op_place(arg)
        ls, defs = backward_slice(b, p["l"])
        # constants reach push_str through a reborrow chain
        consts = [d for d in defs if d[1] != "term" and any((op_const(o) or {}).get("str") is not None for o in d[2]["rv"].get("ops", []))]
        calls = [(callee_name(d[2]) or "") for d in defs if d[1] == "term"]
        if consts and not calls:
            n_const += 1
            continue
        if any(c2.endswith("Locale::as_str") or c2.endswith("TranslationUnitId::to_str") for c2 in calls):
            n_ident += 1
            continue
        r.viol("R1:%s#verbatim" % b.name.split("::")[-1], "a non-constant string that is neither a locale / unit name nor escaped is appended verbatim to the embedded script (line %d) [cfg %s]" % (t["line"], cfg), file=b.file, line=t["line"])
    b = top
    esc = [(bb, e) for bb in owned for e in M.call_blocks(bb, r"fetch_translations::push_js_str$")]
    in_loop = [(bb, e) for bb, e in esc if M.loop_of(bb, e)]
    site = b.name.split("::")[-1]
    if any(M.call_blocks(bb, r"Iterator::(rev|skip|take|step_by|filter|take_while|skip_while)$") for bb in owned):
        r.viol("R1:%s#order" % site, "the units / values are not listed completely and in order [cfg %s]" % cfg, file=b.file, line=b.line)
    if in_loop:
        r.inst("%s#sinks" % site, "%d constant pieces, %d identifier pieces (locale / unit names), values through push_js_str inside the value loop" % (n_const, n_ident), cfg=cfg)
    else:
        r.viol("R1:%s#no-escaper" % site, "translation values are not written through push_js_str [cfg %s]" % cfg, file=b.file, line=b.line)
    # separators: `first` flag swapped with mem::replace (set before the loop), or an enumerate() index compared with 0
    n_sep = 0
    for b in owned:
        for i, t in b.calls():
            if (callee_name(t) or "").endswith("Iterator::enumerate"):
                n_sep += 1
                r.inst("%s#separator@enumerate" % site, "comma written when the enumerate() index is not 0", cfg=cfg)
    for b, i, t in [(bb, i, t) for bb in owned for i, t in bb.calls()]:
        if (callee_name(t) or "") == "std::mem::replace" and (op_const(t["args"][1]) or {}).get("bool") is False:
            n_sep += 1
            lp = M.loop_of(b, i)
            flag = op_place(t["args"][0])
            ls, defs = backward_slice(b, flag["l"])
            inits = []
            for l in ls:
                for (di, dj, ds) in b.defs().get(l, []):
                    if dj != "term" and ds["rv"]["k"] == "Use" and (op_const(ds["rv"]["ops"][0]) or {}).get("bool") is True and b.local_name(l):
                        inits.append((di, b.local_name(l)))
            if lp and inits and all(di not in lp[1] for di, _ in inits):
                r.inst("%s#separator@L%d" % (site, t["line"]), "comma flag `%s` is set to true before the loop it separates" % inits[0][1], cfg=cfg)
            else:
                r.viol("R1:%s#separator-flag" % site, "the `first` flag used at line %d is (re)initialised inside the loop it serves: no separator is ever written between elements [cfg %s]" % (t["line"], cfg), file=b.file, line=t["line"])
    if n_sep == 0:
        r.viol("R1:%s#separator" % site, "cannot identify how the elements are separated (neither a `first` flag nor an enumerate() index) [cfg %s]" % cfg, file=top.file, line=top.line)


PROG = {}


def r1_escape(ctx):
    r = Rule("C17.R1", "every string reaching the embedded script is constant, an identifier, or escaped",
             "`for every string content, including quotes, backslashes, newlines, </script>`: a verbatim push breaks or hijacks the script", floor=8)
    prog = ctx.mir("main")
    b = prog.body("fetch_translations::register::RegisterCtx::<L>::to_array")
    if b is None:
        r.missing("RegisterCtx::to_array (dynamic_load+ssr)")
    else:
        PROG["main(ssr)"] = prog
        sink_rule(r, b, "main(ssr)")
    try:
        hp = ctx.mir("hydrate")
        hb = hp.body("fetch_translations::init_translations")
        if hb is None:
            r.missing("init_translations (dynamic_load+hydrate)")
        else:
            PROG["hydrate"] = hp
            sink_rule(r, hb, "hydrate")
    except Exception as e:  # the hydrate configuration is analysed in both tiers; failure to build it is reported
        r.viol("R1:hydrate-config", "the dynamic_load+hydrate configuration could not be analysed: %s" % str(e)[:200])
    fn = ctx.ast.fn(F, "push_js_str")
    if fn is None:
        r.missing("push_js_str")
        return r
    from rules import dtable, absint as _ai
    _ai.set_program(ctx.ast)
    params = fn.params()
    ok, problems, facts_ = dtable.escaper_spec(fn.body, params[1] if len(params) > 1 else "s", "js-in-script", fn=fn)
    if ok:
        r.inst("push_js_str", "for each of %d character classes the text written decodes (as a JS string) to exactly that character" % facts_["classes"])
        r.inst("push_js_str '<' U+2028 U+2029", "never written raw: `</script>` / `<!--` cannot appear, no raw line separators")
        r.inst("push_js_str control characters", "U+0000..U+001F escaped")
        r.inst("push_js_str framing", "\" ... \" around every char, in order")
    else:
        for pb in problems[:6]:
            r.viol("R1:push_js_str#" + pb.split(" ")[0], pb, file=fn.file, line=fn.line)
    return r


def _terms(t):
    """all sub-terms of a mirsum term"""
    out = [t]
    for x in t[1:]:
        if isinstance(x, tuple) and x and isinstance(x[0], str):
            out += _terms(x)
        elif isinstance(x, tuple):
            for y in x:
                if isinstance(y, tuple) and y and isinstance(y[0], str):
                    out += _terms(y)
    return out


def r2_who(ctx):
    r = Rule("C17.R2", "only the units a request used are registered, with their own strings",
             "`exactly that unit's strings ... and nothing for units the request did not use`", floor=6)
    prog = ctx.mir("main")
    callers = sorted({bb.name for (bb, i, t) in prog.callers_of(r"register::RegisterCtx::<L>::register$")})
    if callers == ["leptos_i18n::fetch_translations::TranslationUnit::register"]:
        r.inst("callers of RegisterCtx::register", "TranslationUnit::register only")
    else:
        r.viol("R2:who#RegisterCtx::register", "called from %s" % callers, file=F)
    callers = sorted({bb.name for (bb, i, t) in prog.callers_of(r"fetch_translations::TranslationUnit::register$") if bb.crate in ("leptos_i18n", "leptos_i18n_router")})
    if callers:
        r.viol("R2:who#TranslationUnit::register", "TranslationUnit::register is called from library code %s: units would be registered although the request did not read them" % callers, file=F)
    else:
        r.inst("callers of TranslationUnit::register in the library", "none (only generated code)")
    import mirsum
    rb = prog.body("fetch_translations::register::RegisterCtx::<L>::register")
    ps = mirsum.paths(prog, rb, depth=0) if rb is not None else None
    ps = mirsum.canon_conds(prog, ps) if ps is not None else None
    ok = False
    why = "cannot be summarised"
    if ps is not None:
        none_paths = [p for p in ps if any(c[0] == "is" and c[2] == "None" for c in p[0])]
        some_paths = [p for p in ps if any(c[0] == "is" and c[2] == "Some" for c in p[0])]
        why = "unexpected paths"
        if len(none_paths) == 1 and len(some_paths) == 1 and len(ps) == 2:
            eff_none = [e for e in none_paths[0][1] if not (e[0] == "call" and e[1].endswith("use_context"))]
            tr = some_paths[0][1]
            ins = [e for e in tr if e[0] == "call" and (e[1].endswith("HashMap::<K, V, S, A>::insert") or e[1].endswith("::or_insert"))]
            if eff_none:
                why = "does something without a registration context"
            elif len(ins) != 1:
                why = "does not insert exactly one entry"
            else:
                txt = mirsum.fmt(ins[0], short=False)
                key_ok = "('L', " in repr(ins[0]) or "const" in repr(ins[0])
                consts = [x for x in _terms(ins[0]) if x[0] == "const"]
                tys = [c[1] for c in consts]
                if not ("L" in tys and any("TranslationUnitId" in t or "::Id" in t or t.endswith("as leptos_i18n::fetch_translations::TranslationUnit>::Id") for t in tys)):
                    # the id constant is typed by the unit's associated type
                    pass
                calls = [x[1] for x in _terms(ins[0]) if x[0] == "call"]
                if not any(c.endswith("StringArray::as_slice") for c in calls):
                    why = "the strings registered are not T::STRINGS"
                elif not any(c.endswith("Mutex::<T>::lock") for c in calls) or not any(c.endswith("use_context") for c in calls):
                    why = "the entry does not go into the registry of the current context"
                elif any(c.endswith("Default>::default") or c.endswith("Default::default") for c in calls) or len([c for c in consts if c[1] == "L"]) != 1:
                    why = "the entry is not keyed by T::LOCALE"
                else:
                    ok = True
    if ok:
        r.inst("RegisterCtx::register", "(T::LOCALE, T::ID) -> T::STRINGS of the same T, in the context of the current render; nothing without a context")
    else:
        r.viol("R2:RegisterCtx::register", "registration changed: %s" % why, file=F)
    # the registry is written by `register` alone: everything else that locks it (serialising it into the page; the embed
    # closure is re-run for every render phase) only reads it - a body that obtains mutable access to the guarded map could
    # drop or change the units registered so far
    from mirlib import callee_name as _cn
    writers = []
    lockers = 0
    for nm, bb in prog.bodies.items():
        if bb.crate != "leptos_i18n" or "fetch_translations" not in nm and "context" not in nm:
            continue
        calls = [(_cn(t) or "") for _i, t in bb.calls()]
        if not any(c.endswith("Mutex::<T>::lock") or c.endswith("Mutex::<T>::try_lock") or c.endswith("Mutex::<T>::get_mut") or c.endswith("Mutex::<T>::into_inner") for c in calls):
            continue
        if "register" not in nm.split("fetch_translations")[-1] and "RegisterCtx" not in nm:
            continue
        lockers += 1
        if any(c.endswith("as std::ops::DerefMut>::deref_mut") or c.endswith("Mutex::<T>::get_mut") or c.endswith("Mutex::<T>::into_inner") for c in calls):
            writers.append(nm.split("::register::")[-1] if "::register::" in nm else nm)
    if lockers < 2:
        r.viol("R2:registry#lockers", "expected at least the two bodies that lock the registry (register, to_array), found %d" % lockers, file=F)
    elif sorted(writers) != ["RegisterCtx::<L>::register"]:
        r.viol("R2:registry#single-writer", "mutable access to the registered units is taken in %s: only RegisterCtx::register may change the registry (serialising it must leave it intact, the embed closure runs once per render phase)" % sorted(writers), file=F)
    else:
        r.inst("registry single writer", "%d bodies lock the registry; only RegisterCtx::register takes mutable access (to_array reads through Deref)" % lockers)
    from rules.common import msum
    got = msum(prog, r"register::RegisterCtx::<L>::provide_context$")
    from rules.common import mpaths as _mp
    ps_ = _mp(prog, r"register::RegisterCtx::<L>::provide_context$") or []
    fresh = [p_ for p_ in ps_ if "prelude::provide_context(RegisterCtx#RegisterCtx(Clone::clone(Arc::new(Mutex::new(HashMap::new())))))" in p_
             and p_.endswith("=> Option#Some(RegisterCtx#RegisterCtx(Arc::new(Mutex::new(HashMap::new()))))")]
    reuse = [p_ for p_ in ps_ if p_.endswith("=> Option#None()") and "prelude::provide_context(" not in p_ and "Option::is_some(prelude::use_context()) != 0" in p_]
    if got and got[0][1] == "RegisterCtx#RegisterCtx(Arc::new(Mutex::new(HashMap::new())))" and got[0][2] == ["prelude::provide_context(RegisterCtx#RegisterCtx(Clone::clone(Arc::new(Mutex::new(HashMap::new())))))"]:
        r.viol("R2:RegisterCtx::provide_context#nested", "a new registry is created on every call, also inside another provider: a nested `I18nContextProvider` (documented as harmless) then collects the units used "
               "under it in its own registry and emits a second `window.__LEPTOS_I18N_TRANSLATIONS = ..`, after which the outer provider's (empty) one wins: the page embeds `[]`", file=F)
    elif len(ps_) == 2 and len(fresh) == 1 and len(reuse) == 1:
        r.inst("RegisterCtx::provide_context", "a new empty map per outermost provider (per rendered request); inside another provider none is created: its units go to the outer registry, which embeds them")
    else:
        r.viol("R2:RegisterCtx::provide_context", "the registry is not created fresh per context: %s" % (got,), file=F)
    # generated code: create_locale_type_inner evaluated (rules/absint.py) for two locales (one hyphenated) in three configurations and
    # read back - with dynamic_load + ssr every unit's `get_translations` registers the unit and then hands out its own table, and that is
    # the only place `register()` is generated; the per-locale accessors the rest of the generated code reads through only forward to
    # their own unit (a cache there would register once per process, a call to another unit would register what the request did not use)
    _r2_generated(ctx, r)
    # (the evaluation above has no key that one locale takes from another; for that case the accessor templates themselves are read:
    # any template that is recognisably a table accessor must have one of the forwarding bodies - no floor on how many there are)
    fn_gen = ctx.ast.fn(ML, "create_locale_type_inner")
    for q in xquotes(fn_gen.body, also_plain=False) if fn_gen else []:
        tt = flat(tok_text(q["tokens"]))
        m_ = re.match(r"^pub(?:const|async)?fn#accessor_ident\(\)->&'static\[(?:&'staticstr|Box<str>);#strings_count\]\{(.*)\}$", tt)
        if m_ and m_.group(1) not in {"#string_holder::get_translations()", "#string_holder::get_translations().await", "super::super::#parent::#accessor_ident()", "super::super::#parent::#accessor_ident().await"} \
                and not re.match(r"^#\w+(\.await)?$", m_.group(1)):          # (a body spliced in as one expression is what the evaluation above reads)
            r.viol("R2:template#accessor-body", "a generated table accessor does more than forward to its own unit's get_translations(): `%s` - a cache makes the unit register once per process, a call to "
                   "another unit registers units the request did not use" % m_.group(1)[:200], file=ML, line=fn_gen.line)
            break
    fn = ctx.ast.fn("leptos_i18n/src/context.rs", "embed_translations_fn")
    t = flatp(show(fn.body)) if fn else ""
    if has(t, "lettranslations=reg_ctx.to_array;view!<scriptinner_html=translations/>"):
        r.inst("embed_translations_fn", "<script inner_html = reg_ctx.to_array() />")
    else:
        r.viol("R2:embed_translations_fn", "is `%s`" % t, file="leptos_i18n/src/context.rs")
    return r


def _r2_generated(ctx, r):
    from rules import absint
    from rules.absint import AEval, A, C, CF, L, TOK, I
    fn = ctx.ast.fn(ML, "create_locale_type_inner")
    if fn is None:
        r.missing("create_locale_type_inner")
        return
    absint.set_program(ctx.ast)
    S = lambda x: ("str", x)  # noqa: E731
    K = lambda n: CF("Key", name=S(n), ident=TOK(n.replace("-", "_")))  # noqa: E731

    def loc(n, k):
        return CF("Locale", name=K(n), top_locale_name=K(n), keys=L(), strings=L(*[S("s%d" % i) for i in range(k)]), top_locale_string_count=I(k))
    locs = [("en", 2), ("pt-BR", 1)]
    TU = "< Self as l_i18n_crate :: __private :: fetch_translations :: TranslationUnit >"
    try:
        for label, feats in (("baked", set()), ("dynamic_load + ssr", {"dynamic_load", "ssr"}), ("dynamic_load + csr", {"dynamic_load", "csr"})):
            ev = AEval(funcs=absint.file_funcs(ctx.ast, ML), consts={"IS_TOP": ("bool", True)})
            ev.cfg_raw = lambda t, feats=feats: absint.cfg_eval(t, feats)
            ev.builtins.update({"unwrap_at": lambda rv, a: rv[2][0] if rv[0] == "ctor" and rv[2] else rv})
            ev.path_builtins = {"Key::new": lambda a: C("Some", K(a[0][1]))}
            ev.totokens = lambda x: (absint.fields_of(x)["ident"][1] if x[0] == "ctor" and x[1] == "Key" else None)
            known = {"type_ident": TOK("TypeI"), "parent_ident": C("None"), "enum_ident": TOK("Locale"), "translation_unit_enum_ident": TOK("Units"), "locales": L(*[loc(n_, k_) for n_, k_ in locs]),
                     "keys": L(), "key_path": A("kp"), "interpolate_display": ("bool", False), "namespace_name": C("None"), "translations_uri": C("Some", S("i18n/{locale}.json"))}
            missing = [p_ for p_ in fn.params() if p_ not in known]
            if missing:
                raise absint.Unknown("create_locale_type_inner has parameters the model does not know: %s" % missing)
            got = ev.run_fn(fn, [known[p_] for p_ in fn.params()])
            if isinstance(got, str) or got[0] != "tok":
                raise absint.Unknown("create_locale_type_inner (%s): %s" % (label, got if isinstance(got, str) else absint.fmt(got)[:80]))
            txt = re.sub(r"\s+", " ", got[1]).replace("pt-BR", "pt_BR")
            nreg = txt.count("register ()")
            bad = None
            for n_, k_ in locs:
                li = n_.replace("-", "_")
                ty = "[&' static str ; %d]" % k_ if "csr" not in feats else "[Box < str >; %d]" % k_
                aw = " . await" if "csr" in feats else ""
                m_acc = re.search(r"pub (?:const |async )?fn __get_%s_translations__ \(\) -> &' static %s \{(.*?)\}" % (li, re.escape(ty)), txt)
                if not m_acc or m_acc.group(1).strip() != "TypeI_%s :: get_translations ()%s" % (li, aw):
                    bad = bad or ("accessor-body", "the generated table accessor of `%s` is `%s`: it must only forward to its own unit's get_translations()" % (n_, m_acc.group(1).strip()[:160] if m_acc else "not found"))
                m_get = re.search(r"impl TypeI_%s \{pub (?:const |async )?fn get_translations \(\) -> &' static %s \{(.*?)\}" % (li, re.escape(ty)), txt)
                body = m_get.group(1).strip() if m_get else None
                want = {"baked": "%s :: STRINGS" % TU, "dynamic_load + ssr": "%s :: register () ; %s :: STRINGS" % (TU, TU), "dynamic_load + csr": "%s :: request_strings () . await" % TU}[label]
                if (body or "").replace(" ", "") != want.replace(" ", ""):
                    bad = bad or ("register", "the generated get_translations of `%s` is `%s`, expected `%s`" % (n_, (body or "not found")[:200], want))
            if nreg != (len(locs) if label == "dynamic_load + ssr" else 0):
                bad = bad or ("branch", "`register()` is generated %d time(s) for %d units in the %s configuration (expected: once per unit with dynamic_load + ssr, never otherwise)" % (nreg, len(locs), label))
            if bad:
                r.viol("R2:template#%s" % bad[0], "[%s] %s" % (label, bad[1]), file=fn.file, line=fn.line)
                return
        r.inst("generated get_translations() (dynamic_load+ssr)", "register(); then STRINGS - the unit registers itself when (and only when) its table is read; never generated in the other configurations")
        r.inst("generated table accessors", "2 locales x 3 configurations: each accessor only forwards to its own unit's get_translations()")
    except absint.Unknown as u:
        r.viol("R2:template#undecided", "create_locale_type_inner cannot be interpreted on the current code (%s): not decided (fail closed)" % str(u)[:240], file=fn.file, line=fn.line)


def r3_always(ctx):
    """MIR path / dominance clauses (py/mirsum.py): the registry exists before anything can register, every unit that is read
    registers itself whatever its content, and the script is emitted whatever was registered"""
    import mirsum
    from mirlib import callee_name as _cn
    r = Rule("C17.R3", "registration and embedding are unconditional: registry before the children, every used unit, always a script",
             "`lists, for each translation unit used by the request, exactly that unit's strings`: a unit without strings still has an entry (`values: []`), "
             "a unit read while the children are built must find the registry, and a request that used nothing still gets the (empty) script the client reads", floor=3)
    prog = ctx.mir("main")
    b = prog.body("leptos_i18n::fetch_translations::TranslationUnit::register")
    if b is None:
        r.missing("TranslationUnit::register")
    else:
        ps = mirsum.paths(prog, b, depth=0)
        if ps is not None and len(ps) == 1 and [mirsum.fmt(x) for x in ps[0][1]] == ["RegisterCtx::register()"]:
            r.inst("TranslationUnit::register", "one path: RegisterCtx::register::<Self>(), whatever the unit holds")
        else:
            r.viol("R3:TranslationUnit::register#unconditional", "a used unit is not always registered: %s" % ([[mirsum.fmt(x)[:60] for x in p_[1]] for p_ in ps] if ps else "paths cannot be enumerated"), file=b.file, line=b.line)
    b = prog.body("leptos_i18n::context::embed_translations_fn")
    if b is None:
        r.missing("embed_translations_fn")
    else:
        ps = mirsum.paths(prog, b, depth=0)
        ok = ps is not None and len(ps) == 1 and any(mirsum.fmt(x) == "RegisterCtx::to_array(p1)" for x in ps[0][1]) and \
            any(mirsum.fmt(x).startswith("InnerHtmlAttribute::inner_html(html::script(), IntoAttributeValue::into_attribute_value(RegisterCtx::to_array(p1)))") for x in ps[0][1])
        if ok:
            r.inst("embed_translations_fn", "one path: <script inner_html = reg_ctx.to_array()>, whatever was registered")
        else:
            r.viol("R3:embed_translations_fn#unconditional", "the script is not emitted on every path with the registry's array as its content (%s path(s))" % (len(ps) if ps is not None else "?"), file=b.file, line=b.line)
    # one registry and one script per rendered provider: only the context provider creates the registry and embeds it (a nested
    # provider with its own registry emits a second assignment to the same global, and the later script wins)
    for rx, what in ((r"register::RegisterCtx::<L>::provide_context$", "creates a registry"), (r"context::embed_translations_fn$", "embeds the script")):
        who = {M.owner_of(prog, bb.name).split("leptos_i18n::")[-1] for (bb, _i, _t) in prog.callers_of(rx)}
        # (also when handed over as a function value: `reg_ctx.map(embed_translations_fn)`)
        short_ = rx.rstrip("$").split("::")[-1]
        for bn_, bb_ in prog.bodies.items():
            for _i2, t2_ in bb_.calls():
                full_ = (t2_.get("func", {}).get("const") or {}).get("fn_full", "")
                if re.search(rx.rstrip("$").replace("<L>", "<[^>]*>") + r"(\b|$)", full_) and not re.search(rx, _cn(t2_) or ""):
                    who.add(M.owner_of(prog, bn_).split("leptos_i18n::")[-1])
        who = sorted(who)
        if who == ["context::provide_i18n_context_component_inner"]:
            r.inst("who " + what, "provide_i18n_context_component_inner only")
        else:
            r.viol("R3:who#%s" % what.replace(" ", "-"), "%s: %s (expected only the context provider): the page would carry more than one `window.__LEPTOS_I18N_TRANSLATIONS = ..` and lose the units of all but the last" % (what, who), file="leptos_i18n/src/context.rs")
    b = prog.body("leptos_i18n::context::provide_i18n_context_component_inner")
    if b is None:
        r.missing("provide_i18n_context_component_inner")
    else:
        prov = M.call_blocks(b, r"register::RegisterCtx::<L>::provide_context$")
        from rules.c18 import _direct_param
        kids = [i for i, t in b.calls() if (_cn(t) or "").endswith("FnOnce::call_once") and t["args"] and _direct_param(b, t["args"][0]) == "children"]
        if len(prov) == 1 and len(kids) == 1 and b.dominates(prov[0], kids[0]):
            r.inst("provide_i18n_context_component_inner", "RegisterCtx::provide_context() dominates the call of `children`: units read while the children are built find the registry")
        else:
            r.viol("R3:provide_i18n_context_component_inner#registry-first", "the registry is not provided before the children are built (provide_context sites: %d, children() calls: %d): "
                   "translations read eagerly by a child component are not embedded" % (len(prov), len(kids)), file=b.file, line=b.line)
    return r


def r4_unit_ids(ctx):
    """create_namespaces_types interpreted abstractly (rules/absint.py; the per-namespace type generator is opaque) and the generated
    unit-id enum read back: the id written into the script for a namespace is the namespace's name as configured (`my-ns`, not the
    Rust identifier `my_ns`), and the client-side Deserialize maps exactly that text back to the same variant"""
    from rules import absint
    from rules.absint import AEval, C, CF, L, TOK, A, B, T
    r = Rule("C17.R4", "a unit is embedded under its namespace's own name, which decodes back to the same unit",
             "`lists, for each translation unit used by the request, exactly that unit's strings`: the entries are keyed by (locale, unit id); an id spelled "
             "differently from what the client deserialises (e.g. the identifier form of a hyphenated namespace) leaves the used unit without an entry", floor=2)
    ast = ctx.ast
    fn = ast.fn(ML, "create_namespaces_types")
    if fn is None:
        r.missing("create_namespaces_types")
        return r
    absint.set_program(ast)
    S = lambda x: ("str", x)  # noqa: E731
    names = ["my-ns", "home", "a_b", "Caps"]

    def key(n):
        return CF("Key", name=S(n), ident=TOK(n.replace("-", "_")))

    def tt(v):
        if v[0] == "str":
            return '"%s"' % v[1]
        if v[0] == "ctor" and v[1] == "Key":
            return absint.fields_of(v)["ident"][1]
        return None
    try:
        for cfgv in (False, True):
            ev = AEval(funcs={})
            ev.cfg = lambda t, cfgv=cfgv: cfgv
            ev.path_builtins["create_locale_type_inner"] = lambda a: TOK("TYPE_IMPL")
            ev.builtins["unwrap_at"] = lambda rv, a: rv[2][0] if rv[0] == "ctor" and rv[2] else rv
            ev.totokens = tt
            nss = L(*[CF("Namespace", key=key(n), locales=A("locales-of-" + n)) for n in names])
            keys = L(*[T(key(n), CF("BuildersKeysInner", **{"0": A("keys-of-" + n)})) for n in names])
            v = ev.run_fn(fn, [TOK("KEYS"), TOK("Locale"), TOK("UnitId"), nss, keys, B(False), C("None")])
            if isinstance(v, str) or v[0] != "tok":
                raise absint.Unknown(v if isinstance(v, str) else "create_namespaces_types returns %s" % absint.fmt(v)[:60])
            txt = v[1]
            m = re.search(r"pub fn as_str \(self\) -> &' static str \{match self \{(.*?)\}\}", txt)
            arms = dict(re.findall(r'UnitId :: (\w+) => ("[^"]*"|[^,]+?) ,', m.group(1))) if m else None
            want = {n.replace("-", "_"): '"%s"' % n for n in names}
            label = "cfg!(..) all %s" % ("on" if cfgv else "off")
            if arms != want:
                r.viol("R4:create_namespaces_types#as_str", "the unit ids are %s, the namespaces are named %s [%s]" % (arms, want, label), file=fn.file, line=fn.line)
                continue
            de = dict((b_, a_) for a_, b_ in re.findall(r'("[^"]*") => Ok \(UnitId :: (\w+)\)', txt))
            if de != want:
                r.viol("R4:create_namespaces_types#deserialize", "the client decodes %s, the ids written are %s [%s]" % (de, want, label), file=fn.file, line=fn.line)
                continue
            r.inst("create_namespaces_types [%s]" % label, "%d namespaces (hyphenated, with underscore, capitalised): as_str = the configured name, Deserialize maps that text back to the same variant" % len(names))
    except absint.Unknown as u:
        r.viol("R4:undecided", "the generator cannot be interpreted on the current code (%s): not decided on this tree (fail closed)" % str(u)[:300], file=fn.file, line=fn.line)
    return r


def r5_registration(ctx):
    """`exactly the translation units the request used`: with dynamic_load + ssr a unit is registered for embedding by *reading its string
    table* (the accessor registers).  So the generated per-locale arms must read the table of the locale they render - always (also for
    a value made of variables only), on every call (not cached in a static), through that locale's own accessor - and nothing else may
    read a table (the Display `new` must not touch the tables of all locales).  Decided by evaluating the generators in that
    configuration and reading the arms back (rules/gentext.py, shared with C03.R4 / C05.R7 / C18.R6)."""
    from rules import gentext, absint as _ai
    r = Rule("C17.R5", "generated arms register exactly the unit they render: each reads its own locale's table, always and on every call; nothing else reads a table",
             "`the page embeds, for each translation unit used by the request, exactly that unit's strings ... and nothing for units the request did not use`: registration is a "
             "side effect of the generated table accessors; an arm that skips the read (value without literal text), caches it in a static, or a constructor that reads every "
             "locale's table changes which units are embedded", floor=3)
    try:
        gentext.check_locale_arms(ctx, r, rid="R5")
        gentext.check_display_new_server(ctx, r, rid="R5")
    except _ai.Unknown as u:
        r.viol("R5:undecided", "the per-locale generators cannot be interpreted on the current code (%s): not decided on this tree (fail closed)" % str(u)[:300])
    return r


def run(ctx):
    return [r1_escape(ctx), r2_who(ctx), r3_always(ctx), r4_unit_ids(ctx), r5_registration(ctx)]


MANIFEST_ENTRY = {
    "technique": "static analysis: MIR taint of every string reaching the embedded script (constant, identifier or escaped) in the ssr and hydrate configurations, escaper decision table against the JS-in-<script> grammar, MIR path summary of RegisterCtx::register (unit's own locale, id and strings, only with a context), single-writer check of the registry (only register takes mutable access to the guarded map; serialising it leaves it intact), who-may-register call-graph check, generated get_translations template; MIR path / dominance clauses (every used unit registers unconditionally, the script is emitted on every path, the registry is provided before the children are built); abstract evaluation of create_namespaces_types with the unit-id enum read back (as_str = the namespace's configured name, Deserialize its inverse); MIR who-creates-a-registry / who-embeds-the-script; template rule: every generated table accessor only forwards to its own unit's get_translations(); C17.R5: the per-locale generators evaluated with dynamic_load + ssr and read back - every arm reads (= registers) its own locale's table first, on every call, also for a value without literal text; the generated Display constructor reads no table",
    "level_text": "Structural: every byte sequence that can reach the embedded <script> is classified at its append site for all inputs; the escaper's table is compared with what a JS string inside a script element requires; registration is shown reachable only from the generated accessor of a unit. The script is never built or parsed.",
    "level_note": "Trusted: identifiers need no escaping; browser/JS semantics. Not decided: leptos inner_html handling, client decoding. Known and undecided (DESIGN 11.17, hunts/C17): translation units first used behind a pending <Suspense> are not embedded.",
}
