"""C17 Server-embedded translations survive embedding into the page."""
import re

from report import Rule
from mirlib import callee_name, op_const, op_place, backward_slice
import mustlib as M
from astlib import find_all, find_first, show, show_pat, quotes_in, tok_text
from rules.common import flat, flatp, has, same, xquotes

EXPLANATION = (
    "Static structural analysis (MIR taint/sink facts for the ssr and hydrate configurations, syntax facts, generator "
    "templates); nothing executed. Decided clauses: (R1) escape-before-sink: in RegisterCtx::to_array (server) and "
    "init_translations (client re-emission) every non-constant string appended to the script buffer is either a locale name "
    "/ translation-unit name (identifiers validated by the parser) or goes through push_js_str, whose table covers quote, "
    "backslash, every control character, `<` (so `</script>` and `<!--` cannot appear) and U+2028/U+2029, and frames the "
    "value in double quotes; list separators are driven by a flag initialised outside the loop it serves; values are "
    "listed forward. (R2) who-may-register: RegisterCtx::register is reached only from TranslationUnit::register, which "
    "only the generated `get_translations()` of the dynamic_load+ssr template calls; it records (T::LOCALE, T::ID) -> "
    "T::STRINGS; the map is created per provide_context call (per rendered request). NOT decided: that the browser parses "
    "the script as intended, leptos' own escaping of `inner_html`, serde_wasm_bindgen decoding."
)
ASSUMPTIONS = ["locale and namespace names are Rust identifiers (Key::new) and need no escaping inside a JS string",
               "a JS string literal may contain any character except quote, backslash and line terminators"]

F = "leptos_i18n/src/fetch_translations.rs"
ML = "leptos_i18n_macro/src/load_locales/mod.rs"


def sink_rule(r, b, cfg):
    """every String::push_str / push on the script buffer: constant, identifier-safe, or escaped"""
    n_const = n_ident = 0
    for i, t in b.calls():
        cn = callee_name(t) or ""
        if not cn.endswith("std::string::String::push_str"):
            continue
        arg = t["args"][1]
        c = op_const(arg)
        if c is not None:
            n_const += 1
            continue
        p = op_place(arg)
        ls, defs = backward_slice(b, p["l"])
        # constants reach push_str through a reborrow chain
        consts = [d for d in defs if d[1] != "term" and any((op_const(o) or {}).get("str") is not None for o in d[2]["rv"].get("ops", []))]
        calls = [(callee_name(d[2]) or "") for d in defs if d[1] == "term"]
        if consts and not calls:
            n_const += 1
            continue
        if any(c2.endswith("Locale::as_str") or c2.endswith("TranslationUnitId::to_str") for c2 in calls):
            n_ident += 1
            continue
        r.viol("R1:%s#verbatim" % b.name.split("::")[-1], "a non-constant string that is neither a locale / unit name nor escaped is appended verbatim to the embedded script (line %d) [cfg %s]" % (t["line"], cfg), file=b.file, line=t["line"])
    esc = M.call_blocks(b, r"fetch_translations::push_js_str$")
    in_loop = [e for e in esc if M.loop_of(b, e)]
    site = b.name.split("::")[-1]
    if in_loop:
        r.inst("%s#sinks" % site, "%d constant pieces, %d identifier pieces (locale / unit names), values through push_js_str inside the value loop" % (n_const, n_ident), cfg=cfg)
    else:
        r.viol("R1:%s#no-escaper" % site, "translation values are not written through push_js_str [cfg %s]" % cfg, file=b.file, line=b.line)
    # separator flags
    for i, t in b.calls():
        if (callee_name(t) or "") == "std::mem::replace" and (op_const(t["args"][1]) or {}).get("bool") is False:
            lp = M.loop_of(b, i)
            flag = op_place(t["args"][0])
            ls, defs = backward_slice(b, flag["l"])
            inits = []
            for l in ls:
                for (di, dj, ds) in b.defs().get(l, []):
                    if dj != "term" and ds["rv"]["k"] == "Use" and (op_const(ds["rv"]["ops"][0]) or {}).get("bool") is True and b.local_name(l):
                        inits.append((di, b.local_name(l)))
            if lp and inits and all(di not in lp[1] for di, _ in inits):
                r.inst("%s#separator@L%d" % (site, t["line"]), "comma flag `%s` is set to true before the loop it separates" % inits[0][1], cfg=cfg)
            else:
                r.viol("R1:%s#separator-flag" % site, "the `first` flag used at line %d is (re)initialised inside the loop it serves: no separator is ever written between elements [cfg %s]" % (t["line"], cfg), file=b.file, line=t["line"])


def r1_escape(ctx):
    r = Rule("C17.R1", "every string reaching the embedded script is constant, an identifier, or escaped",
             "`for every string content, including quotes, backslashes, newlines, </script>`: a verbatim push breaks or hijacks the script", floor=8)
    prog = ctx.mir("main")
    b = prog.body("fetch_translations::register::RegisterCtx::<L>::to_array")
    if b is None:
        r.missing("RegisterCtx::to_array (dynamic_load+ssr)")
    else:
        sink_rule(r, b, "main(ssr)")
    try:
        hp = ctx.mir("hydrate")
        hb = hp.body("fetch_translations::init_translations")
        if hb is None:
            r.missing("init_translations (dynamic_load+hydrate)")
        else:
            sink_rule(r, hb, "hydrate")
    except Exception as e:  # the hydrate configuration is analysed in both tiers; failure to build it is reported
        r.viol("R1:hydrate-config", "the dynamic_load+hydrate configuration could not be analysed: %s" % str(e)[:200])
    fn = ctx.ast.fn(F, "push_js_str")
    if fn is None:
        r.missing("push_js_str")
        return r
    m = find_first(fn.body, "Match")
    arms = {}
    for a in (m or {"arms": []})["arms"]:
        arms[flat(show_pat(a["pat"])) + ("if" + flat(show(a["guard"])) if a.get("guard") else "")] = flat(show(a["body"]))
    need = {"'\"'": 'buff.push_str("\\\\\\"")', "'\\\\'": 'buff.push_str("\\\\\\\\")'}
    for k, w in need.items():
        if same(arms.get(k) or "", w):
            r.inst("push_js_str %s" % k, w)
        else:
            r.viol("R1:push_js_str#%s" % k, "character %s is not escaped as %s (arm: %s)" % (k, w, arms.get(k)), file=fn.file, line=fn.line)
    lt = [k for k in arms if "'<'" in k]
    if lt and "\\\\u{:04x}" in arms[lt[0]] and "'\\u{2028}'" in lt[0] and "'\\u{2029}'" in lt[0]:
        r.inst("push_js_str '<' U+2028 U+2029", "written as \\uXXXX: `</script>` / `<!--` cannot appear, no raw line separators")
    else:
        r.viol("R1:push_js_str#lt", "`<` (and U+2028/U+2029) is not escaped: a translation containing `</script>` would end the script element", file=fn.file, line=fn.line)
    ctl = [k for k in arms if re.search(r"if\(\(\w+asu32\)<0x20\)|if\w+\.is_control\(\)", k)]
    if ctl and "\\\\u{:04x}" in arms[ctl[0]]:
        r.inst("push_js_str control characters", "c < 0x20 -> \\u00XX (newline, carriage return, tab also have short escapes)")
    else:
        r.viol("R1:push_js_str#control", "control characters are not all escaped", file=fn.file, line=fn.line)
    t = flatp(show(fn.body))
    if re.match(r"^\{(<Use>;)?buff\.push'\"';forcins\.chars\{matchc\{", t) and t.endswith("buff.push'\"'}"):
        r.inst("push_js_str framing", "\" ... \" around every char, in order")
    else:
        r.viol("R1:push_js_str#framing", "the value is not framed by double quotes / not every character is visited", file=fn.file, line=fn.line)
    fn = ctx.ast.fn(F, "to_array", impl_self="RegisterCtx")
    t = flatp(show(fn.body)) if fn else ""
    if has(t, "forvaluein*values{if!std::mem::replace&mutfirst,false{buff.push','}push_js_str&mutbuff,value}"):
        r.inst("to_array#values", "values listed forward, each escaped, comma separated")
    else:
        r.viol("R1:to_array#values", "the values of a unit are not listed forward through the escaper", file=F)
    return r


def r2_who(ctx):
    r = Rule("C17.R2", "only the units a request used are registered, with their own strings",
             "`exactly that unit's strings ... and nothing for units the request did not use`", floor=5)
    prog = ctx.mir("main")
    callers = sorted({bb.name for (bb, i, t) in prog.callers_of(r"register::RegisterCtx::<L>::register$")})
    if callers == ["leptos_i18n::fetch_translations::TranslationUnit::register"]:
        r.inst("callers of RegisterCtx::register", "TranslationUnit::register only")
    else:
        r.viol("R2:who#RegisterCtx::register", "called from %s" % callers, file=F)
    callers = sorted({bb.name for (bb, i, t) in prog.callers_of(r"fetch_translations::TranslationUnit::register$") if bb.crate in ("leptos_i18n", "leptos_i18n_router")})
    if callers:
        r.viol("R2:who#TranslationUnit::register", "TranslationUnit::register is called from library code %s: units would be registered although the request did not read them" % callers, file=F)
    else:
        r.inst("callers of TranslationUnit::register in the library", "none (only generated code)")
    fn = ctx.ast.fn(F, "register", impl_self="RegisterCtx")
    t = flatp(show(fn.body)) if fn else ""
    if has(t, "ifletSomethis=use_context::<Self>{letmutinner_guard=this.0.lock.unwrap;inner_guard.insertT::LOCALE,T::ID,T::STRINGS.as_slice}") or \
            has(t, "ifletSomethis=use_context::<Self>{letmutinner_guard=this.0.lock.unwrap;inner_guard.entryT::LOCALE,T::ID.or_insertT::STRINGS.as_slice}"):
        r.inst("RegisterCtx::register", "(T::LOCALE, T::ID) -> T::STRINGS of the same T, in the context of the current render")
    else:
        r.viol("R2:RegisterCtx::register", "is `%s`" % t[:160], file=F)
    fn = ctx.ast.fn(F, "provide_context", impl_self="RegisterCtx")
    t = flatp(show(fn.body)) if fn else ""
    if has(t, "letinner=Arc::newMutex::newHashMap::new;provide_contextRegisterCtxinner.clone;RegisterCtxinner"):
        r.inst("RegisterCtx::provide_context", "a new empty map per call (per rendered request)")
    else:
        r.viol("R2:RegisterCtx::provide_context", "the registry is not created fresh per context", file=F)
    # generated code
    fn = ctx.ast.fn(ML, "create_locale_type_inner")
    if fn is None:
        r.missing("create_locale_type_inner")
        return r
    regs = []
    for q in xquotes(fn.body):
        tt = flat(tok_text(q["tokens"]))
        if "TranslationUnit>::register()" in tt:
            regs.append(tt)
    if len(regs) == 1 and regs[0].startswith("pubfnget_translations()->&'static[&'staticstr;#strings_count]{<Selfasl_i18n_crate::__private::fetch_translations::TranslationUnit>::register();<Selfasl_i18n_crate::__private::fetch_translations::TranslationUnit>::STRINGS}"):
        r.inst("generated get_translations() (dynamic_load+ssr)", "register(); then STRINGS - the unit registers itself when (and only when) its table is read")
    else:
        r.viol("R2:template#register", "register() appears in %d generated templates (expected only in get_translations of the dynamic_load+ssr branch)" % len(regs), file=fn.file, line=fn.line)
    t = flatp(show(fn.body))
    if has(t, 'elseifcfg!allfeature="dynamic_load",feature="ssr"{quote!pubfnget_translations') or has(t, 'elseifcfg!allfeature="dynamic_load",feature="ssr"{quote!{pubfnget_translations'):
        r.inst("template branch", "guarded by cfg!(all(dynamic_load, ssr))")
    else:
        r.viol("R2:template#branch", "the registering accessor is not limited to dynamic_load+ssr", file=fn.file, line=fn.line)
    fn = ctx.ast.fn("leptos_i18n/src/context.rs", "embed_translations_fn")
    t = flatp(show(fn.body)) if fn else ""
    if has(t, "lettranslations=reg_ctx.to_array;view!<scriptinner_html=translations/>"):
        r.inst("embed_translations_fn", "<script inner_html = reg_ctx.to_array() />")
    else:
        r.viol("R2:embed_translations_fn", "is `%s`" % t, file="leptos_i18n/src/context.rs")
    return r


def run(ctx):
    return [r1_escape(ctx), r2_who(ctx)]


MANIFEST_ENTRY = {
    "technique": "static analysis: MIR sink classification of every append to the script buffer (constant / identifier / escaped) in the ssr and hydrate configurations, escaper table inspection, separator-flag initialisation vs loop membership, who-may-call of the registration API",
    "level_text": "Structural: every byte sequence that can reach the embedded <script> is classified at its append site for all inputs; the escaper's table is compared with what a JS string inside a script element requires; registration is shown reachable only from the generated accessor of a unit. The script is never built or parsed.",
    "level_note": "Trusted: identifiers need no escaping; browser/JS semantics. Not decided: leptos inner_html handling, client decoding.",
}
