"""Abstract evaluation of parse_locales::check_locales_inner (shared by C03.R1 and C07.R2): which `default_to` each
non-default locale is merged with, for every order of the locales, with and without `suppress_key_warnings`."""
import itertools

from rules import absint
from rules.absint import AEval, C, CF, A, T, L, B, UNIT, Unknown

PM = "leptos_i18n_parser/src/parse_locales/mod.rs"


def S(x):
    return ("str", x)


def merge_log(ctx, order, suppress, inherits=(("fr-CA", "fr"),)):
    """(result, [(locale merged, key set argument, top_locale argument, default_to argument)]) for locales [en] + order"""
    fn = ctx.ast.fn(PM, "check_locales_inner")
    if fn is None:
        return "check_locales_inner not found", []
    log = []

    def loc(n):
        return CF("Locale", name=S(n), top_locale_name=S(n), keys=A("keys-of-" + n), strings=L(), top_locale_string_count=("int", 0))
    locales = L(*[loc(n) for n in ["en"] + list(order)])
    ext = L(*[T(S(a), S(b)) for a, b in inherits])

    def merge(rv, a):
        nm = absint.fields_of(rv).get("name") if rv[0] == "ctor" else rv
        log.append((nm, a[0], a[1], a[2]))
        return C("Ok", UNIT)
    funcs = {k: v for k, v in absint.file_funcs(ctx.ast, PM).items() if k != "check_locales_inner" and v.impl_self is None}
    ev = AEval(inputs=[], funcs=funcs, builtins={
        "merge": merge, "make_builder_keys": lambda rv, a: C("Ok", A("DEFAULT-KEYS")), "get_strings": lambda rv, a: L(),
        "propagate_string_count": lambda rv, a: UNIT, "unwrap_at": lambda rv, a: rv[2][0] if rv[0] == "ctor" and rv[2] else rv})
    ev.cfg = lambda t: suppress if "suppress_key_warnings" in t else False
    ev.path_builtins = {"StringIndexer::default": lambda a: A("indexer"), "KeyPath::new": lambda a: A("key_path")}
    try:
        res = ev.call_fn_obj(fn, [locales, C("None"), ext, A("warnings")])
    except Unknown as u:
        return "UNKNOWN: %s" % u, log
    return res, log


def table(ctx):
    """[(order, suppress, result, log, wanted log)]"""
    rows = []
    for suppress in (False, True):
        for order in itertools.permutations(("fr-CA", "fr", "de")):
            res, log = merge_log(ctx, order, suppress)
            want = []
            for n in order:
                dt = C("Explicit", S("fr")) if n == "fr-CA" else (C("Explicit", S("en")) if suppress else C("Implicit", S("en")))
                want.append((S(n), A("DEFAULT-KEYS"), S(n), dt))
            rows.append((order, suppress, res, log, want))
    return rows


def describe(log):
    return ["%s merged with default_to=%s" % (absint.fmt(x[0]) if not isinstance(x[0], str) else x[0], absint.fmt(x[3])) for x in log]
