"""Abstract evaluation of parse_locales::check_locales_inner (shared by C03.R1 and C07.R2): which `default_to` each
non-default locale is merged with, for every order of the locales, with and without `suppress_key_warnings`."""
import itertools

from rules import absint
from rules.absint import AEval, C, CF, A, T, L, B, UNIT, Unknown

PM = "leptos_i18n_parser/src/parse_locales/mod.rs"


def S(x):
    return ("str", x)


def merge_log(ctx, order, suppress, inherits=(("fr-CA", "fr"),)):
    """(result, [(locale merged, key set argument, top_locale argument, default_to argument)]) for locales [en] + order"""
    fn = ctx.ast.fn(PM, "check_locales_inner")
    if fn is None:
        return "check_locales_inner not found", []
    log = []

    def loc(n):
        return CF("Locale", name=S(n), top_locale_name=S(n), keys=A("keys-of-" + n), strings=L(), top_locale_string_count=("int", 0))
    locales = L(*[loc(n) for n in ["en"] + list(order)])
    ext = L(*[T(S(a), S(b)) for a, b in inherits])

    def merge(rv, a):
        nm = absint.fields_of(rv).get("name") if rv[0] == "ctor" else rv
        log.append((nm, a[0], a[1], a[2]))
        return C("Ok", UNIT)
    funcs = {k: v for k, v in absint.file_funcs(ctx.ast, PM).items() if k != "check_locales_inner" and v.impl_self is None}
    ev = AEval(inputs=[], funcs=funcs, builtins={
        "merge": merge, "make_builder_keys": lambda rv, a: C("Ok", A("DEFAULT-KEYS")), "get_strings": lambda rv, a: L(),
        "propagate_string_count": lambda rv, a: UNIT, "unwrap_at": lambda rv, a: rv[2][0] if rv[0] == "ctor" and rv[2] else rv})
    ev.cfg = lambda t: suppress if "suppress_key_warnings" in t else False
    ev.path_builtins = {"StringIndexer::default": lambda a: A("indexer"), "KeyPath::new": lambda a: A("key_path")}
    try:
        res = ev.call_fn_obj(fn, [locales, C("None"), ext, A("warnings")])
    except Unknown as u:
        return "UNKNOWN: %s" % u, log
    return res, log


def table(ctx):
    """[(order, suppress, result, log, wanted log)]"""
    rows = []
    for suppress in (False, True):
        for order in itertools.permutations(("fr-CA", "fr", "de")):
            res, log = merge_log(ctx, order, suppress)
            want = []
            for n in order:
                dt = C("Explicit", S("fr")) if n == "fr-CA" else (C("Explicit", S("en")) if suppress else C("Implicit", S("en")))
                want.append((S(n), A("DEFAULT-KEYS"), S(n), dt))
            rows.append((order, suppress, res, log, want))
    return rows


def describe(log):
    return ["%s merged with default_to=%s" % (absint.fmt(x[0]) if not isinstance(x[0], str) else x[0], absint.fmt(x[3])) for x in log]


TEXTS = {"en": ["Hello", "OK", "Hello"], "fr": ["Bonjour", "OK", " "], "fr-CA": ["Allo", "OK", " ", "Allo"], "de": ["Hallo", " ", "OK"]}


def string_tables(ctx, order):
    """(result, {locale: (strings, top_locale_string_count)}) after check_locales_inner on [en] + order, with the real
    StringIndexer (push_str / get_strings / constructors) under it: the merge of a locale pushes that locale's texts, in
    order, into the indexer it is handed"""
    fn = ctx.ast.fn(PM, "check_locales_inner")
    if fn is None:
        return "check_locales_inner not found", {}

    def loc(n):
        return CF("Locale", name=S(n), top_locale_name=S(n), keys=A("keys-of-" + n), strings=L(), top_locale_string_count=("int", 0))
    locales = L(*[loc(n) for n in ["en"] + list(order)])
    funcs = {k: v for k, v in absint.file_funcs(ctx.ast, PM).items() if k != "check_locales_inner"}
    holder = {}

    def push_all(name, indexer):
        ps = funcs.get("StringIndexer::push_str") or funcs.get("push_str")
        if ps is None:
            raise Unknown("StringIndexer::push_str not found")
        for t in TEXTS[name]:
            ev2 = AEval(funcs=funcs)
            got = ev2.run_fn(ps, [indexer, S(t)])
            if isinstance(got, str):
                raise Unknown("push_str: " + got)
            indexer = (getattr(ev2, "last_env", None) or {}).get("self", indexer)
        return indexer

    def merge(rv, a):
        nm = absint.fields_of(rv)["name"][1]
        idx = next(k for k, x in enumerate(a) if x[0] == "ctor" and x[1] == "StringIndexer")
        return ("mutargs", C("Ok", UNIT), {idx: push_all(nm, a[idx])})

    def mbk(rv, a):
        nm = absint.fields_of(rv)["name"][1]
        idx = next(k for k, x in enumerate(a) if x[0] == "ctor" and x[1] == "StringIndexer")
        return ("mutargs", C("Ok", A("DEFAULT-KEYS")), {idx: push_all(nm, a[idx])})
    ev = AEval(inputs=[], funcs=funcs, builtins={"merge": merge, "make_builder_keys": mbk, "propagate_string_count": lambda rv, a: UNIT,
                                                 "unwrap_at": lambda rv, a: rv[2][0] if rv[0] == "ctor" and rv[2] else rv})
    ev.cfg = lambda t: False
    ev.path_builtins = {"StringIndexer::default": lambda a: CF("StringIndexer", current=L(), acc=L()), "KeyPath::new": lambda a: A("key_path")}
    try:
        res = ev.call_fn_obj(fn, [locales, C("None"), L(), A("warnings")])
    except Unknown as u:
        return "UNKNOWN: %s" % u, {}
    after = (getattr(ev, "last_env", None) or {}).get("locales", locales)
    out = {}
    for x in after[1]:
        f = absint.fields_of(x)
        out[f["name"][1]] = ([y[1] for y in f["strings"][1]] if f["strings"][0] == "list" else f["strings"], f["top_locale_string_count"])
    return res, out


def expected_tables(order):
    out = {}
    for n in ["en"] + list(order):
        d = []
        for t in TEXTS[n]:
            if t not in d:
                d.append(t)
        out[n] = (d, ("int", len(d)))
    return out
