"""C14 URL locale prefixes are matched by whole segment and rewritten reversibly."""
import re

from report import Rule
from mirlib import callee_name, op_const, op_place, backward_slice
import mustlib as M
from astlib import find_all, find_first, show, show_pat, method_chain
from rules.common import flat, flatp, has, same

EXPLANATION = (
    "Primary clause (R0): get_new_path and get_locale_from_path, with every helper under them, are interpreted abstractly (rules/absint.py; nothing compiled or run) over base-path forms x routes x locale pairs and compared with the URL the statement prescribes (which also decides the round trip, since the expected URL of A->B is the source of B->A). The structural clauses below are used only when the code leaves the interpreter's fragment. Static structural analysis (MIR data-flow facts + syntax facts of leptos_i18n_router/src/routing.rs); nothing executed. "
    "Decided clauses only: (R1) whole-segment rule - a string obtained from Locale::as_str is never used as the pattern of a "
    "prefix/substring operation (starts_with, contains, find, trim_*_matches, split_once) on a path; the one strip_prefix is "
    "accepted only under the guard `rest is empty or starts with '/'`; reading the locale of a URL compares a locale name "
    "with == against the first segment after the base path. (R2) get_new_path pushes the new locale's prefix iff it is not "
    "the default locale, and appends `?search` and `#hash` unchanged when they are not empty. NOT decided (not applicable to "
    "this technique): reversibility over sequences of switches, route-table localisation, and everything that depends on the "
    "run-time state of leptos_router (histories, effects, navigation)."
)
ASSUMPTIONS = ["str::split('/') yields the path segments", "leptos_router delivers pathname, search (without `?`) and hash (with its `#` in the browser, as read from 0.7.8 history.rs; possibly without on the server) separately",
               "leptos_router 0.7.8 StaticSegment::test behaves as transcribed in rules/routeeval.py from its source (a prefix comparison that stops where the segment's text ends; "
               "the first, documentation-based model was wrong and hid D28)",
               "the inner routes of an I18nRoute match a remaining path by comparing its `/`-separated segments with the route's segments one by one (params match any segment)"]

F = "leptos_i18n_router/src/routing.rs"
PATTERN_APIS = re.compile(r"^core::str::<impl str>::(starts_with|ends_with|contains|find|rfind|strip_prefix|strip_suffix|trim_start_matches|trim_end_matches|trim_matches|split_once|rsplit_once|matches|match_indices|split|splitn)$")


def r1_whole_segment(ctx, prog):
    r = Rule("C14.R1", "a locale name is compared to a whole path segment, never used as a prefix pattern",
             "`/english` is not locale `en`, `/en-US` is not `en`, and with the default locale `en` (no prefix) `/entries` must not "
             "lose its first two letters when the locale is switched", floor=3)
    n = 0
    for name, b in sorted(prog.bodies.items()):
        if b.crate != "leptos_i18n_router":
            continue
        for i, t in b.calls():
            cn = callee_name(t) or ""
            if not PATTERN_APIS.search(cn):
                continue
            if len(t["args"]) < 2:
                continue
            pat = op_place(t["args"][1])
            if pat is None:
                continue
            ls, defs = backward_slice(b, pat["l"])
            from_locale = any(dj == "term" and (callee_name(ds) or "").endswith("Locale::as_str") for (di, dj, ds) in defs)
            if not from_locale:
                continue
            n += 1
            api = cn.split("::")[-1]
            site = "%s#%s@L%d" % (name, api, t["line"])
            if api == "strip_prefix":
                # accepted only with the whole-segment guard (checked on the syntax tree below)
                r.inst(site, "strip_prefix(locale.as_str()) - guard checked syntactically")
            else:
                r.viol("R1:%s#%s" % (name, api), "a locale name is used as the pattern of `%s` on a path (line %d): `/english` would be read as `en`" % (api, t["line"]), file=b.file, line=t["line"])
    fn = ctx.ast.fn(F, "get_new_path")
    if fn is None:
        r.missing("get_new_path")
    else:
        strips = [c for c in find_all(fn.body, "MethodCall") if c["method"] == "strip_prefix" and "as_str" in show(c["args"][0])]
        ok = True
        for c in strips:
            # must be the scrutinee of a match whose Some arm has the guard
            good = False
            for m in find_all(fn.body, "Match"):
                if m["scrutinee"] is c or show(m["scrutinee"]) == show(c):
                    for a in m["arms"]:
                        if show_pat(a["pat"]).startswith("Some(") and a.get("guard"):
                            g = flatp(show(a["guard"]))
                            v = re.findall(r"Some\((\w+)\)", show_pat(a["pat"]))[0]
                            if g in ("%s.is_empty||%s.starts_with'/'" % (v, v), "%s.starts_with'/'||%s.is_empty" % (v, v)) and flatp(show(a["body"])) == v:
                                good = True
                    others = [a for a in m["arms"] if not show_pat(a["pat"]).startswith("Some(") or not a.get("guard")]
                    if not others:
                        good = False
            if not good:
                ok = False
                r.viol("R1:get_new_path#strip-guard", "`%s` is not guarded by `rest.is_empty() || rest.starts_with('/')`: a path whose first segment merely starts with the locale name loses those characters" % show(c), file=fn.file, line=c["line"])
        if ok and strips:
            r.inst("get_new_path#strip_prefix", "Some(rest) if rest.is_empty() || rest.starts_with('/') => rest, otherwise the path is left as is")
    fn = ctx.ast.fn(F, "get_locale_from_path")
    if fn is None:
        r.missing("get_locale_from_path")
    else:
        t = flatp(show(fn.body))
        if has(t, "letfirst_segment=stripped_path.split'/'.next?;L::get_all.iter.copied.find|l|l.as_str==first_segment") or has(t, "letfirst_segment=stripped_path.split'/'.next?;L::get_all.iter.copied.find|l|first_segment==l.as_str"):
            r.inst("get_locale_from_path", "first segment after the base path == locale.as_str()")
        else:
            r.viol("R1:get_locale_from_path", "the locale of a URL is not found by comparing the whole first segment: %s" % t[-160:], file=fn.file, line=fn.line)
        if has(t, "letbase_path=base_path.trim_start_matches'/';letstripped_path=path.trim_start_matches'/'.strip_prefixbase_path?.trim_start_matches'/'"):
            r.inst("get_locale_from_path#base", "base path stripped first")
        else:
            r.viol("R1:get_locale_from_path#base", "base path handling changed", file=fn.file, line=fn.line)
    if n == 0:
        r.note("no pattern API receives a locale name")
    return r


def r2_rewrite(ctx):
    r = Rule("C14.R2", "new path: prefix iff not default; query and fragment appended unchanged",
             "`preserving ... the query string and the fragment`; `absent for the default locale`", floor=3)
    fn = ctx.ast.fn(F, "get_new_path")
    if fn is None:
        r.missing("get_new_path")
        return r
    t = flatp(show(fn.body))
    frags = {
        "prefix": "path_builder.pushbase_path;ifnew_locale!=L::default{path_builder.pushnew_locale.as_str}",
        "search": "location.search.with_untracked|search|{if!search.is_empty{new_path.push'?';new_path.push_strsearch}}",
        "hash": "location.hash.with_untracked|hash|{if!hash.is_empty{new_path.push'#';new_path.push_strhash}}",
        "rest-kept": "if!localized{path_builder.pushpath_rest}",
    }
    for k, frag in frags.items():
        if has(t, frag):
            r.inst("get_new_path#" + k, frag[:90])
        else:
            r.viol("R2:get_new_path#" + k, "get_new_path lost `%s`" % k, file=fn.file, line=fn.line)
    pos = [t.find(flatp(frags[k]).rstrip(";")) for k in ("prefix", "search", "hash")]
    if -1 not in pos and pos != sorted(pos):
        r.viol("R2:get_new_path#order", "path, query and fragment are not assembled in this order", file=fn.file, line=fn.line)
    fn = ctx.ast.fn(F, "build", impl_self="PathBuilder")
    tt = flatp(show(fn.body)) if fn else ""
    if same(tt, '{lets=self.0.join"/";ifs.is_empty{"/".to_owned}else{s}}'):
        r.inst("PathBuilder::build", "segments joined with '/', in push order")
    else:
        r.viol("R2:PathBuilder::build", "is `%s`" % tt, file=F)
    fn = ctx.ast.fn(F, "push", impl_self="PathBuilder")
    tt = flatp(show(fn.body)) if fn else ""
    if same(tt, "{lets=s.trim_matches'/';if!s.is_empty{self.0.pushs}}"):
        r.inst("PathBuilder::push", "segment without surrounding '/', empty ones skipped")
    else:
        r.viol("R2:PathBuilder::push", "is `%s`" % tt, file=F)
    return r


def r3_segments(ctx):
    r = Rule("C14.R3", "rebuilding the path keeps every non-localised segment, in order",
             "`preserving every other segment`: parameters, optional parameters and everything a wildcard captured must be copied to "
             "the new URL; only static segments are replaced by the new locale's spelling", floor=8)
    fn = ctx.ast.fn(F, "construct_path_segments")
    if fn is None:
        r.missing("construct_path_segments")
        return r
    m = find_first(fn.body, "Match")
    want = {
        "PathSegment::Unit": "continue",
        "PathSegment::Param(_)": "{path_builder.pushseg;continue}",
        "PathSegment::OptionalParam(_)ifoptionals.contains(&index)": "{path_builder.pushseg;continue}",
        "PathSegment::OptionalParam(_)": "continue",
        "PathSegment::Static(to_push)ifto_push.is_empty()": "continue",
        "PathSegment::Static(to_push)": "{path_builder.pushto_push;continue}",
        "PathSegment::Splat(_)": "{path_builder.pushseg;break}",
    }
    got = {}
    order = []
    for a in (m or {"arms": []})["arms"]:
        k = flat(show_pat(a["pat"])) + ("if" + flat(show(a["guard"])) if a.get("guard") else "")
        got[k] = flatp(show(a["body"]))
        order.append(k)
    for k, w in want.items():
        if same(got.get(k) or "", w):
            r.inst("construct_path_segments#" + k, w)
        else:
            r.viol("R3:construct_path_segments#" + k, "arm `%s` is `%s`, expected `%s`" % (k, got.get(k), w), file=fn.file, line=fn.line)
    if order and (order.index("PathSegment::OptionalParam(_)ifoptionals.contains(&index)") > order.index("PathSegment::OptionalParam(_)") or order.index("PathSegment::Static(to_push)ifto_push.is_empty()") > order.index("PathSegment::Static(to_push)")):
        r.viol("R3:construct_path_segments#arm-order", "a guarded arm comes after its catch-all", file=fn.file, line=fn.line)
    t = flatp(show(fn.body))
    if has(t, "letmutouter_seg_iter=segments.iter;") and has(t, "forsegin&mutouter_seg_iter{loop{") and t.endswith("forseginouter_seg_iter{path_builder.pushseg}}"):
        r.inst("construct_path_segments#tail", "segments left after the route (or captured by a wildcard) are all appended: the main loop borrows the iterator, a final loop drains it")
    else:
        r.viol("R3:construct_path_segments#tail", "segments that the main loop did not consume (everything a wildcard captured after its first segment) are no longer appended", file=fn.file, line=fn.line)
    fn = ctx.ast.fn(F, "localize_path")
    t = flatp(show(fn.body)) if fn else ""
    if has(t, "letpath_segments=path.split'/'.filter|s|!s.is_empty.collect::<Vec<_>>;") and has(t, "letnew_segments=&new_locale_segments[pos];construct_path_segments&path_segments,new_segments,path_builder,&optionals;"):
        r.inst("localize_path", "all non-empty segments of the path, matched route index `pos` reused for the new locale")
    else:
        r.viol("R3:localize_path", "localize_path changed", file=F)
    fn = ctx.ast.fn(F, "match_path_segments")
    if fn is not None:
        m = find_first(fn.body, "Match")
        got = {}
        for a in (m or {"arms": []})["arms"]:
            got[flat(show_pat(a["pat"])) + ("if" + flat(show(a["guard"])) if a.get("guard") else "")] = flatp(show(a["body"]))
        want = {"PathSegment::Unit": "continue", "PathSegment::Param(_)": "continue", "PathSegment::OptionalParam(to_match)if(to_match==seg)": "{optionals.insertindex;continue}",
                "PathSegment::OptionalParam(_)": "continue", "PathSegment::Static(to_match)ifto_match.is_empty()": "continue", "PathSegment::Static(to_match)if(to_match==seg)": "continue",
                "PathSegment::Static(_)": "returnNone", "PathSegment::Splat(_)": "returnSomeoptionals"}
        bad = [k for k, w in want.items() if got.get(k) != w]
        if bad:
            r.viol("R3:match_path_segments", "route matching table changed for %s" % bad, file=fn.file, line=fn.line)
        else:
            r.inst("match_path_segments", "static segments compared with ==, parameters accept anything, wildcard accepts the rest")
    return r


# ---------------------------------------------------------------------------------------------- evaluation (R0)

LOCALES = ["en", "fr", "de"]      # en is the default locale (no prefix)
BASES = {"/": [], "": [], "/foo/": ["foo"], "/foo": ["foo"], "foo": ["foo"], "foo/": ["foo"]}
# routes: per locale the segments of the route; `:x` parameter, `*x` splat, words are static (localized when they differ)
ROUTES = [
    {"en": ["", ":user", ":repo"], "fr": ["", ":user", ":repo"], "de": ["", ":user", ":repo"]},          # declared first: must not capture shorter paths
    {"en": [""], "fr": [""], "de": [""]},
    {"en": ["", "about"], "fr": ["", "a-propos"], "de": ["", "ueber"]},
    {"en": ["", "blog", ":id", "edit"], "fr": ["", "blogue", ":id", "modifier"], "de": ["", "blog", ":id", "bearbeiten"]},
    {"en": ["", "docs", "*rest"], "fr": ["", "docs", "*rest"], "de": ["", "doku", "*rest"]},
    {"en": ["", "entries"], "fr": ["", "entries"], "de": ["", "entries"]},                         # starts with the letters of a locale name
    {"en": ["", "menu", "french-fries", ":n"], "fr": ["", "menu", "frites", ":n"], "de": ["", "menu", "pommes", ":n"]},
    {"en": ["", "news", "?page"], "fr": ["", "nouvelles", "?page"], "de": ["", "neues", "?page"]},       # trailing optional param (present / absent)
    {"en": ["", "post", "?n", "edit"], "fr": ["", "billet", "?n", "modifier"], "de": ["", "beitrag", "?n", "aendern"]},   # optional param before a static segment
    {"en": ["", "tags", ":tag"], "fr": ["", "tags", ":tag"], "de": ["", "schlagworte", ":tag"]},           # a parameter whose value equals the segment before it (`/tags/tags`)
]
OPTIONAL_PRESENT = [False, True]
PARAMS = {"user": "bob", "repo": "site", "id": "7", "n": "42", "page": "3", "tag": "tags"}
SPLATS = [[], ["a"], ["a", "b.html"], ["a", "a"]]          # (the last: two equal consecutive segments are two segments)


def _seg_value(x):
    from rules.absint import C
    S = lambda v: ("str", v)  # noqa: E731
    if x.startswith(":"):
        return C("Param", S(x[1:]))
    if x.startswith("*"):
        return C("Splat", S(x[1:]))
    if x.startswith("?"):
        return C("OptionalParam", S(x[1:]))
    return C("Static", S(x))


def _concrete(route_segs, splat, optional=True):
    out = []
    for x in route_segs:
        if x == "":
            continue
        if x.startswith("?"):
            if optional:
                out.append(PARAMS[x[1:]])
            continue
        if x.startswith(":"):
            out.append(PARAMS[x[1:]])
        elif x.startswith("*"):
            out.extend(splat)
        else:
            out.append(x)
    return out


def _ref_match(path, route):
    """reference matcher written from leptos_router's semantics: the bindings of a route on a path, or None.
    Statics must be equal, a param takes one segment, an optional param takes one unless the rest needs it, a wildcard takes
    whatever is left (nothing included)"""
    if not route:
        return [] if not path else None
    x, rest = route[0], route[1:]
    if x == "":
        return _ref_match(path, rest)
    if x.startswith("*"):
        return [("splat", list(path))]
    if x.startswith("?"):
        if path:
            m = _ref_match(path[1:], rest)
            if m is not None:
                return [("seg", path[0])] + m
        m = _ref_match(path, rest)
        return None if m is None else [("absent", None)] + m
    if not path:
        return None
    if x.startswith(":"):
        m = _ref_match(path[1:], rest)
        return None if m is None else [("seg", path[0])] + m
    if x != path[0]:
        return None
    m = _ref_match(path[1:], rest)
    return None if m is None else [("static", None)] + m


def _ref_localize(path, old_locale, new_locale):
    """the path in the new locale: the first route (declaration order, as the router picks it) of the old locale's table
    that serves the path decides; a path no route serves keeps its segments"""
    for rt in ROUTES:
        m = _ref_match(path, rt[old_locale])
        if m is None:
            continue
        out = []
        it = iter(m)
        for x in rt[new_locale]:
            if x == "":
                continue
            kind, val = next(it)
            if kind == "static":
                out.append(x)
            elif kind == "seg":
                out.append(val)
            elif kind == "splat":
                out.extend(val)
        return out
    return list(path)


def _url(base_segs, locale, route, splat, explicit_default=False):
    optional = True
    if splat and splat[0] == "<no-optional>":
        optional, splat = False, []
    segs = list(base_segs) + ([] if locale == "en" and not explicit_default else [locale]) + _concrete(route[locale], splat, optional)
    return "/" + "/".join(segs)


def r0_urls(ctx):
    """abstract evaluation (rules/absint.py) of get_new_path / get_locale_from_path - with PathBuilder, localize_path,
    match_path_segments and construct_path_segments under them - on every (base path form, route, locale pair); the
    expected URL is built from the statement: base + new prefix (none for the default locale) + the route's segments in
    the new locale + the unchanged query and fragment"""
    from rules import absint
    from rules.absint import AEval, C, CF, L, T
    r = Rule("C14.R0", "locale switch rewrites exactly the prefix and the localized segments, for every base-path form",
             "`rewrites only that prefix (absent for the default locale) and the localized segments, preserving every other "
             "segment, the query string and the fragment, and switching back yields the original URL`; `a locale is read only "
             "when the first path segment after the base path equals a locale name exactly`", floor=3)
    ast = ctx.ast
    funcs = absint.file_funcs(ast, F, impl_self="PathBuilder")
    for n in ("get_new_path", "get_locale_from_path", "localize_path", "match_path_segments", "construct_path_segments", "push", "build", "new"):
        if n not in funcs:
            r.missing("routing::" + n)
            return r, False, "anchor missing"
    S = lambda v: ("str", v)  # noqa: E731
    tables = {l: L(*[L(*[_seg_value(x) for x in rt[l]]) for rt in ROUTES]) for l in LOCALES}
    segs = CF("RouteSegments", **{"0": L(*[T(S(l), tables[l]) for l in LOCALES])})

    def new_path(pathname, search, hashv, base, new_locale, cur):
        ev = AEval(funcs=funcs, builtins={
            "with_untracked": lambda rv, a: ev.apply(a[0], [rv]), "with": lambda rv, a: ev.apply(a[0], [rv]),
            "lock": lambda rv, a: C("Ok", rv), "read": lambda rv, a: C("Ok", rv),
            "unwrap_or_default": lambda rv, a: rv[2][0] if rv[0] == "ctor" and rv[1] == "Some" else S("en")})
        ev.path_builtins = {"L::default": lambda a: S("en"), "L::get_all": lambda a: L(*[S(x) for x in LOCALES])}
        loc = CF("Location", pathname=S(pathname), search=S(search), hash=S(hashv))
        return ev.run_fn(funcs["get_new_path"], [loc, S(base), S(new_locale), C("Some", S(cur)) if cur else C("None"), segs])

    def locale_of(path, base):
        ev = AEval(funcs=funcs)
        ev.path_builtins = {"L::get_all": lambda a: L(*[S(x) for x in LOCALES]), "L::default": lambda a: S("en")}
        return ev.run_fn(funcs["get_locale_from_path"], [S(path), S(base)])
    bad = {}
    n_sw = n_rd = n_rt = 0
    for base, bsegs in BASES.items():
        for ri, route in enumerate(ROUTES):
            splats = SPLATS if any(x.startswith("*") for x in route["en"]) else ([[], ["<no-optional>"]] if any(x.startswith("?") for x in route["en"]) else [[]])
            for splat in splats:
                # (the fragment as leptos_router hands it over: the browser location keeps its `#` - `hash: location.hash()?` in 0.7.8's
                #  history.rs -, a parsed request URL may not; the query string comes without its `?`)
                for (search, hashv) in (("", ""), ("tab=1&x=%2F", "sec-2"), ("", "#team")):
                    for a in LOCALES + ["en!"]:
                        # "en!": the default locale written as an explicit prefix (`/en/about`: a URL of the N+1th route
                        # family, read as Some(en) by get_locale_from_path; hand-typed or shared links look like this)
                        expl = a == "en!"
                        a = "en" if expl else a
                        if expl and (search or splat):
                            continue
                        for b_ in LOCALES:
                            src = _url(bsegs, a, route, splat, explicit_default=expl)
                            opt = not (splat and splat[0] == "<no-optional>")
                            served = _ref_localize(_concrete(route[a], [] if not opt else splat, opt), a, b_)
                            want = "/" + "/".join(list(bsegs) + ([] if b_ == "en" else [b_]) + served) + ("?" + search if search else "") + (("" if hashv.startswith("#") else "#") + hashv if hashv else "")
                            got = new_path(src, search, hashv, base, b_, a)
                            if isinstance(got, str):
                                return r, False, got
                            n_sw += 1
                            if got != S(want):
                                kind = "explicit-default-prefix" if expl else "base-path" if bsegs and got != S(want) and new_path(_url([], a, route, splat), search, hashv, "/", b_, a) == S(_url([], b_, route, splat) + ("?" + search if search else "") + ("#" + hashv if hashv else "")) else \
                                    ("query-fragment" if (search or hashv) and new_path(src, "", "", base, b_, a) == S(_url(bsegs, b_, route, splat)) else "rewrite")
                                bad.setdefault(kind, "base path %r, route %s, %s -> %s: `%s%s%s` becomes `%s`, expected `%s`" % (
                                    base, "/".join(route["en"]) or "/", a, b_, src, "?" + search if search else "", "#" + hashv if hashv else "", absint.fmt(got), want))
                            elif not expl and not search and base in ("/", "/foo"):
                                # and back: from the URL just produced (in locale b) to locale a gives the original URL
                                back = new_path(got[1].split("#")[0].split("?")[0], search, hashv, base, a, b_)
                                if isinstance(back, str):
                                    return r, False, back
                                n_rt += 1
                                if back != S(src + ((("" if hashv.startswith("#") else "#") + hashv) if hashv else "")):
                                    bad.setdefault("round-trip", "base path %r, route %s: `%s` switched %s -> %s gives `%s`, switching back gives `%s`" % (base, "/".join(route["en"]) or "/", src, a, b_, got[1], absint.fmt(back)))
            # reading the locale back from the URL
            for a in LOCALES:
                src = _url(bsegs, a, route, [])
                got = locale_of(src, base)
                if isinstance(got, str):
                    return r, False, got
                n_rd += 1
                want = C("Some", S(a)) if a != "en" else C("None")
                if got != want:
                    bad.setdefault("read-locale", "base path %r: the locale of `%s` is read as %s, expected %s" % (base, src, absint.fmt(got), absint.fmt(want)))
        if bsegs:
            # a locale glued to the base path: `/foofr/x` under the base path `foo` has the first segment `foofr`
            for glued in ("fr/x", "en", "de/about", "fr"):
                got = locale_of("/" + "/".join(bsegs[:-1] + [bsegs[-1] + glued]), base)
                if isinstance(got, str):
                    return r, False, got
                n_rd += 1
                if got != C("None"):
                    bad.setdefault("read-locale", "base path %r: `/%s` continues the base path's last segment, it is not a locale segment, yet %s is read" % (base, "/".join(bsegs[:-1] + [bsegs[-1] + glued]), absint.fmt(got)))
        for near in ("english", "frites/x", "fr-CA/x", "e", "xfr/fr", "", "FR/x", "Fr", "EN", "fR/about", "de /x", "%66r/x"):
            src = "/" + "/".join(bsegs + [near]) if near else "/" + "/".join(bsegs)
            got = locale_of(src, base)
            if isinstance(got, str):
                return r, False, got
            n_rd += 1
            if got != C("None"):
                bad.setdefault("read-locale", "base path %r: `%s` does not start with a locale segment, yet %s is read" % (base, src, absint.fmt(got)))
        got = locale_of("/" + "/".join(bsegs + ["en", "about"]), base)
        if not isinstance(got, str) and got != C("Some", S("en")):
            bad.setdefault("read-locale", "base path %r: an explicit default-locale prefix is read as %s" % (base, absint.fmt(got)))
    for kind, msg in sorted(bad.items()):
        r.viol("R0:get_new_path#" + kind if kind != "read-locale" else "R0:get_locale_from_path#whole-segment", msg, file=F, line=funcs["get_new_path"].line)
    if not bad:
        r.inst("get_new_path", "%d switches (6 base-path forms x %d routes x locale pairs x with/without query+fragment): prefix and localized segments rewritten, everything else kept" % (n_sw, len(ROUTES)))
        r.inst("round trip", "%d switches A->B followed by B->A from the URL produced: the original URL comes back (routes served by an earlier, more general route included)" % n_rt)
        r.inst("get_locale_from_path", "%d URLs: a locale is read exactly when the first segment after the base path is a locale name" % n_rd)
    return r, True, None


def r45_glue(ctx):
    """the effects and route families around the path functions, evaluated (rules/routeeval.py)"""
    from rules import routeeval, absint
    r4 = Rule("C14.R4", "the effects keep URL and context locale together, rewriting from the locale that was in the URL",
              "`switching from locale A to locale B rewrites only that prefix ... and switching back yields the original URL`: the effects decide "
              "which locale is A (the one in the URL) and which is B when they call the rewrite; passing the wrong one, or navigating when URL and "
              "context already agree, changes another prefix than the one in the URL", floor=1)
    r5 = Rule("C14.R5", "route families: a locale is read from a whole first segment; each family uses its own locale's segments",
              "`a locale is read from a URL only when the first path segment after the base path equals a locale name exactly` - the N+1 route "
              "families (one per locale prefix, one unprefixed for the default) are how that is decided for routing", floor=1)
    for r, f in ((r4, routeeval.check_effects), (r5, routeeval.check_families)):
        try:
            f(ctx, r)
        except absint.Unknown as u:
            r.viol(r.id.split(".")[1] + ":undecided", "the evaluation cannot interpret the current code (%s): not decided on this tree (fail closed)" % str(u)[:300], file=F)
    # the route families hand the locale of the family being generated / matched to the inner routes as a *string* (thread local) that is
    # parsed back with the locale's FromStr: the localized segments of a locale are used only if its own name parses back to it - the
    # as_str / from_str clauses of C13.R0 (create_locales_enum evaluated and read back)
    from rules import c13
    from rules.common import borrow
    k13 = c13.r0_generated(ctx)
    r6 = borrow(k13[0], "C14.R6", "a locale's name parses back to that locale (the route locale travels as a string)",
                "`rewrites the localized segments`: the segments of a family are chosen by parsing the current route locale's name; a FromStr that does not accept "
                "exactly the configured spelling (`fr-CA`) makes that family use the default locale's segments", only=r"from_str|as_str", floor=2)
    if not k13[1] and not r6.violations:
        r6.viol("R6:undecided", "the locale enum generator cannot be interpreted on the current code: not decided on this tree (fail closed)")
    return [r4, r5, r6]


def run(ctx):
    r0, ok, why = r0_urls(ctx)
    import os
    if ok and not os.environ.get("VERIF_FORCE_FALLBACK"):
        return [r0] + r45_glue(ctx)
    # a construct outside rules/absint.py: fall back to the structural clauses on the same functions
    prog = ctx.mir("main")
    rules = [r1_whole_segment(ctx, prog), r2_rewrite(ctx), r3_segments(ctx)]
    if not ok and not r0.violations:
        r0.inst("evaluation not available", "fallback to structural rules R1-R3: %s" % str(why)[:160])
        r0.viol("R0:undecided", "the evaluation cannot interpret the current code (%s): the clauses it decides are NOT decided on this tree; the structural rules reported alongside only cover part of them (fail closed)" % str(why)[:300])
        r0.floor = 1
    return [r0] + rules + r45_glue(ctx)


MANIFEST_ENTRY = {
    "technique": "static analysis: abstract evaluation (rules/absint.py) of get_new_path (with PathBuilder, localize_path, match_path_segments, construct_path_segments) and get_locale_from_path over base-path forms x route tables (params, optional params present / absent, splats with 0-2 segments, localized and locale-like static segments, routes shadowed by an earlier more general route) x 3 locales x query / fragment x explicit default prefix, oracle = the URL built from the statement with leptos_router's matching semantics, explicit A->B->A round trips; evaluation (rules/routeeval.py) of the effects update_path_effect / correct_locale_prefix_effect / check_history_change / maybe_redirect on a modelled location, navigate, context and StoredValue cells, and of match_nested / generate_routes_for_each_locale with the thread-local route locale modelled; structural MIR / syn rules as fallback; the all-locales-walk rule (no filtering / skipping adaptor between L::get_all() and the per-locale work in generate_routes, generate_routes_for_each_locale, match_nested); the as_str / from_str clauses of C13.R0 (the route locale travels as a string); match_nested evaluated against a line-by-line transcription of leptos_router 0.7.8's StaticSegment::test (prefix comparison that stops where the segment's text ends - D28) on routes that are a locale name followed by another route; MIR rule: the thread-local route locale is set in the same closure / function body (or an enclosing closure) in which the inner routes are asked - never in the function body for a closure handed to a lazy iterator constructor",
    "level_text": "Finite abstract evaluation: every (base path form, route, locale pair) of the universe is rewritten by the interpreted code and compared with base + new prefix + the route in the new locale + unchanged query and fragment, and switched back; reading the locale back is decided for every URL of the universe and near-miss first segments; the effects are interpreted in every (previous, context, URL locale, pending history change) situation: afterwards URL and context agree and the URL is the rewrite from the locale that was in it; the route families read a locale from a whole first segment only. leptos' reactive scheduling, the browser history and leptos_router itself are modelled, not run.",
    "level_note": "Trusted: leptos_router's Location / StaticSegment / wildcard semantics as modelled. D24, D26 repaired upstream. Not decided / not applicable: run-time router state, real navigation histories. Known and undecided (DESIGN 11.17, hunts/C14): route segments spelled with a slash; `/fr/en/x` under `/:p/x`; a localized segment that is empty in one locale panics.",
}
