"""C20 The build helper requests exactly the ICU data the translations use."""
import re

from report import Rule
from mirlib import callee_name, callee_of, op_const, op_place
import mustlib as M
import depsrc
from astlib import find_all, find_first, show, show_pat
from rules.common import flat, flatp, has, same

EXPLANATION = (
    "Primary clause (R0): the option walk, the locale accessors and the driver construction are interpreted abstractly (rules/absint.py; nothing compiled or run) over generated key trees; the derived options must be exactly the families present. The structural clauses R1 / R4 are used only when the code leaves the interpreter's fragment. Static analysis; nothing executed. Decided structural clauses: (R1) walk completeness: find_used_datakey matches every "
    "LocaleValue shape without a catch-all, recurses into sub-keys with the same accumulator, visits every variable "
    "(iter_vars) and every formatter of it, and no loop of the walk (nor of get_icu_keys_inner over the namespaces) can be "
    "left before its iterator is exhausted - checked on MIR loop exits and on the absence of short-circuiting adaptors; "
    "the accumulated key info it walks is itself complete over locales and foreign keys by C08.R1/R2. (R2) exact tables: "
    "Formatter variant -> Options family, plural detection only under `range_count == Plural`, Options -> feature names. "
    "(R3) data closure: for every Options family, the data markers required by the ICU4X constructors the run time calls "
    "(read from the `*_unstable` signatures of the dependency versions the lock file resolves) are all among the key names "
    "the family lists AND known to icu_datagen's registry (unknown names are silently dropped by icu_datagen::keys). "
    "(R4) locales: get_locales yields the configuration's locale list, unfiltered; the driver gets exactly those. "
    "NOT decided / not applicable: the content of the generated data."
)
ASSUMPTIONS = [
    "the `*_unstable` constructor bounds of ICU4X list every data marker the stable constructor loads (ICU4X's documented contract)",
    "icu_datagen::keys drops names missing from its registry (read in icu_datagen/src/lib.rs)",
    "the merged key information (BuildersKeysInner) covers every locale, sub-key and resolved foreign key: C08.R1/R2",
]

DK = "leptos_i18n_build/src/datakey.rs"
BL = "leptos_i18n_build/src/lib.rs"
PL = "leptos_i18n_parser/src/parse_locales/locale.rs"
RT = "leptos_i18n/src/macro_helpers/formatting/mod.rs"

FMT2OPT = {"Number": "FormatNums", "Date": "FormatDateTime", "Time": "FormatDateTime", "DateTime": "FormatDateTime",
           "List": "FormatList", "Currency": "FormatCurrency"}
SHORT_CIRCUIT = r"Iterator::(map_while|take_while|take|skip|skip_while|find|find_map|any|all|position|rposition|nth|last|step_by|try_for_each|try_fold|scan|next|peekable)$"


def _loop_exits_only_on_exhaustion(b):
    """[(header line, ok, why)] for every natural loop of the body"""
    out = []
    nxt = re.compile(r"Iterator>::next$|Iterator::next$")
    all_loops = M.loops(b)
    for (hdr, nodes, srcs) in all_loops:
        inner = set()
        for (h2, n2, s2) in all_loops:
            if h2 != hdr and n2 < nodes:
                inner |= n2
        nexts = [i for i in nodes - inner if b.blocks[i]["term"]["k"] == "Call" and nxt.search(callee_name(b.blocks[i]["term"]) or "")]
        exits = [i for i in nodes - inner if any(s not in nodes and b.blocks[s]["term"]["k"] != "Unreachable" for s in b.succ(i))]
        line = b.blocks[hdr]["term"].get("line")
        if len(nexts) != 1:
            out.append((line, False, "loop does not advance exactly one iterator"))
            continue
        dest = b.blocks[nexts[0]]["term"]["dest"]["l"]
        sw = [si for (si, s, pl) in M.discr_switches(b, lambda pl: pl["l"] == dest)]
        bad = [i for i in exits if i not in sw]
        if bad:
            out.append((line, False, "the loop can be left at line %s before its iterator is exhausted" % b.blocks[bad[0]]["term"].get("line")))
        else:
            out.append((line, True, "left only when next() returns None"))
    return out


def r1_walk(ctx, prog):
    r = Rule("C20.R1", "the walk over the key information is complete and never stops early",
             "`in any locale or namespace, at any subkey depth`: a walk that skips a LocaleValue shape, a variable, a formatter of a "
             "variable or a namespace - or leaves a loop early - misses the option for exactly those projects", floor=10)
    ast = ctx.ast
    fn = ast.fn(DK, "find_used_datakey")
    if fn is None:
        r.missing("find_used_datakey")
        return r
    m = find_first(fn.body, "Match")
    pats = [flat(show_pat(a["pat"])) for a in (m or {"arms": []})["arms"]]
    want = ["LocaleValue::Subkeys{keys:keys,..}", "LocaleValue::Value{value:InterpolOrLit::Lit(_),..}", "LocaleValue::Value{value:InterpolOrLit::Interpol(interpolation_keys),..}"]
    if sorted(pats) == sorted(want):
        r.inst("find_used_datakey#shapes", "Subkeys / literal value / interpolated value, no catch-all")
    else:
        r.viol("R1:find_used_datakey#shapes", "the match over LocaleValue is %s" % pats, file=fn.file, line=fn.line)
    for a in (m or {"arms": []})["arms"]:
        p = flat(show_pat(a["pat"]))
        body = flatp(show(a["body"]))
        if p.startswith("LocaleValue::Subkeys"):
            if body.strip("{}") == "find_used_datakeykeys,used_icu_keys":
                r.inst("find_used_datakey#subkeys", "recurses with the same accumulator")
            else:
                r.viol("R1:find_used_datakey#subkeys", "sub-keys are not walked with the same accumulator: `%s`" % body, file=fn.file, line=a["line"])
        elif "InterpolOrLit::Lit" in p:
            if body.strip("{}") == "":
                r.inst("find_used_datakey#literal", "a literal has no variable")
            else:
                r.viol("R1:find_used_datakey#literal", "unexpected work for literals: `%s`" % body, file=fn.file, line=a["line"])
        elif "InterpolOrLit::Interpol" in p:
            if has(body, "for_,var_infosininterpolation_keys.iter_vars{"):
                r.inst("find_used_datakey#vars", "every variable: iter_vars()")
            else:
                r.viol("R1:find_used_datakey#vars", "the variables are not all visited", file=fn.file, line=a["line"])
            if re.search(r"(forformatterin&var_infos\.formatters\{|var_infos\.formatters\.iter)", body):
                r.inst("find_used_datakey#formatters", "every formatter recorded for the variable")
            else:
                r.viol("R1:find_used_datakey#formatters", "the formatters of a variable are not all visited", file=fn.file, line=a["line"])
    t = flatp(show(fn.body))
    if has(t, "forlocale_valueinkeys.0.values{"):
        r.inst("find_used_datakey#keys", "every key of the level: keys.0.values()")
    else:
        r.viol("R1:find_used_datakey#keys", "not every key of a level is visited", file=fn.file, line=fn.line)
    fn2 = ast.fn(PL, "iter_vars", impl_self="InterpolationKeys")
    t2 = flatp(show(fn2.body)) if fn2 else ""
    if same(t2, "{self.variables.iter.map|key,value|key.clone,value}"):
        r.inst("InterpolationKeys::iter_vars", "all variables")
    else:
        r.viol("R1:iter_vars", "iter_vars is `%s`" % t2, file=PL)
    # MIR: no early exit, no short-circuiting adaptor
    for name in ("leptos_i18n_build::datakey::find_used_datakey", "leptos_i18n_build::TranslationsInfos::get_icu_keys_inner"):
        b = prog.body(name)
        if b is None:
            r.missing(name)
            continue
        short = name.split("::")[-1]
        fam = prog.family(b)
        n = 0
        for bb in fam:
            for (line, ok, why) in _loop_exits_only_on_exhaustion(bb):
                n += 1
                if ok:
                    r.inst("%s#loop@%s" % (short, "closure" if bb is not b else "fn"), why)
                else:
                    r.viol("R1:%s#early-exit" % short, why, file=bb.file, line=line)
            for i, t3 in bb.calls():
                f, rs = callee_of(t3)
                for nm in (f, rs):
                    if nm and re.search(SHORT_CIRCUIT, nm) and not (re.search(r"::next$", nm) and M.loop_of(bb, i)):
                        r.viol("R1:%s#short-circuit:%s" % (short, nm.split("::")[-1]), "`%s` can stop before every element was seen" % nm.split("::")[-1], file=bb.file, line=t3.get("line"))
                        break
    b = prog.body("leptos_i18n_build::TranslationsInfos::get_icu_keys_inner")
    if b is not None:
        calls = M.call_blocks(b, r"datakey::find_used_datakey$")
        ok = len(calls) == 2
        for c in calls:
            a = op_place(b.blocks[c]["term"]["args"][1])
            # the accumulator is the function's own parameter (reborrowed)
            ok = ok and a is not None and _from_param(b, a["l"], 2)
        inloop = [c for c in calls if M.loop_of(b, c)]
        fn3 = ast.fn(BL, "get_icu_keys_inner", impl_self="TranslationsInfos")
        t3 = flatp(show(fn3.body)) if fn3 else ""
        if ok and len(inloop) == 1 and has(t3, "BuildersKeys::NameSpaces{keys:keys,..}=>{forbuilder_keysinkeys.values{") and has(t3, "BuildersKeys::Locales{keys:keys,..}=>{"):
            r.inst("get_icu_keys_inner", "every namespace (keys.values()) or the single key set, same accumulator")
        else:
            r.viol("R1:get_icu_keys_inner", "not every namespace is walked into the accumulator", file=b.file, line=b.line)
    fn4 = ast.fn(BL, "get_icu_keys", impl_self="TranslationsInfos")
    t4 = flatp(show(fn4.body)) if fn4 else ""
    if same(t4, "{letmutused_icu_keys=HashSet::new;self.get_icu_keys_inner&mutused_icu_keys;datakey::get_keysused_icu_keys}"):
        r.inst("get_icu_keys", "fresh set -> walk -> every option expanded")
    else:
        r.viol("R1:get_icu_keys", "is `%s`" % t4, file=BL)
    fn5 = ast.fn(DK, "get_keys")
    t5 = flatp(show(fn5.body)) if fn5 else ""
    if same(t5, "{used_icu_keys.into_iter.flat_mapOptions::into_data_keys}"):
        r.inst("get_keys", "flat_map(into_data_keys) over every option")
    else:
        r.viol("R1:get_keys", "is `%s`" % t5, file=DK)
    fn6 = ast.fn(BL, "build_datagen_driver_with_data_keys", impl_self="TranslationsInfos")
    t6 = flatp(show(fn6.body)) if fn6 else ""
    if has(t6, "letmuticu_keys:HashSet<DataKey>=self.get_icu_keys.collect;icu_keys.extendkeys;") and has(t6, "DatagenDriver::new.with_keysicu_keys.with_locales_no_fallbacklocales,Default::default") and has(t6, "letlocales=self.get_locales_langids;"):
        r.inst("build_datagen_driver_with_data_keys", "detected keys + user keys; the configured locales")
    else:
        r.viol("R1:build_datagen_driver_with_data_keys", "the driver is not given the detected keys and locales", file=BL)
    return r


def _from_param(b, local, param, depth=6):
    seen = set()
    cur = [local]
    while cur and depth:
        depth -= 1
        nxt = []
        for l in cur:
            if l == param:
                return True
            if l in seen:
                continue
            seen.add(l)
            for (bi, j, s) in b.defs().get(l, []):
                if j == "term":
                    continue
                rv = s["rv"]
                for p in [rv.get("place")] + [op_place(o) for o in rv.get("ops", [])]:
                    if p:
                        nxt.append(p["l"])
        cur = nxt
    return param in cur


def r2_tables(ctx, prog, evaluated=False):
    r = Rule("C20.R2", "formatter -> option family and plural detection tables are exact",
             "`plural data if and only if some key is a plural, and each formatter family's data if and only if that formatter is used`",
             floor=2 if evaluated else 9)
    ast = ctx.ast
    fn = ast.fn(DK, "find_used_datakey")
    if fn is None:
        r.missing("find_used_datakey")
        return r
    if evaluated:
        # the tables themselves are decided by R0 (evaluation); here: the enum the table must cover, and who records counts
        e = ast.enum("leptos_i18n_parser/src/utils/formatter.rs", "Formatter")
        ev = sorted(v["name"] for v in e["variants"]) if e else []
        want = dict(FMT2OPT, **{"None": "<skip>"})
        if ev != sorted(want):
            r.viol("R2:formatter-table#variants", "Formatter has variants %s, the evaluated universe (R0) knows %s" % (ev, sorted(want)), file=DK)
        else:
            r.inst("Formatter variants", "%s: all of them are in the universe evaluated by R0" % ", ".join(ev))
        return _r2_writers(ctx, prog, r)
    got = {}
    wild = False
    for m in find_all(fn.body, "Match"):
        pats = " ".join(show_pat(a["pat"]) for a in m["arms"])
        if "Formatter::" not in pats:
            continue
        for a in m["arms"]:
            p = flat(show_pat(a["pat"]))
            vs = re.findall(r"Formatter::(\w+)", p)
            if not vs:
                wild = True
                continue
            body = flat(show(a["body"]))
            mm = re.search(r"Options::(\w+)", body)
            for v in vs:
                got[v] = mm.group(1) if mm else ("<skip>" if re.match(r"^\{?(continue|None)\}?$", body) else body)
    want = dict(FMT2OPT, **{"None": "<skip>"})
    if wild:
        r.viol("R2:formatter-table#catch-all", "a catch-all arm hides formatter variants", file=fn.file, line=fn.line)
    for v, o in sorted(want.items()):
        if got.get(v) == o:
            r.inst("Formatter::%s" % v, "-> %s" % o)
        else:
            r.viol("R2:formatter-table#%s" % v, "Formatter::%s maps to %s, expected %s" % (v, got.get(v), o), file=fn.file, line=fn.line)
    e = ast.enum("leptos_i18n_parser/src/utils/formatter.rs", "Formatter")
    ev = sorted(v["name"] for v in e["variants"]) if e else []
    if ev != sorted(want):
        r.viol("R2:formatter-table#variants", "Formatter has variants %s, the table knows %s" % (ev, sorted(want)), file=DK)
    # plural detection
    ok = False
    for n in find_all(fn.body, "If"):
        c = flat(show(n["cond"]))
        th = flatp(show(n["then"]))
        if c in ("matches!(var_infos.range_count,Some(RangeOrPlural::Plural))", "(var_infos.range_count==Some(RangeOrPlural::Plural))") and th.strip("{};") == "used_icu_keys.insertOptions::Plurals":
            ok = True
    ins = [n for n in find_all(fn.body, "MethodCall") if n["method"] == "insert" and "Options::Plurals" in flat(show(n))]
    if ok and len(ins) == 1:
        r.inst("plural detection", "Options::Plurals inserted exactly when range_count == Some(Plural)")
    else:
        r.viol("R2:plural-detection", "Options::Plurals is not inserted exactly under `range_count == Some(RangeOrPlural::Plural)`", file=fn.file, line=fn.line)
    return _r2_writers(ctx, prog, r)


def _r2_writers(ctx, prog, r):
    # push_count is the only writer of range_count, Plural only from the Plurals arm (C08.R1 checks the arm itself)
    b = prog.body("leptos_i18n_parser::parse_locales::locale::InterpolationKeys::push_count")
    if b is None:
        r.missing("InterpolationKeys::push_count")
    else:
        writers = []
        for name, bb in prog.bodies.items():
            if bb.crate != "leptos_i18n_parser":
                continue
            for i, j, s in bb.assigns():
                pl = s["place"]
                if pl["p"] and re.search(r"locale::VarInfo$", re.sub(r"^&(mut )?", "", bb.local_ty(pl["l"]))) and pl["p"][-1] in (".1",) and pl["p"][0] == "*":
                    writers.append(name)
            for i, t in bb.calls():
                # any call handed a `&mut` to the field can write it (Option::replace, mem::replace, Option::insert, ..)
                for arg in t["args"]:
                    a = op_place(arg)
                    if a and not a["p"] and bb.local_ty(a["l"]).startswith("&mut") and M.derives_from_field(bb, prog, a["l"], "locale::VarInfo", "range_count"):
                        writers.append(name)
        writers = sorted(set(writers))
        if writers == ["leptos_i18n_parser::parse_locales::locale::InterpolationKeys::push_count"]:
            r.inst("VarInfo.range_count", "written only by InterpolationKeys::push_count")
        else:
            r.viol("R2:range_count#writers", "VarInfo.range_count is written by %s" % writers, file=PL)
    return r


FAMILY_CTORS = {
    "FormatNums": [("try_new_num_formatter", "icu_decimal", "FixedDecimalFormatter", "try_new")],
    "FormatDateTime": [("try_new_date_formatter", "icu_datetime", "DateFormatter", "try_new_with_length"),
                       ("try_new_time_formatter", "icu_datetime", "TimeFormatter", "try_new_with_length"),
                       ("try_new_datetime_formatter", "icu_datetime", "DateTimeFormatter", "try_new")],
    "FormatList": [("try_new_and_list_formatter", "icu_list", "ListFormatter", "try_new_and_with_length"),
                   ("try_new_or_list_formatter", "icu_list", "ListFormatter", "try_new_or_with_length"),
                   ("try_new_unit_list_formatter", "icu_list", "ListFormatter", "try_new_unit_with_length")],
    "Plurals": [("try_new_plural_rules", "icu_plurals", "PluralRules", "try_new")],
    "FormatCurrency": [("try_new_currency_formatter", "icu_experimental", "CurrencyFormatter", "try_new")],
}


def r3_data_closure(ctx):
    r = Rule("C20.R3", "each option family lists every data key its run-time constructors load",
             "`A data provider generated from it therefore never lacks data the generated code asks for at run time`", floor=9)
    ast = ctx.ast
    fn = ast.fn(DK, "into_data_keys", impl_self="Options")
    if fn is None:
        r.missing("Options::into_data_keys")
        return r
    reg, regwhere = depsrc.datagen_registry(ctx.repo)
    if reg is None:
        r.missing("icu_datagen registry.rs", "(dependency source not found through cargo metadata)")
        return r
    known_names = set(v for v in reg.values() if v)
    # the key list of every family: Options::into_data_keys evaluated (rules/absint.py) for each variant - whatever helpers
    # or dependency tables it is built from
    from rules import absint
    from rules.absint import AEval, C as _C, L as _L
    e0 = ast.enum(DK, "Options")
    listed = {}
    funcs_dk = absint.file_funcs(ast, DK, impl_self="Options")
    for var in (v["name"] for v in (e0 or {"variants": []})["variants"]):
        ev_ = AEval(funcs=funcs_dk)
        ev_.path_builtins = {"icu_datagen::keys": lambda a: a[0], "keys": lambda a: a[0], "icu_datagen::key": lambda a: a[0]}
        got = ev_.run_fn(fn, [_C(var)])
        if isinstance(got, str) or got[0] != "list" or not all(x[0] == "str" for x in got[1]):
            r.viol("R3:into_data_keys#%s" % var, "the keys of Options::%s cannot be determined: %s" % (var, got if isinstance(got, str) else absint.fmt(got)[:120]), file=fn.file, line=fn.line)
            continue
        listed[var] = [x[1] for x in got[1]]
    # the keys requested for a project = the union over the families it uses: get_keys evaluated on every subset of the families
    gk = ast.fn(DK, "get_keys")
    if gk is None:
        r.missing("datakey::get_keys")
    elif listed:
        import itertools
        fams_ = sorted(listed)
        badk = None
        nsub = 0
        for k_ in range(len(fams_) + 1):
            for sub in itertools.combinations(fams_, k_):
                ev_ = AEval(funcs=funcs_dk)
                ev_.path_builtins = {"icu_datagen::keys": lambda a: a[0], "keys": lambda a: a[0], "icu_datagen::key": lambda a: a[0]}
                try:
                    absint.set_program(ast)
                    got = ev_.run_fn(gk, [_L(*[_C(x) for x in sub])])
                except absint.Unknown as u:
                    got = "UNKNOWN: %s" % u
                if isinstance(got, str) or got[0] != "list" or not all(x[0] == "str" for x in got[1]):
                    badk = badk or "get_keys cannot be determined for %s: %s" % (list(sub), got if isinstance(got, str) else absint.fmt(got)[:100])
                    continue
                nsub += 1
                want_ = set(x for f_ in sub for x in listed[f_])
                have_ = set(x[1] for x in got[1])
                if have_ != want_:
                    badk = badk or "a project using %s requests %d keys; the union of its families' keys has %d (missing: %s)" % (list(sub), len(have_), len(want_), sorted(want_ - have_)[:4])
        if badk:
            r.viol("R3:get_keys#union", badk, file=gk.file, line=gk.line)
        else:
            r.inst("get_keys", "%d subsets of the %d families: the requested keys are exactly the union of each used family's keys" % (nsub, len(fams_)))
    e = ast.enum(DK, "Options")
    ev = sorted(v["name"] for v in e["variants"]) if e else []
    if ev != sorted(FAMILY_CTORS) or sorted(listed) != ev:
        r.viol("R3:Options#variants", "Options has %s, into_data_keys covers %s, the constructor table %s" % (ev, sorted(listed), sorted(FAMILY_CTORS)), file=DK)
    # which ICU constructor each provider method calls (compiled-data impl in the run-time crate)
    for fam, ctors in sorted(FAMILY_CTORS.items()):
        names = listed.get(fam, [])
        unknown = [n for n in names if n not in known_names]
        if unknown:
            r.note("%s: %s are not in %s and are dropped by icu_datagen::keys (they request nothing)" % (fam, unknown, regwhere))
        eff = set(n for n in names if n in known_names)
        for (method, crate, ty, ctor) in ctors:
            fns = [f for f in ast.fns_named(RT, method) if f.body is not None and f.impl_trait and "get_provider" not in flat(show(f.body))]
            body = flatp(show(fns[0].body)).strip("{}") if len(fns) == 1 else ""
            if not body.startswith("%s::%s" % (ty, ctor)):
                r.viol("R3:%s#%s" % (fam, method), "the compiled-data provider builds it with `%s`, the table expects %s::%s" % (body, ty, ctor), file=RT)
                continue
            mk, where = depsrc.required_markers(ctx.repo, crate, ty, ctor)
            if mk is None:
                r.missing("%s::%s_unstable" % (ty, ctor), where)
                continue
            need = {}
            for x in mk:
                need[x] = reg.get(x)
            nokey = sorted(x for x, k in need.items() if not k)
            if nokey:
                r.viol("R3:%s#%s:unregistered" % (fam, method), "markers %s required by %s::%s have no icu_datagen key" % (nokey, ty, ctor), file=DK)
            missing = sorted(k for k in need.values() if k and k not in eff)
            if missing:
                for k in missing:
                    r.viol("R3:%s#%s:%s" % (fam, ty, k), "Options::%s does not request `%s`, which %s::%s loads (%s): a provider generated for a project using only this family lacks it" % (fam, k, ty, ctor, where), file=DK, line=fn.line)
            else:
                r.inst("%s / %s::%s" % (fam, ty, ctor), "%d required key(s), all requested (%s)" % (len(need), where))
    return r


def r4_locales(ctx, prog):
    r = Rule("C20.R4", "the reported locales are the configured ones", "`the locales it reports are exactly the configured ones`", floor=3)
    ast = ctx.ast
    fn = ast.fn(BL, "get_locales", impl_self="TranslationsInfos")
    t = flatp(show(fn.body)) if fn else ""
    b = prog.body("leptos_i18n_build::TranslationsInfos::parse_inner")
    if same(t, "{self.locales_names.iter.cloned}"):
        r.inst("get_locales", "the stored list, unfiltered")
    else:
        r.viol("R4:get_locales", "get_locales is `%s`: not the list taken from the configuration" % t, file=BL)
    if b is None:
        r.missing("TranslationsInfos::parse_inner")
    else:
        aggs = [(i, s) for i, j, s in b.aggregates("leptos_i18n_build::TranslationsInfos")]
        ok = False
        for (i, s) in aggs:
            fields = s["rv"].get("fields", [])
            if "locales_names" not in fields:
                continue
            op = s["rv"]["ops"][fields.index("locales_names")]
            p = op_place(op)
            if p and M.derives_from_field(b, prog, p["l"], "cfg_file::ConfigFile", "locales", depth=10):
                ok = True
        bad = []
        for bb in prog.family(b):
            for i, t3 in bb.calls():
                nm = callee_name(t3) or ""
                if re.search(r"Iterator::(filter|filter_map|skip|take|skip_while|take_while|step_by|map_while)$", nm):
                    bad.append(nm.split("::")[-1])
        if ok and not bad:
            r.inst("parse_inner#locales_names", "built from cfg_file.locales, no filtering adaptor")
        else:
            r.viol("R4:parse_inner#locales_names", "the stored locale list does not come (unfiltered) from the configuration (%s)" % (bad or "provenance"), file=b.file, line=b.line)
    fn = ast.fn(BL, "get_locales_langids", impl_self="TranslationsInfos")
    t = flatp(show(fn.body)) if fn else ""
    if same(t, "{self.get_locales.map|locale|locale.parse::<LanguageIdentifier>.unwrap}"):
        r.inst("get_locales_langids", "every reported locale, parsed (validated in parse_inner, see C09)")
    else:
        r.viol("R4:get_locales_langids", "is `%s`" % t, file=BL)
    return r


def r0_options(ctx):
    """abstract evaluation (rules/absint.py) of get_icu_keys / get_icu_keys_inner / find_used_datakey on generated key
    trees with plurals and formatters placed anywhere, of the locale accessors and of build_datagen_driver; the expected
    option set is computed from the tree"""
    import itertools
    from rules import absint
    from rules.absint import AEval, A, C, CF, L, T, UNIT
    r = Rule("C20.R0", "derived options = exactly the plural / formatter families present anywhere in the key tree",
             "`include plural data iff some key - in any locale or namespace, at any subkey depth - is a plural, and each formatter "
             "family's data iff that formatter is used; the locales it reports are exactly the configured ones`", floor=4)
    ast = ctx.ast
    funcs = dict(absint.file_funcs(ast, DK))
    funcs.update(absint.file_funcs(ast, BL, impl_self="TranslationsInfos"))
    # the parser's accessors of the key information (reached by method name on the values below)
    pf = absint.file_funcs(ast, PL)
    for q in ("InterpolOrLit::is_interpol", "InterpolationKeys::iter_vars", "InterpolationKeys::iter_keys", "InterpolationKeys::iter_comps"):
        if q in pf:
            funcs[q] = pf[q]
            funcs.setdefault(q.split("::")[1], pf[q])
    gk = funcs.get("TranslationsInfos::get_icu_keys")
    fud = funcs.get("find_used_datakey")
    if gk is None or fud is None:
        r.missing("TranslationsInfos::get_icu_keys / find_used_datakey")
        return r, False, "anchor missing"
    S = lambda x: ("str", x)  # noqa: E731
    FAM = {"Number": "FormatNums", "Date": "FormatDateTime", "Time": "FormatDateTime", "DateTime": "FormatDateTime", "List": "FormatList", "Currency": "FormatCurrency"}

    def fmt_value(k):
        return C(k) if k == "None" else (C(k, A("o")) if k in ("Number", "Date", "Time") else C(k, A("o1"), A("o2")))

    def var(count=None, fmts=()):
        return CF("VarInfo", range_count=C("None") if count is None else C("Some", C("Plural") if count == "plural" else C("Range", A("i32"))),
                  formatters=L(*[fmt_value(k) for k in fmts]))

    def value(*vars_):
        return CF("Value", value=C("Interpol", CF("InterpolationKeys", variables=L(*[T(S("v%d" % i), v) for i, v in enumerate(vars_)]), components=L())), defaults=A("d"))

    def lit():
        return CF("Value", value=C("Lit", C("String")), defaults=A("d"))

    def sub(keys):
        return CF("Subkeys", keys=bki(keys), locales=L())

    def bki(keys):
        return CF("BuildersKeysInner", **{"0": L(*[T(S("k%d" % i), v) for i, v in enumerate(keys)])})

    def expected(node, out):
        k = node[1]
        fs = absint.fields_of(node)
        if k == "BuildersKeysInner":
            for x in fs["0"][1]:
                expected(x[1][1], out)
        elif k == "Subkeys":
            expected(fs["keys"], out)
        elif k == "Value" and fs["value"][1] == "Interpol":
            for x in absint.fields_of(fs["value"][2][0])["variables"][1]:
                vi = absint.fields_of(x[1][1])
                if vi["range_count"] == C("Some", C("Plural")):
                    out.add("Plurals")
                for f in vi["formatters"][1]:
                    if f[1] in FAM:
                        out.add(FAM[f[1]])

    def mk():
        ev = AEval(funcs=funcs, builtins={"into_data_keys": lambda rv, a: L(rv)})
        ev.type_of_ctor = {"Interpol": "InterpolOrLit", "Lit": "InterpolOrLit", "InterpolationKeys": "InterpolationKeys"}
        ev.path_builtins = {"datakey::get_keys": lambda a: a[0], "get_keys": lambda a: a[0], "Options::into_data_keys": lambda a: L(a[0])}
        return ev
    # value atoms: every family alone, None before / after a formatter, plural / range counts, several variables
    atoms = [lit(), value(var()), value(var(fmts=("None",))), value(var("plural")), value(var("range")), value(var(fmts=("None", "Number"))), value(var(fmts=("Number", "None"))),
             value(var(fmts=("Date",))), value(var(fmts=("Time",))), value(var(fmts=("DateTime",))), value(var(fmts=("List",))), value(var(fmts=("Currency",))),
             value(var(), var("plural", ("List",))), value(var(fmts=("None",)), var(fmts=("Currency", "Date")))]
    five = [value(var("plural")), value(var(fmts=("Date",))), value(var(fmts=("List",))), value(var(fmts=("Number",))), value(var(fmts=("Currency",)))]
    trees = [[a] for a in atoms]
    trees += [[lit(), a] for a in atoms[3:]] + [[sub([a])] for a in atoms[3:]] + [[lit(), sub([lit(), sub([a])])] for a in atoms[3:8]]
    trees += [list(p) for p in itertools.permutations(five)][:: (1 if ctx.tier == "thorough" else 7)]
    trees += [five[:4] + [sub([lit(), five[4]])], [sub(five[:4]), five[4]], [sub([sub(five[1:])]), five[0]]]
    n = 0
    bad = None
    for tr in trees:
        for shape in ("locales", "namespaces-last", "namespaces-first"):
            if shape == "locales":
                bk = CF("Locales", keys=bki(tr), locales=L())
            else:
                # the interesting keys only in one namespace, the other namespaces hold literals (and all five families once)
                others = [bki([lit()]), bki(five[:2])] if len(tr) < 5 else [bki([lit()])]
                maps = others + [bki(tr)] if shape == "namespaces-last" else [bki(tr)] + others
                bk = CF("NameSpaces", keys=L(*[T(S("ns%d" % i), m) for i, m in enumerate(maps)]), namespaces=L())
            want = set()
            if shape == "locales":
                expected(bki(tr), want)
            else:
                for m in maps:
                    expected(m, want)
            this = CF("TranslationsInfos", locales=bk, locales_names=L(S("en"), S("fr")), paths=L())
            ev = mk()
            got = ev.run_fn(gk, [this])
            if isinstance(got, str):
                return r, False, got
            n += 1
            have = {x[1] for x in got[1]} if got[0] == "list" else None
            if have != want and bad is None:
                bad = "a project (%s) whose keys are %s: derived options %s, present families %s" % (
                    shape, absint.fmt(bki(tr))[:300], sorted(have) if have is not None else absint.fmt(got), sorted(want))
    if bad:
        r.viol("R0:get_icu_keys#options", bad, file=DK, line=fud.line)
    else:
        r.inst("get_icu_keys", "%d key trees (families alone / together in every order, `None` formatters around real ones, plural vs range counts, sub-key depth <= 3, one of several namespaces): derived options = families present" % n)
    # locales: reported = configured, in order
    gl = funcs.get("TranslationsInfos::get_locales")
    if gl is not None:
        names = L(S("en"), S("fr-CA"), S("zh"))
        got = AEval(funcs=funcs).run_fn(gl, [CF("TranslationsInfos", locales=A("keys"), locales_names=names, paths=L())])
        if isinstance(got, str):
            return r, False, got
        if got != names:
            r.viol("R0:get_locales", "with configured locales [en, fr-CA, zh] get_locales yields %s" % absint.fmt(got), file=BL, line=gl.line)
        else:
            r.inst("get_locales", "the stored list of configured locales, unfiltered, in order")
    # ... and the language identifiers handed to the data generator are those names parsed, subtag for subtag (a variant such as
    # `ca-valencia` is a locale of its own for a provider without fallback)
    gli = funcs.get("TranslationsInfos::get_locales_langids")
    if gli is not None:
        def parse_langid(rv, a):
            parts = rv[1].split("-") if rv[0] == "str" else None
            if not parts:
                raise absint.Unknown("parse of a non string")
            return C("Ok", CF("LanguageIdentifier", language=S(parts[0]), script=C("None"), region=(C("Some", S(parts[1])) if len(parts) > 1 and len(parts[1]) == 2 else C("None")),
                              variants=L(*[S(x) for x in parts[1:] if len(x) > 4])))
        names2 = L(S("en"), S("fr-CA"), S("ca-valencia"), S("zh"))
        ev_l = AEval(funcs=funcs, builtins={"parse": parse_langid})
        got = ev_l.run_fn(gli, [CF("TranslationsInfos", locales=A("keys"), locales_names=names2, paths=L())])
        if isinstance(got, str):
            return r, False, got
        want_l = L(*[parse_langid(x, [])[2][0] for x in names2[1]])
        if got != want_l:
            r.viol("R0:get_locales_langids", "with configured locales [en, fr-CA, ca-valencia, zh] the language identifiers handed to the data generator are %s; expected each name parsed as it is: %s"
                   % (absint.fmt(got)[:300], absint.fmt(want_l)[:300]), file=BL, line=gli.line)
        else:
            r.inst("get_locales_langids", "every configured locale, parsed as written (region and variant subtags kept), in order")
    pi = funcs.get("TranslationsInfos::parse_inner")
    if pi is not None:
        K = lambda n_: CF("Key", name=S(n_))  # noqa: E731
        cfg = CF("ConfigFile", default=K("en"), locales=L(K("en"), K("fr-CA"), K("zh")), name_spaces=C("Some", L()), locales_dir=S("locales"), translations_uri=C("None"), extensions=L())
        ev = AEval(funcs=funcs, builtins={"parse": lambda rv, a: C("Ok", A("langid"))})
        ev.path_builtins = {"parse_locales::parse_locales_raw": lambda a: C("Ok", T(A("raw"), cfg, A("fkp"), A("warnings"), L(S("p1")))),
                            "parse_locales::make_builder_keys": lambda a: C("Ok", A("builder-keys"))}
        got = ev.run_fn(pi, [C("None")])
        if isinstance(got, str):
            return r, False, got
        ok = got[0] == "ctor" and got[1] == "Ok" and got[2] and got[2][0][0] == "ctor"
        ln = absint.fields_of(got[2][0]).get("locales_names") if ok else None
        if ln != L(S("en"), S("fr-CA"), S("zh")):
            r.viol("R0:parse_inner#locales_names", "with configured locales [en, fr-CA, zh] (and no namespace) parse_inner stores %s" % (absint.fmt(ln) if ln else absint.fmt(got)[:120]), file=BL, line=pi.line)
        else:
            r.inst("parse_inner", "locales_names = the configuration's locale list (also with an empty namespace list)")
    bd = funcs.get("TranslationsInfos::build_datagen_driver_with_data_keys")
    if bd is not None:
        log = {}
        ev = AEval(funcs=funcs, builtins={
            "get_icu_keys": lambda rv, a: L(A("detected-1"), A("detected-2")), "get_locales_langids": lambda rv, a: L(A("en"), A("fr")),
            "with_keys": lambda rv, a: (log.__setitem__("keys", a[0]), rv)[1], "with_locales_no_fallback": lambda rv, a: (log.__setitem__("locales", a[0]), rv)[1]})
        ev.path_builtins = {"DatagenDriver::new": lambda a: A("driver")}
        got = ev.run_fn(bd, [CF("TranslationsInfos", locales=A("k"), locales_names=L(), paths=L()), L(A("user-1"))])
        if isinstance(got, str):
            return r, False, got
        kk = set(log.get("keys", L())[1]) if log.get("keys", ("x",))[0] == "list" else None
        if kk != {A("detected-1"), A("detected-2"), A("user-1")} or log.get("locales") != L(A("en"), A("fr")):
            r.viol("R0:build_datagen_driver_with_data_keys", "the driver receives keys %s and locales %s: expected the detected keys plus the caller's, and the configured locales" % (
                absint.fmt(log.get("keys")) if log.get("keys") else None, absint.fmt(log.get("locales")) if log.get("locales") else None), file=BL, line=bd.line)
        else:
            r.inst("build_datagen_driver_with_data_keys", "keys = detected + caller's; locales = the configured ones")
    return r, True, None


def shared(ctx):
    """clauses decided by other properties' machinery that this property depends on"""
    from rules import c08
    from rules.common import borrow, skip_icu_gates
    r5 = borrow(c08.r1_collector(ctx), "C20.R5", "the key information the options are derived from holds every variable of every value kind, plural forms included",
                "`a formatter that is used must have its data requested`: the helper reads formatters off the collected variables; a variable that only occurs "
                "inside a plural form (or a range branch, a component) and is not collected takes its formatter's data out of the provider", only=r"get_keys_inner", floor=1)
    r6 = skip_icu_gates(ctx, "C20.R6", "the helper's parse accepts every formatter and plural regardless of the parser's own feature set",
                        "`the helper derives the options from the translations`: it parses with SKIP_ICU_CFG, which must stand in for each formatter / plural "
                        "feature wherever the parser tests one; a gate that ignores the flag makes the helper fail (or skip) exactly the translations whose data it should request")
    k2 = c08.r2_union(ctx, ctx.mir("main"))
    r8 = borrow(k2, "C20.R8", "a key's information is the union over every locale: each locale's value is collected in full (counts included) into the key's own set",
                "`plural data if and only if some key - in any locale - is a plural`: the plural count of a key is recorded by the same collection walk as its variables; a merge that copies "
                "only part of what a non-default locale's value holds (variables and components but not the count) hides a plural written in that locale only", only=r"ParsedValue::merge", floor=1)
    from rules import c05
    r9 = borrow(c05.r2_candidates(ctx), "C20.R9", "plural forms are merged into a plural at every sub-key depth",
                "`at any subkey depth`: the helper detects a plural by the merged `Plurals` value; forms inside a sub-key group that are left as ordinary keys (the merge not "
                "recursing into groups) make the helper omit plural data", only=r"merge_plurals", floor=1)
    r7 = borrow(k2, "C20.R7", "every formatter a variable is used with is recorded on it",
                "`each formatter family's data iff that formatter is used`: the helper reads the formatters off the variables of the key information; a signature that keeps "
                "one formatter per `kind of input` (number and currency both take numbers) loses the currency family when the same variable is also a plain number", only=r"push_var", floor=1)
    return [r5, r6, r7, r8, r9]


def run(ctx):
    import os
    prog = ctx.mir("main")
    r0, ok, why = r0_options(ctx)
    if ok and not os.environ.get("VERIF_FORCE_FALLBACK"):
        r2 = r2_tables(ctx, prog, evaluated=True)
        return [r0, r2, r3_data_closure(ctx)] + shared(ctx)
    if not ok and not r0.violations:
        r0.instances[:] = []
        r0.inst("evaluation not available", "fallback to the structural rules R1 / R4: %s" % str(why)[:160])
        r0.viol("R0:undecided", "the evaluation cannot interpret the current code (%s): the clauses it decides are NOT decided on this tree; the structural rules reported alongside only cover part of them (fail closed)" % str(why)[:300])
        r0.floor = 1
    return [r0, r1_walk(ctx, prog), r2_tables(ctx, prog), r3_data_closure(ctx), r4_locales(ctx, prog)] + shared(ctx)


MANIFEST_ENTRY = {
    "technique": "static analysis: abstract evaluation (rules/absint.py) of get_icu_keys -> get_icu_keys_inner -> find_used_datakey, get_locales, parse_inner and the datagen driver over generated key trees (each family alone / all five in every order, formatters on count variables, sub-key depth, namespaces), and of Options::into_data_keys per family; the data markers each run-time ICU4X constructor loads are read from the locked dependency sources (py/depsrc.py) and must be covered by the family's evaluated key list; MIR loop-exit rules as fallback; abstract evaluation of get_keys on every subset of the option families (exactly the union of their keys); the collector clause of C08.R1 and the SKIP_ICU_CFG normal-form rule shared with C11.R7; push_var evaluated (shared with C08.R2): every formatter a variable is used with is recorded; get_locales_langids evaluated on names with region and variant subtags (structured parse result); C20.R8 / R9: the merge clause of C08.R2 and the sub-key clause of C05.R2 (merge_plurals) shared",
    "level_text": "Finite abstract evaluation of the option walk (if and only if, any depth, any namespace) and of the locale list; the data keys of each family are closed against the markers required by the ICU4X constructors the run time calls, read from dependency sources. Generated ICU data is not inspected.",
    "level_note": "Fixed upstream: D22 (currency lacked decimal/symbols@1), D23 (namespaces = [] reported no locale). Completeness of the walked key information over locales/foreign keys is C08's clause.",
}
