"""C13 Locale identifiers round-trip through every representation."""
import re

from report import Rule
from rules.common import same, xquotes
from astlib import find_all, find_first, show, show_pat, quotes_in, tok_text, method_chain, walk, tok_find_seq, tok_walk, norm

EXPLANATION = (
    "Primary clause (R0): create_locales_enum is interpreted abstractly (rules/absint.py; nothing compiled or run) to its token text for a locale list with regional, right-to-left and non-canonically spelled names, and every generated table is read back: a variant must be paired with its own configured name everywhere. The structural clause R1 is used only when the generator leaves the interpreter's fragment. Static structural analysis of the code-generation templates (syn facts of create_locales_enum and of the run-time "
    "helpers); nothing is expanded or executed. Decided clauses: (R1) every per-locale table of the generated enum (variants, "
    "as_str, from_str, ICU locale constants, as_icu_locale, direction, get_all) is produced from the configured locale list "
    "with no filter/skip/take/rev/dedup, so each locale appears exactly once and in configuration order (default first by "
    "C19); as_str and from_str arms are built from the same (identifier, name) pair in opposite directions; from_str matches "
    "the (optionally whitespace-trimmed) input exactly and falls back to Err(()); `#[default]` marks the first variant; "
    "Serialize goes through as_str, Deserialize through LocaleVisitor = from_str(..).unwrap_or_default(); the ICU constant of "
    "a locale is `locale!(<its name>)`; direction arms map LeftToRight/RightToLeft/other to the same-named Direction. (R2) "
    "ScopedLocale forwards every identity method of the Locale trait to the wrapped locale. NOT decided: ICU's parsing of "
    "a concrete name, CLDR directionality data, leptos-use's cookie codec."
)
ASSUMPTIONS = ["quote! emits interpolated values unchanged and repeats `#(..)*` once per element in order",
               "icu locale!() / LocaleDirectionality are correct", "FromToStringCodec uses FromStr/ToString (Display -> as_str)"]

ML = "leptos_i18n_macro/src/load_locales/mod.rs"
BAD = {"filter", "filter_map", "skip", "take", "rev", "dedup", "step_by", "skip_while", "take_while", "chain", "zip", "flat_map", "cycle", "sort", "sort_by", "sort_unstable", "retain"}


def flat(s):
    return re.sub(r"\s+", "", s)


def lets_of(fn):
    out = {}
    for l in find_all(fn.body, "Let"):
        p = l["pat"]
        if p["k"] == "PIdent" and "init" in l and p["name"] not in out:
            out[p["name"]] = l
    return out


def strip_ref(s):
    return re.sub(r"^&+", "", s)


def closure_env(chain):
    """follow `.map(|key| (e1, e2)).map(|(a, b)| quote!(..))` : return (env name->source text, final closure body)"""
    env = {}
    last_tuple = None
    body = None
    for m, args, node in chain:
        if m in ("map",) and args and args[0]["k"] == "Closure":
            cl = args[0]
            inp = cl["inputs"][0] if cl["inputs"] else None
            if inp is not None:
                if inp["k"] == "PIdent":
                    env[inp["name"]] = "elem" if last_tuple is None else "?"
                elif inp["k"] == "PTuple" and last_tuple is not None:
                    for pe, src in zip(inp["elems"], last_tuple):
                        if pe["k"] == "PIdent":
                            env[pe["name"]] = src
                elif inp["k"] == "PTuple":
                    for i, pe in enumerate(inp["elems"]):
                        if pe["k"] == "PIdent":
                            env[pe["name"]] = "elem.%d" % i
            b = cl["body"]
            body = b
            if b["k"] == "Tuple":
                last_tuple = [subst(strip_ref(show(e)), env) for e in b["elems"]]
            else:
                last_tuple = None
    return env, body


def subst(text, env):
    for k in sorted(env, key=len, reverse=True):
        text = re.sub(r"\b%s\b" % re.escape(k), env[k], text)
    return text


def quote_resolved(q, env):
    t = tok_text(q["tokens"])
    def rep(m):
        return "<" + env.get(m.group(1), "#" + m.group(1)) + ">"
    return flat(re.sub(r"#(\w+)", rep, t))


def r1_enum(ctx):
    r = Rule("C13.R1", "generated locale enum tables are complete, ordered and mutually inverse",
             "as_str/from_str/serde/cookie/ICU conversions are generated from these tables; a filtered or shifted table, a "
             "lenient fallback arm or a mismatched pair makes some name parse to another locale or some locale lose its name",
             floor=14)
    ast = ctx.ast
    fn = ast.fn(ML, "create_locales_enum")
    if fn is None:
        r.missing("create_locales_enum")
        return r
    lets = lets_of(fn)
    def src_chain(name):
        l = lets.get(name)
        if l is None:
            r.missing("let " + name)
            return None, None
        base, ch = method_chain(l["init"])
        return show(base), ch
    # per-locale tables and their sources
    tables = {"as_str_match_arms": "locales", "from_str_match_arms": "locales", "constant_names_ident": "locales",
              "const_icu_locales": "constant_names_ident", "as_icu_locale_match_arms": "constant_names_ident",
              "locids": "locales", "direction_match_arms": "locids"}
    for name, want_base in tables.items():
        base, ch = src_chain(name)
        if base is None:
            continue
        meths = [m for m, _, _ in ch if not m.startswith(".") and m != "?"]
        bad = [m for m in meths if m in BAD]
        if base != want_base or not meths or meths[0] != "iter" or bad:
            r.viol("R1:create_locales_enum#%s-source" % name, "`%s` is built from `%s.%s` (expected %s.iter() with no filtering/reordering adaptor)" % (name, base, ".".join(meths), want_base), file=fn.file, line=lets[name]["line"])
        else:
            r.inst("create_locales_enum#" + name, "%s.%s : one entry per configured locale, in order" % (base, ".".join(meths)))
    # as_str / from_str pairs
    res = {}
    for name in ("as_str_match_arms", "from_str_match_arms"):
        base, ch = src_chain(name)
        if ch is None:
            continue
        env, body = closure_env(ch)
        qs = xquotes(body) if body is not None else []
        res[name] = quote_resolved(qs[0], env) if qs else None
    if res.get("as_str_match_arms") != "<#enum_ident>::<elem.ident>=><elem.name>":
        r.viol("R1:create_locales_enum#as_str-arm", "as_str arm is `%s`, expected `Locale::<key.ident> => <key.name>`" % res.get("as_str_match_arms"), file=fn.file, line=fn.line)
    else:
        r.inst("as_str arm", "Locale::<key.ident> => <key.name>")
    if res.get("from_str_match_arms") != "<elem.name>=>Ok(<#enum_ident>::<elem.ident>)":
        r.viol("R1:create_locales_enum#from_str-arm", "from_str arm is `%s`, expected `<key.name> => Ok(Locale::<key.ident>)`" % res.get("from_str_match_arms"), file=fn.file, line=fn.line)
    else:
        r.inst("from_str arm", "<key.name> => Ok(Locale::<key.ident>) (inverse of as_str)")
    # ICU constants
    base, ch = src_chain("constant_names_ident")
    if ch is not None:
        env, body = closure_env(ch)
        t = flat(show(body)) if body is not None else ""
        if not re.match(r"^\{?\(key,format_ident!\(\"\{\}_LANGID\",key\.name\.to_uppercase\(\)\.replace\('-',\"_\"\)\)\)\}?$", t):
            r.viol("R1:create_locales_enum#const-name", "ICU constant naming changed: %s" % t, file=fn.file, line=fn.line)
        else:
            r.inst("constant_names_ident", "(key, <KEY>_LANGID)")
    base, ch = src_chain("const_icu_locales")
    if ch is not None:
        cl = ch[-2][1][0] if len(ch) >= 2 and ch[-2][1] else None
        cls = [a[0] for m, a, n in ch if m == "map" and a and a[0]["k"] == "Closure"]
        ok = False
        if cls:
            c = cls[0]
            t = flat(show(c["body"]))
            qs = xquotes(c["body"])
            qt = flat(tok_text(qs[0]["tokens"])) if qs else ""
            ok = flat(show_pat(c["inputs"][0])) == "(key,ident)" and "letlocale=&key.name" in t and \
                qt == "const#ident:&l_i18n_crate::reexports::icu::locid::Locale=&l_i18n_crate::reexports::icu::locid::locale!(#locale);"
        if ok:
            r.inst("const_icu_locales", "const <KEY>_LANGID = locale!(<key.name>) : the ICU locale of a variant is parsed from its own name")
        else:
            r.viol("R1:create_locales_enum#icu-const", "the ICU constant of a locale is no longer `locale!(<its own name>)`", file=fn.file, line=fn.line)
    base, ch = src_chain("as_icu_locale_match_arms")
    if ch is not None:
        env, body = closure_env(ch)
        qs = xquotes(body) if body is not None else []
        got = quote_resolved(qs[0], env) if qs else None
        if got != "<#enum_ident>::<elem.0>=><elem.1>":
            r.viol("R1:create_locales_enum#as_icu_locale-arm", "as_icu_locale arm is `%s`" % got, file=fn.file, line=fn.line)
        else:
            r.inst("as_icu_locale arm", "Locale::<key> => <its constant>")
    # direction
    l = lets.get("direction_match_arms")
    if l is not None:
        t = flat(show(l["init"]))
        want = ["Some(icu_locid_transform::Direction::LeftToRight)=>quote!(LeftToRight)", "Some(icu_locid_transform::Direction::RightToLeft)=>quote!(RightToLeft)", "_=>quote!(Auto)"]
        miss = [w for w in want if w not in t]
        qs = [flat(tok_text(q["tokens"])) for q in xquotes(l["init"])]
        if miss or "#enum_ident::#locale=>l_i18n_crate::Direction::#dir" not in qs or "|(locale,locid)|" not in t or "matchld.get(locid)" not in t:
            r.viol("R1:create_locales_enum#direction", "direction table changed (missing %s)" % miss, file=fn.file, line=l["line"])
        else:
            r.inst("direction arms", "LeftToRight -> LeftToRight, RightToLeft -> RightToLeft, otherwise Auto; keyed by the locale whose langid was looked up")
    l = lets.get("locids")
    if l is not None:
        t = flat(show(l["init"]))
        if "matchlocale.name.parse::<LanguageIdentifier>(){Ok(locid)=>Ok((locale,locid))" not in t:
            r.viol("R1:create_locales_enum#locids", "langid of a locale is not parsed from its own name", file=fn.file, line=l["line"])
        else:
            r.inst("locids", "(locale, locale.name.parse::<LanguageIdentifier>()) ; error -> InvalidLocale")
    # main template
    l = lets.get("ts")
    if l is None:
        r.missing("let ts (main template)")
        return r
    q = xquotes(l["init"])
    if not q:
        r.missing("main quote! template")
        return r
    toks = q[0]["tokens"]
    text = flat(tok_text(toks))
    checks = {
        "enum-variants": "pubenum#enum_ident{#[default]#(#locales,)*}",
        "as_str": "fnas_str(self)->&'staticstr{lets=matchself{#(#as_str_match_arms,)*};l_i18n_crate::__private::intern(s)}",
        "as_icu_locale": "fnas_icu_locale(self)->&'staticl_i18n_crate::reexports::icu::locid::Locale{#(#const_icu_locales)*matchself{#(#as_icu_locale_match_arms,)*}}",
        "direction": "fndirection(self)->l_i18n_crate::Direction{matchself{#(#direction_match_arms,)*}}",
        "get_all": "fnget_all()->&'static[Self]{&[#(#enum_ident::#locales,)*]}",
        "base-locale": "fnto_base_locale(self)->Self{self}fnfrom_base_locale(locale:Self)->Self{locale}",
        "serialize": "l_i18n_crate::reexports::serde::Serialize::serialize(l_i18n_crate::Locale::as_str(*self),serializer)",
        "deserialize": "l_i18n_crate::reexports::serde::de::Deserializer::deserialize_str(deserializer,l_i18n_crate::__private::LocaleVisitor::<#enum_ident>::new())",
        "display": "core::fmt::Display::fmt(l_i18n_crate::Locale::as_str(*self),f)",
        "as_ref-str": "l_i18n_crate::Locale::as_str(*self)",
        "as_ref-langid": "l_i18n_crate::Locale::as_langid(*self)",
    }
    for k, frag in checks.items():
        if frag in text:
            r.inst("template#" + k, frag[:100])
        else:
            r.viol("R1:template#" + k, "generated enum no longer contains `%s`" % frag[:100], file=fn.file, line=l["line"])
    m = re.search(r"fnfrom_str\(s:&str\)->Result<Self,Self::Err>\{match(.*?)\{#\(#from_str_match_arms,\)\*_=>(.*?)\}\}", text)
    if not m:
        r.viol("R1:template#from_str", "from_str template not recognised (must be a match over the input with the generated arms and a fallback)", file=fn.file, line=l["line"])
    else:
        scrut, fb = m.group(1), m.group(2)
        if scrut not in ("s", "s.trim()"):
            r.viol("R1:template#from_str-scrutinee", "from_str matches on `%s`: only the exact (optionally trimmed) input may select a locale" % scrut, file=fn.file, line=l["line"])
        elif fb != "Err(())":
            r.viol("R1:template#from_str-fallback", "from_str falls back to `%s` for unknown names (must be Err(()))" % fb, file=fn.file, line=l["line"])
        else:
            r.inst("template#from_str", "match %s { arms.., _ => Err(()) }" % scrut)
    # LocaleVisitor
    fn2 = ast.fn("leptos_i18n/src/macro_helpers/mod.rs", "visit_borrowed_str", impl_self="LocaleVisitor")
    if fn2 is None:
        r.missing("LocaleVisitor::visit_borrowed_str")
    elif flat(show(fn2.body)) != "{Ok(L::from_str(v).unwrap_or_default())}":
        r.viol("R1:LocaleVisitor", "LocaleVisitor no longer decodes with from_str(..).unwrap_or_default(): %s" % flat(show(fn2.body)), file=fn2.file, line=fn2.line)
    else:
        r.inst("LocaleVisitor", "from_str(v).unwrap_or_default(): an unknown name decodes to the default locale, never to another one")
    for nm, want in (("visit_str", "{Self::visit_borrowed_str(self,v)}"), ("visit_string", "{Self::visit_str(self,&v)}")):
        f3 = ast.fn("leptos_i18n/src/macro_helpers/mod.rs", nm, impl_self="LocaleVisitor")
        if f3 is None or flat(show(f3.body)) != want:
            r.viol("R1:LocaleVisitor#" + nm, "LocaleVisitor::%s does not forward to the same decoding" % nm, file="leptos_i18n/src/macro_helpers/mod.rs")
        else:
            r.inst("LocaleVisitor::" + nm, "forwards")
    f4 = ast.fn("leptos_i18n/src/locale_traits.rs", "as_langid")
    if f4 is None or flat(show(f4.body)) != "{Locale::as_icu_locale(self).as_ref()}":
        r.viol("R1:Locale::as_langid", "as_langid is not derived from as_icu_locale", file="leptos_i18n/src/locale_traits.rs")
    else:
        r.inst("Locale::as_langid", "as_icu_locale(self).as_ref()")
    return r


def single_expr(fn):
    st = fn.body["stmts"]
    if len(st) == 1 and st[0]["k"] == "ExprStmt":
        return st[0]["expr"]
    return None


def r2_scoped(ctx):
    r = Rule("C13.R2", "ScopedLocale forwards every identity method to the wrapped locale",
             "a scoped locale must denote the same locale in every representation", floor=9)
    ast = ctx.ast
    f = "leptos_i18n/src/scopes.rs"
    from rules.common import msum
    prog = ctx.mir("main")
    fwd = {"as_str": "Locale::as_str(p1.locale)", "as_icu_locale": "Locale::as_icu_locale(p1.locale)", "direction": "Locale::direction(p1.locale)",
           "get_all": "Locale::get_all()", "request_translations": "Locale::request_translations(p1.locale, p2)", "init_translations": "Locale::init_translations(p1.locale, p2)",
           "to_base_locale": "p1.locale", "from_base_locale": "ScopedLocale#ScopedLocale(p1, PhantomData#PhantomData())"}
    for name, w in fwd.items():
        got = msum(prog, r"<leptos_i18n::scopes::ScopedLocale<L, S> as leptos_i18n::locale_traits::Locale<L>>::%s$" % name)
        if not got:
            if name == "init_translations":
                continue  # only with dynamic_load on the client
            r.missing("ScopedLocale::" + name)
        elif got[0][1] == w and not got[0][2]:
            r.inst("ScopedLocale::" + name, "forwards: " + w)
        else:
            r.viol("R2:ScopedLocale::" + name, "ScopedLocale::%s computes `%s`, expected a plain forward to the wrapped locale `%s`" % (name, got[0][1], w), file=f)
    more = [
        (r"<leptos_i18n::scopes::ScopedLocale<L, S> as std::str::FromStr>::from_str$", "Result#Ok(ScopedLocale#ScopedLocale(FromStr::from_str(p1)?, PhantomData#PhantomData()))", "ScopedLocale::from_str", "<L as FromStr>::from_str(s)? wrapped"),
        (r"<leptos_i18n::scopes::ScopedLocale<L, S> as std::fmt::Display>::fmt$", "Display::fmt(p1.locale, p2)", "ScopedLocale as Display", "delegates to the wrapped locale"),
        (r"<leptos_i18n::scopes::ScopedLocale<L, Sc?> as .*_serde::Serialize>::serialize$", "Serialize::serialize(p1.locale, p2)", "ScopedLocale as serde::Serialize", "serialises the wrapped locale"),
        (r"<leptos_i18n::scopes::ScopedLocale<L, Sc?> as .*_serde::Deserialize<'de>>::deserialize$", "Result#Ok(ScopedLocale#ScopedLocale(Deserialize::deserialize(p1)?, PhantomData#PhantomData()))", "ScopedLocale as serde::Deserialize", "deserialises the wrapped locale and wraps it"),
    ]
    for rx, w, label, what in more:
        got = msum(prog, rx)
        if not got:
            r.missing(label)
        elif got[0][1] == w and not got[0][2]:
            r.inst(label, what)
        else:
            r.viol("R2:" + label.replace(" as ", "::"), "%s computes `%s`, expected `%s`" % (label, got[0][1], w), file=f)
    return r


def _fn_body(text, header_rx):
    """text of the brace group that follows the first match of header_rx in token text"""
    m = re.search(header_rx, text)
    if not m:
        return None
    i = text.find("{", m.end() - 1)
    d = 0
    for k in range(i, len(text)):
        if text[k] == "{":
            d += 1
        elif text[k] == "}":
            d -= 1
            if d == 0:
                return text[i + 1:k]
    return None


def r0_generated(ctx):
    """abstract evaluation (rules/absint.py) of create_locales_enum on a locale list with plain, regional, right-to-left
    and non-canonically spelled names; the generated token text is then read back: each table must pair a locale's own
    identifier with its own configured name"""
    from rules import absint
    from rules.absint import AEval, A, C, CF, L, TOK
    r = Rule("C13.R0", "the generated Locale enum: every table pairs a locale with its own configured name",
             "`as_str / Display / serde give the configured name, from_str is its exact inverse and accepts nothing else, the ICU locale "
             "and the direction are those of the locale's own name, get_all lists the configured locales in order`", floor=6)
    ast = ctx.ast
    ML_ = "leptos_i18n_macro/src/load_locales/mod.rs"
    funcs = absint.file_funcs(ast, ML_)
    fn = funcs.get("create_locales_enum")
    if fn is None:
        r.missing("create_locales_enum")
        return r, False, "anchor missing"
    S = lambda x: ("str", x)  # noqa: E731
    names = ["en", "fr-CA", "ar", "pt-br", "zh_Hant"]
    idents = {n: n.replace("-", "_") for n in names}
    RTL = {"ar", "he", "fa"}

    def canon(tag):
        parts = re.split(r"[-_]", tag)
        out = [parts[0].lower()]
        for p_ in parts[1:]:
            out.append(p_.title() if len(p_) == 4 else (p_.upper() if len(p_) in (2, 3) else p_.lower()))
        return "-".join(out)

    def totok(v):
        if v[0] == "ctor" and v[1] == "Key":
            return absint.fields_of(v)["ident"][1]
        return None

    def disp(v):
        if v[0] == "ctor" and v[1] == "LanguageIdentifier":
            return S(canon(absint.fields_of(v)["tag"][1]))
        if v[0] == "ctor" and v[1] == "Key":
            return absint.fields_of(v)["name"]
        return S(absint.fmt(v))

    def run_gen(cfgf):
        ev = AEval(funcs={k: v for k, v in funcs.items() if k != "create_locales_enum"})
        ev.totokens = totok
        ev.display = disp
        ev.cfg = cfgf
        ev.builtins = {
            "parse": lambda rv, a: C("Ok", CF("LanguageIdentifier", tag=rv)) if rv[0] == "str" and re.match(r"^[A-Za-z]{2,3}([-_][A-Za-z0-9]+)*$", rv[1]) else C("Err", A("parse-error")),
            "get": lambda rv, a: C("Some", C("RightToLeft" if re.split(r"[-_]", absint.fields_of(a[0])["tag"][1])[0].lower() in RTL else "LeftToRight")) if rv == A("ld") and a and a[0][0] == "ctor" else A("get")}
        ev.path_builtins = {"icu_locid_transform::LocaleDirectionality::new": lambda a: A("ld"), "LocaleDirectionality::new": lambda a: A("ld")}
        keys = L(*[CF("Key", name=S(n), ident=TOK(idents[n])) for n in names])
        return ev.run_fn(fn, [TOK("Locale"), TOK("I18nKeys"), TOK("UnitId"), keys])
    variants = [("static", lambda t: False), ("dynamic_load+ssr", lambda t: "dynamic_load" in t and "csr" not in t and "hydrate" not in t)]
    for label, cfgf in variants:
        got = run_gen(cfgf)
        if isinstance(got, str):
            return r, False, got
        if not (got[0] == "ctor" and got[1] == "Ok" and got[2] and got[2][0][0] == "tok"):
            r.viol("R0:create_locales_enum#result", "for valid locale names the generator returns %s" % absint.fmt(got)[:120], file=fn.file, line=fn.line)
            continue
        text = got[2][0][1]
        pairs = [(idents[n], n) for n in names]

        def clause(key, ok, what, detail=""):
            if ok:
                r.inst("%s [%s]" % (key, label), what)
            else:
                r.viol("R0:create_locales_enum#" + key, "%s (%s build): %s" % (what, label, detail[:220]), file=fn.file, line=fn.line)
        m = re.search(r"pub enum Locale \{(.*?)\}", text)
        vs = [x.strip() for x in re.sub(r"# \[default\]", "", m.group(1)).split(",") if x.strip()] if m else None
        clause("variants", vs == [i for i, _n in pairs] and m is not None and re.match(r"^\s*# \[default\] " + re.escape(pairs[0][0]) + r"\b", m.group(1)) is not None,
               "the enum lists the configured locales in order, the first one is the default", str(vs))
        b = _fn_body(text, r"fn as_str \(self\)")
        arms = re.findall(r"Locale :: (\w+) => \"([^\"]*)\"", b or "")
        clause("as_str", arms == pairs, "as_str maps every variant to its own configured name", str(arms))
        b = _fn_body(text, r"fn from_str \(s : & str\)")
        mm = re.search(r"match (.*?) \{(.*)\}\s*$", b or "")
        farms = re.findall(r"\"([^\"]*)\" => Ok \(Locale :: (\w+)\)", mm.group(2)) if mm else []
        clause("from_str", bool(mm) and [(i, n) for n, i in farms] == pairs, "from_str maps exactly the configured names back to their variants", str(farms))
        clause("from_str-scrutinee", bool(mm) and mm.group(1).strip() in ("s", "s . trim ()"), "from_str matches on the (trimmed) input itself", mm.group(1) if mm else "no match expression")
        rest = re.sub(r"\"[^\"]*\" => Ok \(Locale :: \w+\) ,?", "", mm.group(2)).strip() if mm else ""
        clause("from_str-fallback", rest in ("_ => Err (())", "_ => Err (()) ,"), "any other input is Err(())", rest)
        b = _fn_body(text, r"fn as_icu_locale \(self\)")
        consts = dict(re.findall(r"const (\w+) : [^=]*= & [^;]*?locale ! \(\"([^\"]*)\"\) ;", b or ""))
        iarms = re.findall(r"Locale :: (\w+) => (\w+)", b or "")
        clause("as_icu_locale", [(i, consts.get(c)) for i, c in iarms] == pairs and len(consts) == len(pairs), "the ICU locale of a variant is locale!(<its own configured name>)", "%s %s" % (iarms, consts))
        b = _fn_body(text, r"fn direction \(self\)")
        darms = re.findall(r"Locale :: (\w+) => l_i18n_crate :: Direction :: (\w+)", b or "")
        clause("direction", darms == [(i, "RightToLeft" if re.split(r"[-_]", n)[0] in RTL else "LeftToRight") for i, n in pairs], "the direction of a variant is looked up with its own name", str(darms))
        b = _fn_body(text, r"fn get_all \(\)")
        ga = re.findall(r"Locale :: (\w+)", b or "")
        clause("get_all", ga == [i for i, _n in pairs], "get_all lists every variant once, in configured order", str(ga))
        b1, b2 = _fn_body(text, r"fn to_base_locale \(self\)"), _fn_body(text, r"fn from_base_locale \(locale : Self\)")
        clause("base-locale", (b1 or "").strip() == "self" and (b2 or "").strip() == "locale", "to_base_locale / from_base_locale are the identity", "%s / %s" % (b1, b2))
        ser = _fn_body(text, r"fn serialize < S >")
        de = _fn_body(text, r"fn deserialize < D >")
        dsp = _fn_body(text, r"impl core :: fmt :: Display for Locale \{fn fmt")
        clause("text-forms", "Locale :: as_str (* self)" in (ser or "") and "LocaleVisitor ::< Locale >:: new ()" in (de or "") and "deserialize_str" in (de or "") and "Locale :: as_str (* self)" in (dsp or ""),
               "Serialize / Display print as_str; Deserialize decodes a string through LocaleVisitor", "")
    bad = run_gen(variants[0][1]) if False else None
    # an invalid locale name is an error, not a panic / silently accepted
    ev_names = names
    names = ["en", "not a locale!"]
    idents["not a locale!"] = "bad"
    got = run_gen(variants[0][1])
    names = ev_names
    if isinstance(got, str):
        return r, False, got
    if not (got[0] == "ctor" and got[1] == "Err"):
        r.viol("R0:create_locales_enum#invalid-name", "a locale name that is not a language identifier gives %s, expected an error" % absint.fmt(got)[:100], file=fn.file, line=fn.line)
    else:
        r.inst("invalid locale name", "Err(%s)" % absint.fmt(got[2][0])[:40])
    # LocaleVisitor: from_str(..).unwrap_or_default() whichever visit_* serde calls
    MH = "leptos_i18n/src/macro_helpers/mod.rs"
    vf = absint.file_funcs(ast, MH, impl_self="LocaleVisitor")
    for nm in ("visit_borrowed_str", "visit_str", "visit_string"):
        f = vf.get("LocaleVisitor::" + nm)
        if f is None:
            r.missing("LocaleVisitor::" + nm)
            continue
        outs = []
        for text_, res in (("fr", C("Ok", A("fr-variant"))), ("zz", C("Err", absint.UNIT))):
            ev = AEval(funcs=vf)
            ev.path_builtins = {"L::from_str": lambda a, res=res: res, "<L as FromStr>::from_str": lambda a, res=res: res, "FromStr::from_str": lambda a, res=res: res}
            ev.builtins = {"parse": lambda rv, a, res=res: res}
            import re as _re
            ev.opaque_paths = _re.compile(r"^(L|Self|<L as [\w:]+>)::\w+$")    # anything else asked of the locale type is visible in the result
            outs.append(ev.run_fn(f, [A("visitor"), S(text_)]))
        if any(isinstance(o, str) for o in outs):
            return r, False, [o for o in outs if isinstance(o, str)][0]
        if outs == [C("Ok", A("fr-variant")), C("Ok", absint.DEFAULT)]:
            r.inst("LocaleVisitor::" + nm, "a configured name decodes to its locale, anything else to the default locale (never to another one)")
        else:
            r.viol("R0:LocaleVisitor#" + nm, "decoding `fr` / an unknown name gives %s" % [absint.fmt(o) for o in outs], file=MH, line=f.line)
    f4 = ast.fn("leptos_i18n/src/locale_traits.rs", "as_langid")
    if f4 is None or flat(show(f4.body)) != "{Locale::as_icu_locale(self).as_ref()}":
        r.viol("R0:Locale::as_langid", "as_langid is not derived from as_icu_locale", file="leptos_i18n/src/locale_traits.rs")
    else:
        r.inst("Locale::as_langid", "as_icu_locale(self).as_ref()")
    return r, True, None


def r4_names_as_configured(ctx):
    """MIR of load_locales_inner: the locale list handed to create_locales_enum is the configuration's `locales` field itself (a
    borrow, at most dereferenced to a slice) - not a list computed from it, whose names could be respelled on the way"""
    import mustlib as M
    from mirlib import op_place, callee_name
    r = Rule("C13.R4", "the locale enum is generated from the configured locale list itself",
             "`as_str, Display and serde give the configured name`: create_locales_enum prints the names it is given; a list derived from the configuration "
             "(names normalised, `_` replaced ..) makes the enum spell a locale differently from the configuration and from the file names", floor=1)
    prog = ctx.mir("main")
    b = prog.body("load_locales::load_locales_inner")
    if b is None:
        r.missing("load_locales_inner")
        return r
    calls = M.call_blocks(b, r"load_locales::create_locales_enum$")
    if len(calls) != 1:
        r.viol("R4:load_locales_inner#call", "create_locales_enum is called %d time(s)" % len(calls), file=b.file, line=b.line)
        return r
    t = b.blocks[calls[0]]["term"]
    arg = op_place(t["args"][-1])
    steps = []
    cur = arg
    ok = False
    for _ in range(8):
        if cur is None:
            break
        if M._place_is_field(b, prog, cur, "cfg_file::ConfigFile", "locales"):
            ok = True
            break
        if cur["p"] and cur["p"] != ["*"]:
            break
        ds = b.defs().get(cur["l"], [])
        if len(ds) != 1:
            break
        bi, j, st = ds[0]
        if j == "term":
            cn = callee_name(st) or ""
            if re.search(r"Deref>::deref$|::as_slice$|AsRef<.*>>::as_ref$|Borrow<.*>>::borrow$", cn) and len(st["args"]) == 1:
                steps.append(cn.split("::")[-1])
                cur = op_place(st["args"][0])
                continue
            steps.append("call " + cn)
            break
        rv = st["rv"]
        if rv["k"] in ("Ref", "Use", "Cast", "CopyForDeref") or (rv["k"] == "Cast"):
            cur = rv.get("place") or (op_place(rv["ops"][0]) if rv.get("ops") else None)
            continue
        steps.append(rv["k"])
        break
    if ok:
        r.inst("load_locales_inner -> create_locales_enum", "the last argument is `&cfg_file.locales`%s" % ((" through " + ", ".join(steps)) if steps else ""))
    else:
        r.viol("R4:load_locales_inner#locales-arg", "create_locales_enum receives a list that is not the configuration's `locales` field itself (it is produced by: %s)" % (", ".join(steps) or "another local"), file=b.file, line=t.get("line"))
    return r


def supported_and_default(ctx, new_id, title, reason):
    """the clauses of this property other properties rest on when they say `a supported locale` / `the default locale`: the run-time
    enum lists the configured locales in order with `#[default]` on the first, `as_icu_locale` of a variant is the ICU locale of its own
    configured name, `get_all` lists every variant - and the configuration loader put the configured default first (C19.R0)"""
    import os
    from rules import c19
    from rules.common import borrow
    r0, ok, why = r0_generated(ctx)
    only = r"^variants|^as_icu_locale|^get_all|create_locales_enum#(variants|as_icu_locale|get_all|result)|undecided"
    out = borrow(r0, new_id, title, reason, only=only, floor=3)
    rid = new_id.split(".")[-1]
    if not ok or os.environ.get("VERIF_FORCE_FALLBACK"):
        if not ok and not r0.violations:
            out.viol("%s:undecided" % rid, "create_locales_enum cannot be interpreted on the current code (%s): decided by the structural clauses only (fail closed)" % str(why)[:200])
        k1 = borrow(r1_enum(ctx), new_id, title, reason, only=r"icu-const|const_icu_locales|enum-variants|get_all|as_icu_locale", floor=0)
        out.instances += k1.instances
        for v in k1.violations:
            out.viol(v.key, v.msg, file=v.file, line=v.line)
    k0, _ok, _why = c19.r0_config(ctx)
    k2 = borrow(k0, new_id, title, reason, only=r"ConfigFile::new", floor=0)
    out.instances += k2.instances
    for v in k2.violations:
        out.viol(v.key, v.msg, file=v.file, line=v.line)
    return out


def run(ctx):
    import os
    r0, ok, why = r0_generated(ctx)
    # `get_all` lists the default first because the configuration loader puts it there (and `Default` is the first
    # variant): the default-first clause of C19.R0 (decided by rules/c19.py)
    from rules import c19
    from rules.common import borrow
    k0, _ok, _why = c19.r0_config(ctx)
    r3 = borrow(k0, "C13.R3", "the locale list the enum is generated from has the default first, each locale once",
                "`get_all lists every locale exactly once with the default first`: the generator keeps the order of the configured "
                "list, so the normalisation done when the configuration is loaded is part of this property", only=r"ConfigFile::new", floor=1)
    if ok and not os.environ.get("VERIF_FORCE_FALLBACK"):
        return [r0, r2_scoped(ctx), r3, r4_names_as_configured(ctx)]
    if not ok and not r0.violations:
        r0.instances[:] = []
        r0.inst("evaluation not available", "fallback to the structural rule R1: %s" % str(why)[:160])
        r0.viol("R0:undecided", "the evaluation cannot interpret the current code (%s): the clauses it decides are NOT decided on this tree; the structural rules reported alongside only cover part of them (fail closed)" % str(why)[:300])
        r0.floor = 1
    return [r0, r1_enum(ctx), r2_scoped(ctx), r3, r4_names_as_configured(ctx)]


MANIFEST_ENTRY = {
    "technique": "static analysis: abstract evaluation (rules/absint.py) of create_locales_enum to token text for a locale list with regional, right-to-left and non-canonically spelled names, the generated tables read back one by one; evaluation of LocaleVisitor (associated functions of the locale type are opaque values: anything but from_str + default is visible in the result); the default-first clause of C19.R0 for the list the enum is generated from; MIR return-value summaries (py/mirsum.py) of every ScopedLocale forwarder; structural syn rule as fallback; MIR def-chain rule: create_locales_enum receives the configuration's `locales` field itself",
    "level_text": "Finite abstract evaluation of the generator: each generated table (as_str, from_str, ICU constant, direction, get_all, serde / Display) must pair a variant with its own configured name, from_str must be the exact inverse with an Err(()) fallback. The forwarders of ScopedLocale are decided from MIR summaries. No macro expansion is run.",
    "level_note": "Trusted: quote!/syn, icu locale!(), leptos-use FromToStringCodec. Not decided: ICU parsing of a concrete name, CLDR direction data.",
}
