"""Symbolic byte-offset evaluation of the parser's string-splitting functions (C01.R1/R2, C09.P2, C09.T).

A small abstract interpreter over the syn JSON tree.  Strings are *slices* of a root string with linear symbolic
bounds; integers are linear expressions over non-negative symbols (lengths of pieces, search positions).  Search
operations (split_once, find, match_indices, char_indices, strip_prefix, trim*) create fresh symbols and record
*segments* (delimiters, named slices, skipped whitespace) and *character boundaries*.  No concrete string is ever
evaluated: every statement is about all inputs at once.

Checked:
 * boundary rule : every offset used to slice (`s[a..]`, `s[..b]`, `split_at`) is a recorded character boundary;
 * tiling rule   : for each `Bloc(vec![before, this, after])` returned by a find_* function: `before` starts at 0,
                   `after` ends at the end of the input, and the gap between them is exactly a chain of recorded
                   segments (delimiters / consumed names / skipped whitespace) that contains every slice `this` is
                   built from;
 * progress rule : a loop-carried offset grows by a strictly positive amount on every non-exiting iteration and
                   stays a character boundary.
"""
import itertools
import re

from report import Rule
from astlib import show, show_pat, find_all, is_node

PV = "leptos_i18n_parser/src/parse_locales/parsed_value.rs"


# ---- linear expressions -------------------------------------------------------------------------

class Lin:
    __slots__ = ("c", "t")

    def __init__(self, c=0, t=None):
        self.c = c
        self.t = {k: v for k, v in (t or {}).items() if v != 0}

    @staticmethod
    def sym(name):
        return Lin(0, {name: 1})

    def __add__(self, o):
        o = lin(o)
        t = dict(self.t)
        for k, v in o.t.items():
            t[k] = t.get(k, 0) + v
        return Lin(self.c + o.c, t)

    def __sub__(self, o):
        o = lin(o)
        t = dict(self.t)
        for k, v in o.t.items():
            t[k] = t.get(k, 0) - v
        return Lin(self.c - o.c, t)

    def key(self):
        return (self.c, tuple(sorted(self.t.items())))

    def __eq__(self, o):
        return isinstance(o, Lin) and self.key() == o.key()

    def __hash__(self):
        return hash(self.key())

    def positive(self):
        """provably > 0 (all symbols are non-negative)"""
        return self.c > 0 and all(v >= 0 for v in self.t.values())

    def nonneg(self):
        return self.c >= 0 and all(v >= 0 for v in self.t.values())

    def __repr__(self):
        parts = []
        for k, v in sorted(self.t.items()):
            parts.append(("%s" % k) if v == 1 else ("%d*%s" % (v, k)))
        if self.c or not parts:
            parts.append(str(self.c))
        return "+".join(parts).replace("+-", "-")


def lin(x):
    if isinstance(x, Lin):
        return x
    if isinstance(x, int):
        return Lin(x)
    raise TypeError(x)


# ---- abstract values ----------------------------------------------------------------------------------

class Slice:
    def __init__(self, root, start, end, parent=None, desc=""):
        self.root = root
        self.start = start
        self.end = end
        self.parent = parent
        self.desc = desc

    def __repr__(self):
        return "%s[%r..%r]" % (self.root, self.start, self.end)


class Char:
    def __init__(self, length, root=None, pos=None):
        self.length = length
        self.root = root
        self.pos = pos


class Tup:
    def __init__(self, items):
        self.items = list(items)


class NoneV:
    pass


class Unknown:
    def __init__(self, srcs=()):
        self.srcs = list(srcs)   # slices that flowed into this value


class IterV:
    def __init__(self, item):
        self.item = item


class ClosureV:
    def __init__(self, node, env):
        self.node = node
        self.env = env


class PVNew:
    """ParsedValue::new(slice, ..) : a text piece"""
    def __init__(self, sl):
        self.sl = sl


class PVNode:
    """some other ParsedValue built from the given source slices"""
    def __init__(self, what, srcs):
        self.what = what
        self.srcs = srcs


class BlocV:
    def __init__(self, items):
        self.items = items


class Path(Exception):
    """path ends without a result of interest (None / Err)"""


def srcs_of(v):
    if isinstance(v, Slice):
        return [v]
    if isinstance(v, (Unknown, PVNode)):
        return list(v.srcs)
    if isinstance(v, PVNew):
        return [v.sl]
    if isinstance(v, Tup):
        return [s for i in v.items for s in srcs_of(i)]
    if isinstance(v, IterV):
        return srcs_of(v.item)
    return []


class Ctx:
    def __init__(self, ast, file):
        self.ast = ast
        self.file = file
        self.n = itertools.count()
        self.segments = []      # (root, start, end, kind, desc)
        self.bounds = {}        # root -> set(Lin)
        self.sinks = []         # (root, Lin, site, line)
        self.widened = {}       # symbol -> dict(var, init, updates[], line, fn)
        self.notes = []
        self.depth = 0

    def fresh(self, hint):
        return Lin.sym("%s%d" % (hint, next(self.n)))

    def bound(self, root, l):
        self.bounds.setdefault(root, set()).add(l)

    def seg(self, root, a, b, kind, desc, trusted=True):
        self.segments.append((root, a, b, kind, desc))
        if trusted:
            self.bound(root, a)
            self.bound(root, b)

    def new_slice(self, root, a, b, parent=None, desc="", record=True, trusted=True):
        """trusted=False: the bounds come from program arithmetic (indexing), not from a search: they are not
        evidence of a character boundary"""
        s = Slice(root, a, b, parent, desc)
        if record:
            self.seg(root, a, b, "slice", desc, trusted)
        return s

    def sink(self, root, off, site, line):
        # judged now, against the boundaries established *before* this slicing (no circular evidence)
        ok = off in self.bounds.get(root, set())
        self.sinks.append((root, off, site, line, ok, set(self.bounds.get(root, set()))))

    def fn(self, name):
        for f in self.ast.fns:
            if f.file.endswith(self.file) and f.name == name and not f.is_test() and f.impl_self in ("ParsedValue", None):
                return f
        return None


def lit_len(node):
    """byte length of a str/char literal pattern argument, or None"""
    if node["k"] == "Lit":
        if "str" in node:
            return len(node["str"].encode("utf8")), node["str"]
        if "char" in node:
            return len(node["char"].encode("utf8")), node["char"]
    return None


# ---- interpreter ---------------------------------------------------------------------------------------

class Interp:
    def __init__(self, cx):
        self.cx = cx

    # each exec/eval returns a list of outcomes: (value, env, ctrl) ; ctrl in (None, 'return', 'break', 'continue')
    def call_fn(self, name, args, line):
        cx = self.cx
        f = cx.fn(name)
        if f is None:
            return [(Unknown(srcs_of(Tup(args))), None)]
        cx.depth += 1
        if cx.depth > 6:
            cx.depth -= 1
            return [(Unknown(srcs_of(Tup(args))), None)]
        env = {}
        params = [p for p in f.node["sig"]["inputs"]]
        for p, a in zip(params, args):
            pat = p["pat"]
            if pat.get("k") == "PIdent":
                env[pat["name"]] = a
        outs = []
        for (v, e, ctrl) in self.block(f.body, env):
            outs.append(v)
        cx.depth -= 1
        res = []
        for v in outs:
            if isinstance(v, NoneV):
                continue
            res.append((v, None))
        return res

    def block(self, blk, env):
        """block value outcomes"""
        states = [(None, dict(env), None)]
        stmts = blk["stmts"]
        for idx, st in enumerate(stmts):
            nxt = []
            last = idx == len(stmts) - 1
            for (v, e, ctrl) in states:
                if ctrl is not None:
                    nxt.append((v, e, ctrl))
                    continue
                try:
                    for out in self.stmt(st, e, last):
                        nxt.append(out)
                except Path:
                    pass
            states = nxt
        out = []
        for (v, e, ctrl) in states:
            if ctrl == "return":
                out.append((v, e, "return"))
            else:
                out.append((v, e, ctrl))
        return out

    def stmt(self, st, env, last):
        k = st["k"]
        if k == "Let":
            if "init" not in st:
                e = dict(env)
                self.bind(st["pat"], Unknown(), e)
                return [(None, e, None)]
            outs = []
            for (v, e, ctrl) in self.expr(st["init"], env):
                if ctrl is not None:
                    outs.append((v, e, ctrl))
                    continue
                if "else" in st and isinstance(v, NoneV):
                    # let-else: the else branch diverges
                    for (v2, e2, c2) in self.expr(st["else"], e):
                        if c2 is not None:
                            outs.append((v2, e2, c2))
                    continue
                e2 = dict(e)
                try:
                    self.bind(st["pat"], v, e2)
                except Path:
                    continue
                outs.append((None, e2, None))
            return outs
        if k == "ExprStmt":
            outs = []
            for (v, e, ctrl) in self.expr(st["expr"], env):
                if ctrl is None and st.get("semi") and not last:
                    v = None
                if ctrl is None and st.get("semi"):
                    v = None
                outs.append((v, e, ctrl))
            return outs
        if k in ("Fn", "ItemMacro", "Use", "Const"):
            return [(None, env, None)]
        return [(None, env, None)]

    def bind(self, pat, v, env):
        k = pat["k"]
        if k == "PIdent":
            env[pat["name"]] = v
        elif k == "PWild" or k == "PRest":
            pass
        elif k == "PTuple":
            items = v.items if isinstance(v, Tup) else [Unknown(srcs_of(v)) for _ in pat["elems"]]
            for p, x in zip(pat["elems"], items):
                self.bind(p, x, env)
        elif k == "PTupleStruct":
            name = pat["path"].split("::")[-1]
            if name in ("Some", "Ok"):
                if isinstance(v, NoneV):
                    raise Path()
                if pat["elems"]:
                    self.bind(pat["elems"][0], v, env)
            else:
                for p in pat["elems"]:
                    self.bind(p, Unknown(srcs_of(v)), env)
        elif k == "PRef":
            self.bind(pat["pat"], v, env)
        elif k == "PType":
            self.bind(pat["pat"], v, env)
        else:
            pass

    def exprs(self, nodes, env):
        """evaluate a list of expressions left to right; outcomes: (values list, env, ctrl)"""
        states = [([], env, None)]
        for n in nodes:
            nxt = []
            for (vals, e, ctrl) in states:
                if ctrl is not None:
                    nxt.append((vals, e, ctrl))
                    continue
                for (v, e2, c2) in self.expr(n, e):
                    nxt.append((vals + [v], e2, c2))
            states = nxt
        return states

    def expr(self, n, env):
        cx = self.cx
        k = n["k"]
        line = n.get("line", 0)
        if k == "Lit":
            if "int" in n:
                return [(Lin(int(n["int"])), env, None)]
            if "char" in n:
                return [(Char(Lin(len(n["char"].encode("utf8")))), env, None)]
            return [(Unknown(), env, None)]
        if k == "Path":
            p = n["path"]
            if p in env:
                return [(env[p], env, None)]
            if p == "None":
                return [(NoneV(), env, None)]
            return [(Unknown(), env, None)]
        if k == "Ref" or (k == "Unary" and n["op"] in ("*", "&")):
            return self.expr(n["expr"], env)
        if k == "Unary":
            return [(Unknown(), e, c) for (v, e, c) in self.expr(n["expr"], env)]
        if k == "Tuple":
            return [(Tup(vals), e, c) for (vals, e, c) in self.exprs(n["elems"], env)]
        if k == "Array":
            return [(Tup(vals), e, c) for (vals, e, c) in self.exprs(n["elems"], env)]
        if k == "Block":
            return self.block(n, env)
        if k == "Try":
            outs = []
            for (v, e, c) in self.expr(n["expr"], env):
                if c is None and isinstance(v, NoneV):
                    continue  # returns None/Err: not a rendered result
                outs.append((v, e, c))
            return outs
        if k == "Return":
            if n.get("expr") is None:
                return [(NoneV(), env, "return")]
            return [(v, e, "return" if c is None else c) for (v, e, c) in self.expr(n["expr"], env)]
        if k == "Break":
            if n.get("expr") is None:
                return [(None, env, "break")]
            return [(v, e, "break" if c is None else c) for (v, e, c) in self.expr(n["expr"], env)]
        if k == "Continue":
            return [(None, env, "continue")]
        if k == "Binary":
            outs = []
            for (vals, e, c) in self.exprs([n["left"], n["right"]], env):
                if c is not None:
                    outs.append((None, e, c))
                    continue
                a, b = vals
                op = n["op"]
                if op == "+" and isinstance(a, Lin) and isinstance(b, Lin):
                    outs.append((a + b, e, None))
                elif op == "-" and isinstance(a, Lin) and isinstance(b, Lin):
                    outs.append((a - b, e, None))
                elif op in ("+=", "-=") and n["left"]["k"] == "Path":
                    name = n["left"]["path"]
                    if isinstance(a, Lin) and isinstance(b, Lin):
                        nv = a + b if op == "+=" else a - b
                    else:
                        nv = Unknown()
                    e2 = dict(e)
                    e2[name] = nv
                    self.note_update(name, a, nv, line)
                    outs.append((None, e2, None))
                else:
                    outs.append((Unknown(srcs_of(Tup(vals))), e, None))
            return outs
        if k == "Assign":
            outs = []
            for (v, e, c) in self.expr(n["right"], env):
                if c is not None:
                    outs.append((None, e, c))
                    continue
                e2 = dict(e)
                if n["left"]["k"] == "Path":
                    e2[n["left"]["path"]] = v
                outs.append((None, e2, None))
            return outs
        if k == "If":
            return self.if_expr(n, env)
        if k == "Match":
            return self.match_expr(n, env)
        if k == "Loop":
            return self.loop_expr(n, env)
        if k == "ForLoop":
            return self.for_expr(n, env)
        if k == "Closure":
            return [(ClosureV(n, env), env, None)]
        if k == "Index":
            return self.index_expr(n, env)
        if k == "Range":
            return [(Unknown(), env, None)]
        if k == "Cast":
            return self.expr(n["expr"], env)
        if k == "Field":
            outs = []
            for (v, e, c) in self.expr(n["base"], env):
                if isinstance(v, Tup) and n["member"].isdigit() and int(n["member"]) < len(v.items):
                    outs.append((v.items[int(n["member"])], e, c))
                else:
                    outs.append((Unknown(srcs_of(v)), e, c))
            return outs
        if k == "Macro":
            return self.macro_expr(n, env)
        if k == "Call":
            return self.call_expr(n, env)
        if k == "MethodCall":
            return self.method_expr(n, env)
        if k == "Struct":
            outs = []
            for (vals, e, c) in self.exprs([f["expr"] for f in n["fields"]], env):
                outs.append((PVNode(n["path"], srcs_of(Tup(vals))), e, c))
            return outs
        if k == "LetExpr":
            return [(Unknown(), e, c) for (v, e, c) in self.expr(n["expr"], env)]
        return [(Unknown(), env, None)]

    def note_update(self, name, old, new, line):
        for sym, w in self.cx.widened.items():
            if w["var"] == name and isinstance(old, Lin) and sym in old.t and isinstance(new, Lin):
                w["updates"].append((new, new - old, line))

    # ---- control flow ----------------------------------------------------------------------------------
    def if_expr(self, n, env):
        outs = []
        cond = n["cond"]
        if cond["k"] == "LetExpr":
            for (v, e, c) in self.expr(cond["expr"], env):
                if c is not None:
                    outs.append((None, e, c))
                    continue
                if not isinstance(v, NoneV):
                    e2 = dict(e)
                    try:
                        self.bind(cond["pat"], v, e2)
                        outs += self.block(n["then"], e2)
                    except Path:
                        pass
                # else side (pattern did not match)
                if n.get("else") is not None:
                    outs += self.expr(n["else"], e)
                else:
                    outs.append((None, e, None))
            return outs
        for (v, e, c) in self.expr(cond, env):
            if c is not None:
                outs.append((None, e, c))
                continue
            refine = self.char_eq(cond, e)
            e_then = dict(e)
            outs += self.block(n["then"], e_then)
            if n.get("else") is not None:
                outs += self.expr(n["else"], e)
            else:
                outs.append((None, e, None))
        return outs

    def char_eq(self, cond, env):
        """`c == '}'` (either side) on a character taken from a char_indices() walk: in the then-branch the character at its position is
        that literal, so position + its utf-8 length is a boundary (the if-form of the match arm handled in match_expr)"""
        n = cond
        while n.get("k") == "Paren":
            n = n["expr"]
        if n.get("k") != "Binary" or n.get("op") != "==":
            return None
        for a, b in ((n["left"], n["right"]), (n["right"], n["left"])):
            if b.get("k") == "Lit" and a.get("k") == "Path":
                v = env.get(a["path"])
                mlit = re.match(r"^'(.*)'$", str(b.get("text", "")).strip())
                if isinstance(v, Char) and v.root is not None and mlit:
                    ch = mlit.group(1).encode("utf8").decode("unicode_escape") if "\\" in mlit.group(1) else mlit.group(1)
                    self.cx.seg(v.root, v.pos, v.pos + Lin(len(ch.encode("utf8"))), "delim", ch)
                    return ch
        return None

    def match_expr(self, n, env):
        outs = []
        for (v, e, c) in self.expr(n["scrutinee"], env):
            if c is not None:
                outs.append((None, e, c))
                continue
            for arm in n["arms"]:
                p = arm["pat"]
                e2 = dict(e)
                if isinstance(v, NoneV) and p["k"] == "PTupleStruct" and p["path"].split("::")[-1] in ("Some", "Ok"):
                    continue
                if p["k"] == "PPath" and p["path"].split("::")[-1] == "None" and not isinstance(v, NoneV) and not isinstance(v, Unknown):
                    continue
                try:
                    self.bind(p, v, e2)
                except Path:
                    continue
                if isinstance(v, Char) and v.root is not None and p["k"] == "PLit":
                    mlit = re.match(r"^'(.*)'$", p["text"].strip())
                    if mlit:
                        ch = mlit.group(1).encode("utf8").decode("unicode_escape") if "\\" in mlit.group(1) else mlit.group(1)
                        # in this arm the character found at `pos` is this literal: pos + its utf8 length is a boundary
                        self.cx.seg(v.root, v.pos, v.pos + Lin(len(ch.encode("utf8"))), "delim", ch)
                outs += self.expr(arm["body"], e2)
        return outs

    def assigned_vars(self, node):
        names = set()
        for x in find_all(node, ("Assign", "Binary")):
            if x["k"] == "Assign" and x["left"]["k"] == "Path":
                names.add(x["left"]["path"])
            if x["k"] == "Binary" and x["op"] in ("+=", "-=") and x["left"]["k"] == "Path":
                names.add(x["left"]["path"])
        return names

    def widen(self, env, names, line, where):
        e = dict(env)
        for nm in names:
            if nm in e and isinstance(e[nm], Lin):
                s = self.cx.fresh("K")
                (k,) = s.t.keys()
                self.cx.widened[k] = {"var": nm, "init": e[nm], "updates": [], "line": line, "where": where, "roots": set()}
                e[nm] = s
        return e

    def loop_expr(self, n, env):
        names = self.assigned_vars(n["body"])
        e0 = self.widen(env, names, n.get("line", 0), "loop")
        outs = []
        for (v, e, c) in self.block(n["body"], e0):
            if c == "break":
                outs.append((v, e, None))
            elif c == "return":
                outs.append((v, e, c))
            # fallthrough / continue: next iteration, covered by the widened state
        return outs

    def for_expr(self, n, env):
        outs = []
        names = self.assigned_vars(n["body"])
        for (itv, e, c) in self.expr(n["iter"], env):
            if c is not None:
                outs.append((None, e, c))
                continue
            item = itv.item if isinstance(itv, IterV) else Unknown(srcs_of(itv))
            # zero iterations (initial values) is one outcome
            outs.append((None, e, None))
            e0 = self.widen(e, names, n.get("line", 0), "for")
            e1 = dict(e0)
            try:
                self.bind(n["pat"], item, e1)
            except Path:
                continue
            for (v2, e2, c2) in self.block(n["body"], e1):
                if c2 == "return":
                    outs.append((v2, e2, c2))
                else:
                    # after some iteration(s): variables assigned in the body keep their new values; loop pattern vars vanish
                    outs.append((None, e2, None))
        return outs

    def index_expr(self, n, env):
        cx = self.cx
        outs = []
        idx = n["index"]
        for (base, e, c) in self.expr(n["expr"], env):
            if c is not None:
                outs.append((None, e, c))
                continue
            if idx["k"] != "Range" or not isinstance(base, Slice):
                outs.append((Unknown(srcs_of(base)), e, None))
                continue
            bounds = [idx.get("start"), idx.get("end")]
            for (vals, e2, c2) in self.exprs([b for b in bounds if b is not None], e):
                if c2 is not None:
                    outs.append((None, e2, c2))
                    continue
                vals = list(vals)
                a = vals.pop(0) if idx.get("start") is not None else Lin(0)
                b = vals.pop(0) if idx.get("end") is not None else None
                start = base.start + a if isinstance(a, Lin) else None
                if b is None:
                    end = base.end
                elif isinstance(b, Lin):
                    end = base.start + b + (Lin(1) if idx.get("inclusive") else Lin(0))
                else:
                    end = None
                site = "%s" % show(n)
                if start is None or end is None:
                    cx.notes.append("unresolved slicing offset at line %d: %s" % (n.get("line", 0), site))
                    outs.append((Unknown([base]), e2, None))
                    continue
                if idx.get("start") is not None:
                    cx.sink(base.root, start, site, n.get("line", 0))
                if idx.get("end") is not None:
                    cx.sink(base.root, end, site, n.get("line", 0))
                outs.append((cx.new_slice(base.root, start, end, parent=base, desc=site, trusted=False), e2, None))
        return outs

    def macro_expr(self, n, env):
        p = n["path"]
        args = n.get("args")
        if p in ("nested_result_try",) and args:
            outs = []
            for (v, e, c) in self.expr(args[0], env):
                if c is None and isinstance(v, NoneV):
                    continue
                outs.append((v, e, c))
            return outs
        if p == "vec" and args is not None:
            return [(Tup(vals), e, c) for (vals, e, c) in self.exprs(args, env)]
        if p == "format" and args is not None:
            return [(Unknown(srcs_of(Tup(vals))), e, c) for (vals, e, c) in self.exprs(args[1:], env)]
        if p == "matches":
            return [(Unknown(), env, None)]
        if p in ("unreachable", "panic", "todo", "unimplemented"):
            return []
        return [(Unknown(), env, None)]

    def apply(self, f, args, env, line):
        """apply a closure / fn path value to args -> list of (value, env)"""
        if isinstance(f, ClosureV):
            e = dict(f.env)
            for p, a in zip(f.node["inputs"], args):
                try:
                    self.bind(p, a, e)
                except Path:
                    return []
            return [(v, env) for (v, e2, c) in self.expr(f.node["body"], e) if c in (None, "return")]
        return [(Unknown(srcs_of(Tup(args))), env)]

    def call_expr(self, n, env):
        cx = self.cx
        f = n["func"]
        path = f["path"] if f["k"] == "Path" else None
        outs = []
        for (vals, e, c) in self.exprs(n["args"], env):
            if c is not None:
                outs.append((None, e, c))
                continue
            last = path.split("::")[-1] if path else None
            if path in ("Some", "Ok", "Box::new"):
                outs.append((vals[0], e, None))
            elif path in ("Err",):
                continue
            elif path in ("Self::new", "ParsedValue::new") and vals and isinstance(vals[0], Slice):
                outs.append((PVNew(vals[0]), e, None))
            elif path == "ParsedValue::Bloc" and vals and isinstance(vals[0], Tup):
                outs.append((BlocV(vals[0].items), e, None))
            elif path and path.startswith("Self::") and cx.fn(last) is not None and last not in ("new",):
                rs = self.call_fn(last, vals, n.get("line", 0))
                for (v, _) in rs:
                    outs.append((v, e, None))
            elif path and path.startswith(("ParsedValue::", "ForeignKey::", "RefCell::", "Key::")):
                outs.append((PVNode(path, srcs_of(Tup(vals))), e, None))
            elif path in env and isinstance(env[path], ClosureV):
                for (v, e2) in self.apply(env[path], vals, e, n.get("line", 0)):
                    outs.append((v, e, None))
            else:
                outs.append((Unknown(srcs_of(Tup(vals))), e, None))
        return outs

    def method_expr(self, n, env):
        cx = self.cx
        m = n["method"]
        line = n.get("line", 0)
        outs = []
        for (vals, e, c) in self.exprs([n["receiver"]] + n["args"], env):
            if c is not None:
                outs.append((None, e, c))
                continue
            recv, args = vals[0], vals[1:]
            argn = n["args"]
            r = self.method(recv, m, args, argn, e, line, n)
            for v in r:
                outs.append((v, e, None))
        return outs

    def method(self, recv, m, args, argn, env, line, node):
        cx = self.cx
        if isinstance(recv, NoneV):
            if m in ("map", "and_then", "filter", "ok_or", "ok_or_else", "copied", "cloned"):
                return [NoneV()]
            if m in ("unwrap_or",) and args:
                return [args[0]]
            if m in ("unwrap_or_default",):
                return [Lin(0)]
            return [Unknown()]
        if m == "unwrap_or" and args and not isinstance(recv, (IterV,)):
            return [recv, args[0]]
        if m == "unwrap_or_default" and isinstance(recv, Lin):
            return [recv, Lin(0)]
        if m in ("ok_or", "ok_or_else", "map_err") and isinstance(recv, (Slice, Lin, Tup)):
            return [recv]           # Some(x) / Ok(x) are modelled as x: these only change the error side
        if isinstance(recv, Slice):
            s = recv
            if m in ("split_once", "rsplit_once") and argn:
                ll = lit_len(argn[0])
                p = Lin(ll[0]) if ll else cx.fresh("p")
                a = cx.fresh("L")
                if m == "split_once":
                    A = cx.new_slice(s.root, s.start, s.start + a, parent=s, desc="before `%s`" % (ll[1] if ll else "?"))
                    cx.seg(s.root, s.start + a, s.start + a + p, "delim", ll[1] if ll else "?")
                    B = cx.new_slice(s.root, s.start + a + p, s.end, parent=s, desc="after `%s`" % (ll[1] if ll else "?"))
                else:
                    B = cx.new_slice(s.root, s.end - a, s.end, parent=s, desc="after last `%s`" % (ll[1] if ll else "?"))
                    cx.seg(s.root, s.end - a - p, s.end - a, "delim", ll[1] if ll else "?")
                    A = cx.new_slice(s.root, s.start, s.end - a - p, parent=s, desc="before last `%s`" % (ll[1] if ll else "?"))
                return [Tup([A, B]), NoneV()]
            if m == "find" and argn:
                f = cx.fresh("F")
                cx.bound(s.root, s.start + f)
                return [f, NoneV()]
            if m == "match_indices" and argn:
                ll = lit_len(argn[0])
                p = Lin(ll[0]) if ll else cx.fresh("p")
                i = cx.fresh("I")
                cx.seg(s.root, s.start + i, s.start + i + p, "delim", ll[1] if ll else "?")
                return [IterV(Tup([i, Unknown()]))]
            if m == "char_indices":
                i = cx.fresh("I")
                lam = cx.fresh("c")
                cx.seg(s.root, s.start + i, s.start + i + lam, "char", "char")
                return [IterV(Tup([i, Char(lam, s.root, s.start + i)]))]
            if m == "chars":
                lam = cx.fresh("c")
                cx.seg(s.root, s.start, s.start + lam, "char", "first char")
                return [IterV(Char(lam, s.root, s.start))]
            if m == "len":
                return [s.end - s.start]
            if m in ("trim", "trim_start", "trim_end"):
                t1 = cx.fresh("w") if m in ("trim", "trim_start") else Lin(0)
                t2 = cx.fresh("w") if m in ("trim", "trim_end") else Lin(0)
                if m in ("trim", "trim_start"):
                    cx.seg(s.root, s.start, s.start + t1, "ws", "skipped whitespace")
                if m in ("trim", "trim_end"):
                    cx.seg(s.root, s.end - t2, s.end, "ws", "skipped whitespace")
                return [cx.new_slice(s.root, s.start + t1, s.end - t2, parent=s, desc="trimmed")]
            if m == "strip_prefix" and argn:
                ll = lit_len(argn[0])
                p = Lin(ll[0]) if ll else cx.fresh("p")
                cx.seg(s.root, s.start, s.start + p, "delim", ll[1] if ll else "?")
                return [cx.new_slice(s.root, s.start + p, s.end, parent=s, desc="after prefix"), NoneV()]
            if m == "split_at" and args and not isinstance(args[0], Lin):
                cx.notes.append("unresolved slicing offset at line %d: %s" % (line, show(node)))
                return [Unknown([s])]
            if m == "split_at" and args and isinstance(args[0], Lin):
                off = s.start + args[0]
                cx.sink(s.root, off, show(node), line)
                return [Tup([cx.new_slice(s.root, s.start, off, parent=s, desc="split_at left", trusted=False), cx.new_slice(s.root, off, s.end, parent=s, desc="split_at right", trusted=False)])]
            if m == "get" and argn and argn[0]["k"] == "Range":
                rg = argn[0]
                # safe slicing: no boundary obligation, but offsets matter for tiling
                res = []
                st = [(None, env, None)]
                a_nodes = [x for x in (rg.get("start"), rg.get("end")) if x is not None]
                for (vs, e2, c2) in self.exprs(a_nodes, env):
                    vs = list(vs)
                    a = vs.pop(0) if rg.get("start") is not None else Lin(0)
                    b = vs.pop(0) if rg.get("end") is not None else None
                    if not isinstance(a, Lin) or (b is not None and not isinstance(b, Lin)):
                        res.append(Unknown([s]))
                        continue
                    end = s.end if b is None else s.start + b
                    res.append(cx.new_slice(s.root, s.start + a, end, parent=s, desc=show(node), trusted=False))
                res.append(NoneV())
                return res
            if m in ("to_string", "to_owned", "into", "as_ref", "clone"):
                return [Unknown([s])] if m in ("to_string", "to_owned") else [s]
            if m in ("is_empty", "contains", "starts_with", "ends_with", "eq"):
                return [Unknown()]
            if m == "split":
                return [IterV(Unknown([s]))]
            return [Unknown([s])]
        if isinstance(recv, Char):
            if m == "len_utf8":
                return [recv.length]
            return [Unknown()]
        if isinstance(recv, IterV):
            if m in ("filter_map", "map", "find_map") and args:
                res = []
                for (v, _) in self.apply(args[0], [recv.item], env, line):
                    if isinstance(v, NoneV):
                        continue
                    res.append(IterV(v) if m != "find_map" else v)
                return res or [IterV(Unknown())]
            if m in ("filter", "peekable", "into_iter", "iter", "by_ref", "skip_while", "enumerate", "rev"):
                return [recv]
            if m == "next":
                return [recv.item, NoneV()]
            if m == "collect":
                return [Unknown(srcs_of(recv))]
            return [Unknown(srcs_of(recv))]
        if isinstance(recv, Tup) and m in ("into_iter", "iter"):
            return [IterV(recv.items[0] if recv.items else Unknown())]
        # Option-like transparent methods on ordinary values (we follow the Some path)
        if m in ("map", "and_then") and args and isinstance(args[0], ClosureV):
            res = [v for (v, _) in self.apply(args[0], [recv], env, line)]
            return res + [NoneV()]
        if m == "map" and argn and argn[0]["k"] == "Path":
            fnp = argn[0]["path"]
            if fnp.startswith("str::") and isinstance(recv, Slice):
                return self.method(recv, fnp.split("::")[1], [], [], env, line, node) + [NoneV()]
            return [Unknown(srcs_of(recv))]
        if m in ("ok_or", "ok_or_else", "map_err", "copied", "cloned", "into", "unwrap_or_default", "as_ref", "as_deref", "clone", "to_owned", "borrow", "get_mut"):
            return [recv]
        if m == "checked_sub":
            return [Unknown(), NoneV()]
        return [Unknown(srcs_of(recv) + [s for a in args for s in srcs_of(a)])]


# ---- checks ----------------------------------------------------------------------------------------------

def chain_exists(cx, root, a, b, must_include):
    """is there a chain of recorded segments from offset a to offset b (forward), and which segments does it use?"""
    segs = [(s, e2, kind, desc) for (r, s, e2, kind, desc) in cx.segments if r == root]
    # BFS over offsets
    from collections import deque
    start = a
    seen = {start: None}
    dq = deque([start])
    while dq:
        x = dq.popleft()
        if x == b:
            break
        for (s, e2, kind, desc) in segs:
            if s == x and e2 not in seen and e2 != x:
                # never step over the target
                seen[e2] = (x, (s, e2, kind, desc))
                dq.append(e2)
    if b not in seen:
        return None
    path = []
    x = b
    while seen[x] is not None:
        px, sg = seen[x]
        path.append(sg)
        x = px
    path.reverse()
    return path


def on_chain(sl, path):
    x = sl
    while x is not None:
        for (s, e2, kind, desc) in path:
            if kind == "slice" and s == x.start and e2 == x.end:
                return True
        x = x.parent
    # a slice strictly inside one chain slice (e.g. ident within the tag span) through trimming parents was handled above
    return False


def analyse(ctx_ast, fn_name):
    cx = Ctx(ctx_ast, PV)
    it = Interp(cx)
    f = cx.fn(fn_name)
    if f is None:
        return None, None, cx
    root = "value"
    n = Lin.sym("N")
    params = f.params()
    value = cx.new_slice(root, Lin(0), n, desc="input")
    args = [value] + [Unknown() for _ in params[1:]]
    env = {}
    for p, a in zip(params, args):
        env[p] = a
    results = []
    for (v, e, c) in it.block(f.body, env):
        results.append(v)
    return results, n, cx


def rule_partition(ctx):
    r = Rule("C01.R1", "the pieces of a split tile the input exactly (symbolic offsets)",
             "`literal text verbatim and in order ... nothing is dropped, duplicated`: a piece that starts one byte early/late, "
             "a length taken after trimming, or a gap that is not exactly the recognised delimiter drops or duplicates text - "
             "only for inputs with that exact shape (whitespace inside a tag, multi-byte characters)", floor=6)
    for name in ("find_variable", "find_foreign_key", "find_component"):
        results, n, cx = analyse(ctx.ast, name)
        if results is None:
            r.missing("ParsedValue::" + name)
            continue
        blocs = [v for v in results if isinstance(v, BlocV)]
        if not blocs:
            r.viol("R1:%s#no-result" % name, "no `Bloc(vec![before, this, after])` result could be evaluated symbolically (the function changed shape)", file=PV)
            continue
        for bi, bv in enumerate(blocs):
            site = "%s#result%d" % (name, bi)
            if len(bv.items) != 3 or not isinstance(bv.items[0], PVNew) or not isinstance(bv.items[2], PVNew):
                r.viol("R1:%s#shape" % name, "result is not Bloc([new(before), this, new(after)])", file=PV)
                continue
            s1, this, s3 = bv.items[0].sl, bv.items[1], bv.items[2].sl
            probs = []
            if s1.start != Lin(0):
                probs.append("`before` starts at offset %r, not 0" % s1.start)
            if s3.end != n:
                probs.append("`after` ends at %r, not at the end of the input" % s3.end)
            srcs = srcs_of(this)
            path = chain_exists(cx, "value", s1.end, s3.start, srcs)
            if path is None:
                probs.append("the gap between `before` (ends %r) and `after` (starts %r) is not exactly a sequence of recognised delimiters / names / skipped whitespace" % (s1.end, s3.start))
            else:
                missing = [s for s in srcs if not on_chain(s, path)]
                if missing:
                    probs.append("`this` is built from %s which does not lie in the gap between `before` and `after`" % missing[:2])
                first, last = path[0], path[-1]
                pairs = {"find_variable": [("{{", "}}")], "find_foreign_key": [("$t(", ")"), ("$t(", "first char")], "find_component": [("<", ">")]}
                if first[2] not in ("delim", "char") or last[2] not in ("delim", "char"):
                    probs.append("the gap does not start and end with a delimiter (starts with %s `%s`, ends with %s `%s`): delimiter text would leak into a piece" % (first[2], first[3], last[2], last[3]))
                elif name == "find_variable" and len(path) == 1 and first[2] == "delim" and first[3] == "{{" and getattr(this, "what", "") == "ParsedValue::Literal" and not srcs:
                    pass          # `{{` that opens no variable, kept as a piece of text of its own (what text, C01.R0 reads on strings with such braces)
                elif (first[3], last[3]) not in pairs[name]:
                    probs.append("the gap is delimited by `%s` .. `%s`, the documented delimiters are %s" % (first[3], last[3], pairs[name]))
            if probs:
                r.viol("R1:%s#tiling" % name, "; ".join(probs), file=PV)
            else:
                r.inst(site, "before=[0..%r) gap=%s after=[%r..N)" % (s1.end, " ".join("%s:`%s`" % (k, d) if k != "slice" else "name" for (_, _, k, d) in path), s3.start))
    return r


def rule_boundaries(ctx):
    r = Rule("C09.P2", "every slicing offset is a character boundary produced by a search (symbolic offsets)",
             "`never cuts a string inside a character`: str indexing / split_at panic on a non-boundary offset; offsets computed "
             "from trimmed lengths or from a sentinel value are not boundaries for some inputs only", floor=6)
    seen = set()
    n_sinks = 0
    for name in ("find_variable", "find_foreign_key", "find_component", "parse_foreign_key_args", "find_closing_tag", "find_opening_tag", "find_valid_component"):
        results, n, cx = analyse(ctx.ast, name)
        if results is None:
            r.missing("ParsedValue::" + name)
            continue
        for (root, off, site, line, ok, known) in cx.sinks:
            key = (line, site, repr(off))
            if key in seen:
                continue
            seen.add(key)
            n_sinks += 1
            # a widened loop-carried offset is a boundary by induction (checked below)
            wid = [k for k in off.t if k in cx.widened]
            if not ok and wid and (off - Lin.sym(wid[0])) == Lin(0):
                cx.widened[wid[0]]["roots"].add(root)
                ok = True
            if not ok and wid:
                base = off - Lin.sym(wid[0])
                # K + x where x is a boundary offset relative to a window starting at K
                ok = any((b - Lin.sym(wid[0])) == base for b in known)
            if ok:
                r.inst("%s: %s" % (name, site), "offset %r is a recorded boundary" % off)
            else:
                r.viol("P2:%s#%s" % (name, re.sub(r"\s+", "", site)[:60]), "offset `%r` used by `%s` (line %d) is not a character boundary established by a search: it can fall inside a multi-byte character or outside the string" % (off, site, line), file=PV, line=line)
        used = set()
        for (root, off, site, line, _ok, _known) in cx.sinks:
            for k in off.t:
                if k in cx.widened:
                    used.add((k, root))
        for (k, root) in sorted(used):
            w = cx.widened[k]
            if (name, w["var"]) in seen:
                continue
            seen.add((name, w["var"]))
            if w["init"] not in cx.bounds.get(root, set()) and w["init"] != Lin(0):
                r.viol("P2:%s#%s-init" % (name, w["var"]), "loop-carried offset `%s` starts at %r which is not a boundary" % (w["var"], w["init"]), file=PV, line=w["line"])
            if not w["updates"]:
                r.viol("T:%s#%s-no-update" % (name, w["var"]), "loop-carried offset `%s` is never advanced" % w["var"], file=PV, line=w["line"])
            for (new, delta, line) in w["updates"]:
                if not delta.positive():
                    r.viol("T:%s#%s-progress" % (name, w["var"]), "loop-carried offset `%s` does not provably grow (delta %r): the search loop may not terminate" % (w["var"], delta), file=PV, line=line)
                elif new not in cx.bounds.get(root, set()):
                    r.viol("P2:%s#%s-step" % (name, w["var"]), "loop-carried offset `%s` is advanced to %r which is not a recorded character boundary" % (w["var"], new), file=PV, line=line)
                else:
                    r.inst("%s: loop offset `%s`" % (name, w["var"]), "starts at %r, advances to %r (a boundary), delta %r > 0" % (w["init"], new, delta))
        for note in cx.notes:
            if note not in seen:
                seen.add(note)
                r.viol("P2:%s#unresolved:%s" % (name, re.sub(r"[^A-Za-z0-9_.\[\]]+", "", note.split(": ", 1)[1])[:50]), "%s - the offset could not be evaluated symbolically, so it cannot be shown to be a character boundary (fail closed)" % note, file=PV)
    if n_sinks < 6:
        r.viol("P2:sinks", "only %d slicing sites were evaluated (8 on the pinned tree)" % n_sinks, file=PV)
    return r
