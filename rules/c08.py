"""C08 A key's required arguments are the union over all locales."""
import re

from report import Rule
from mirlib import callee_name, op_const, op_place, backward_slice
import mustlib as M
from astlib import find_all, find_first, show, show_pat, quotes_in, tok_text, method_chain, callee_path
from rules.common import ftrav, flat, flatp, has, same, xquotes

EXPLANATION = (
    "Static structural analysis (syntax facts, MIR provenance facts, generated-code templates); nothing executed in the "
    "quick tier. Decided clauses: (R1) the collector get_keys_inner visits every kind of value: variables and their "
    "formatters, components and their children, bloc items, every range branch plus a typed count, every plural form and "
    "`other` plus a plural count, and the resolved value of foreign keys. (R2) the collection is a monotone union: every "
    "locale's value is collected into the key's one InterpolOrLit; InterpolationKeys is only ever grown (entry/insert), "
    "its fields are private, and the only reset (literal -> empty interpolation) happens before anything was collected. "
    "(R3) the count type conflict table (same type ok; two range types -> RangeTypeMissmatch; range with plural -> "
    "RangeAndPluralsMix). (R4) the generated TypedBuilder struct has one required field per collected variable / component "
    "(no default, no skipped setter), the string back-end's build functions exist only on the fully-set builder, and t! "
    "turns each `name = expr` into the setter of that name. (R5) substitution through a foreign key keeps the count "
    "variable a plural/range already had unless a count argument is given. Thorough tier adds compile-fail witnesses "
    "(missing variable / component / count, unknown key do not compile; the twins do). NOT decided: trait bounds of "
    "concrete argument types."
)
ASSUMPTIONS = ["typed-builder 0.20 makes a field without `default` mandatory at compile time", "BTreeMap/BTreeSet insert semantics"]

PV = "leptos_i18n_parser/src/parse_locales/parsed_value.rs"
PL = "leptos_i18n_parser/src/parse_locales/locale.rs"
PR = "leptos_i18n_parser/src/parse_locales/ranges.rs"
PP = "leptos_i18n_parser/src/parse_locales/plurals.rs"
MI = "leptos_i18n_macro/src/load_locales/interpolate.rs"


def r1_collector(ctx):
    r = Rule("C08.R1", "the argument collector visits every kind of value",
             "a variable that occurs only inside a plural form, a range branch, a component or a referenced key of one locale "
             "must still become a required argument; an arm that does not descend loses it for exactly that shape", floor=12)
    ast = ctx.ast
    fn = ast.fn(PV, "get_keys_inner", impl_self="ParsedValue")
    if fn is None:
        r.missing("ParsedValue::get_keys_inner")
        return r
    # decided by evaluation (collector_eval below); the structural clauses on the same function are the fallback when the
    # evaluator cannot interpret the code (their verdict is then accompanied by `undecided`)
    evaluated = False
    try:
        from rules import absint as _absint
        collector_eval(ctx, r, fn)
        evaluated = True
    except _absint.Unknown as u:
        r.viol("R1:get_keys_inner#undecided", "the collector cannot be interpreted on the current code (%s): not decided on this tree (fail closed); structural clauses follow" % str(u)[:300], file=fn.file, line=fn.line)
    if evaluated:
        r.floor = 2
        _ranges_inner(ctx, r)
        return r
    ftrav(r, "ParsedValue::get_keys_inner", fn, {
        "Variable": (["push_var"], "the variable and its formatter"),
        "Component": (["push_comp"], "the component"),
        "Bloc": (["get_keys_inner"], "items"),
        "Ranges": (["push_count"], "typed count"),
        "Plurals": (["push_count"], "plural count"),
        "ForeignKey": (["get_keys_inner"], "resolved value"),
        "Literal": (None, "no arguments (sets the literal type at top level)"),
        "Subkeys": (None, "not a value"), "Default": (None, "nothing to collect"),
    })
    if fn is not None:
        from rules import sem
        nb = sem.nbody(ast, fn)
        _m, arms = sem.arms_of(nb, "ParsedValue::")

        def arm(v, guard=None):
            for a in arms.get(v, []):
                b, g = sem.arm_body(a)
                if guard is None or (g is not None and guard in sem.ftext(g)):
                    return b
            return None

        def clause(key, ok, why):
            if ok:
                r.inst("get_keys_inner#" + key, why)
            else:
                r.viol("R1:get_keys_inner#" + key, "collector changed for `%s`: %s" % (key, why), file=fn.file, line=fn.line)
        # Component: the component itself, then its children
        b = arm("Component")
        pc = sem.calls(b, r"^push_comp$") if b else []
        gi = sem.calls(b, r"^get_keys_inner$") if b else []
        clause("component-children", bool(pc) and pc[0][1] == ["key.clone"] and any(rc == "inner" and a[-1] == "false" for rc, a, _n in gi),
               "push_comp(key.clone()) and inner.get_keys_inner(.., false)")
        # Ranges: every branch, then the typed count
        b = arm("Ranges")
        gi = sem.calls(b, r"^get_keys_inner$") if b else []
        pcs = sem.calls(b, r"^push_count$") if b else []
        clause("ranges-branches", any(rc == "v0" for rc, a, _n in gi) and len(pcs) == 1 and pcs[0][1][1:] == ["RangeOrPlural::Rangev0.get_type", "v0.count_key.clone"],
               "ranges.get_keys_inner(..) and push_count(.., Range(ranges.get_type()), ranges.count_key.clone())")
        # Plurals: the count as Plural, every form, and `other`
        b = arm("Plurals")
        pcs = sem.calls(b, r"^push_count$") if b else []
        okf, whyf = sem.visits_all(b, [r"^forms$"], r"\.get_keys_inner|get_keys_inner") if b else (False, "no arm")
        gi = sem.calls(b, r"^get_keys_inner$") if b else []
        other = any(rc == "other" for rc, a, _n in gi) or (b is not None and any("other" in sem.ftext(sem.canon_strip(x)) for it in sem.iterations(b) for x in it["extra"]))
        clause("plurals-forms", len(pcs) == 1 and pcs[0][1][1:] == ["RangeOrPlural::Plural", "count_key.clone"] and okf and other,
               "push_count(.., Plural, count_key.clone()); %s; other visited=%s" % (whyf, other))
        b = arm("Variable")
        pv = sem.calls(b, r"^push_var$") if b else []
        clause("variable", len(pv) == 1 and pv[0][1] == ["key.clone", "*formatter"], "push_var(key.clone(), *formatter)")
        b = arm("ForeignKey")
        gi = sem.calls(b, r"^get_keys_inner$") if b else []
        clause("foreign-key", any(re.match(r'^\w+\.borrow\.as_inner"get_keys_inner"$', rc or "") and a[-1] == "false" for rc, a, _n in gi),
               "the resolved value is visited: <fk>.borrow().as_inner(..).get_keys_inner(.., false)")
        b = arm("Bloc")
        okb, whyb = sem.visits_all(b, [r"^v0$"], r"get_keys_inner") if b else (False, "no arm")
        clause("bloc", okb, whyb)
        b = arm("Literal", guard="is_top")
        clause("top-literal", b is not None and sem.ftext(b).strip("{}") == "*keys=InterpolOrLit::Litv0.get_type", "a top-level literal sets the literal type")
    _ranges_inner(ctx, r)
    return r


def _ranges_inner(ctx, r):
    """Ranges::get_keys_inner is reached through the evaluation (a range value is in its universe: every branch's variables must be
    reported); this clause only records that the function exists"""
    inner = [f for f in ctx.ast.fns_named(PR, "get_keys_inner") if "Ranges" in (f.impl_self or "")]
    if inner:
        r.inst("Ranges::get_keys_inner", "interpreted as part of get_keys_inner (every branch's variables are reported)")
    else:
        r.missing("Ranges::get_keys_inner")


def collector_eval(ctx, r, fn):
    """get_keys_inner evaluated (rules/absint.py) on values of every kind, starting from an empty signature and from one that
    already knows some of the names (another locale was visited first): everything that occurs in the value is reported to the
    signature - push_var / push_comp / push_count are the observation points"""
    from rules import absint, fkeval
    from rules.absint import AEval, C, A, B, UNIT
    from rules.fkeval import Lit, Var, Comp, Bloc, FkSet, Rng, Plu, Exact, FALLBACK
    absint.set_program(ctx.ast)
    vals = [("a variable", Var("var_x")), ("a formatted variable", Var("var_x", "Number")), ("a component around a variable", Comp("comp_b", Var("var_name"))),
            ("the same component twice, a variable in the second", Bloc(Comp("comp_b", Lit("a")), Lit(" and "), Comp("comp_b", Var("var_x")))),
            ("nested components", Comp("comp_b", Comp("comp_i", Comp("comp_b", Var("var_y"))))),
            ("a range", Rng("var_count", "I32", [(Exact(0), Var("var_z")), (FALLBACK, Comp("comp_i", Var("var_count")))])),
            ("a plural", Plu("var_count", "Cardinal", [("One", Var("var_o")), ("Few", Comp("comp_b", Var("var_f")))], Var("var_other"))),
            ("a resolved reference", FkSet(Bloc(Var("var_q"), Comp("comp_b", Var("var_r"))))), ("a bloc in a bloc", Bloc(Lit("a"), Bloc(Var("var_x"), Bloc(Comp("comp_b", Var("var_y"))))))]

    def occ(v, out):
        k = v[1]
        f = absint.fields_of(v) if v[0] == "ctor" and len(v) > 3 else {}
        if k == "Variable":
            out.add(("var", absint.fields_of(f["key"])["name"][1]))
        elif k == "Component":
            out.add(("comp", absint.fields_of(f["key"])["name"][1]))
            occ(f["inner"], out)
        elif k == "Bloc":
            for x in v[2][0][1]:
                occ(x, out)
        elif k == "ForeignKey":
            occ(v[2][0][2][0], out)
        elif k == "Ranges":
            rf = absint.fields_of(v[2][0])
            out.add(("count", absint.fields_of(rf["count_key"])["name"][1]))
            for br in rf["inner"][2][0][1]:
                occ(br[1][1], out)
        elif k == "Plurals":
            pf = absint.fields_of(v[2][0])
            out.add(("count", absint.fields_of(pf["count_key"])["name"][1]))
            for fm in pf["forms"][1]:
                occ(fm[1][1], out)
            occ(pf["other"], out)
    n = 0
    bad = None
    for known in (set(), {("comp", "comp_b"), ("var", "var_x"), ("count", "var_count")}):
        for label, v in vals:
            seen = set(known)
            log = set()

            def name(kv):
                return absint.fields_of(kv)["name"][1]

            def push(kind):
                def f(rv, a):
                    item = (kind, name(a[0] if kind != "count" else a[2]))
                    new = item not in seen
                    seen.add(item)
                    log.add(item)
                    return B(new) if kind == "comp" else (UNIT if kind == "var" else C("Ok", UNIT))
                return f
            ev = AEval(funcs={}, builtins={"get_interpol_keys_mut": lambda rv, a: A("signature"), "push_var": push("var"), "push_comp": push("comp"), "push_count": push("count"),
                                           "get_type": lambda rv, a: A("type"), "as_inner": lambda rv, a: rv[2][0] if rv[0] == "ctor" and rv[1] == "Set" else rv})
            got = ev.run_fn(fn, [v, A("key_path"), A("keys"), B(False)])
            if isinstance(got, str):
                raise absint.Unknown("%s (get_keys_inner on %s)" % (got, label))
            n += 1
            want = set()
            occ(v, want)
            if (got != C("Ok", UNIT) or log != want) and bad is None:
                bad = "%s%s: the signature is told about %s, the value contains %s (result %s)" % (label, " when the signature already has comp_b, var_x and the count" if known else "", sorted(log), sorted(want), absint.fmt(got)[:60])
    # a value that is a single literal at the top of a key makes the key a plain (typed) literal key; below the top it adds nothing
    from rules.absint import CF as _CF, I as _I
    for top, wantk in ((True, C("Lit", C("Unsigned"))), (False, A("keys"))):
        ev = AEval(funcs={}, builtins={"get_type": lambda rv, a: C(rv[1]) if rv[0] == "ctor" else A("type")})
        got = ev.run_fn(fn, [C("Literal", C("Unsigned", _I(3))), A("key_path"), A("keys"), B(top)])
        if isinstance(got, str):
            raise absint.Unknown("%s (get_keys_inner on a literal, is_top=%s)" % (got, top))
        after = (getattr(ev, "last_env", None) or {}).get(fn.params()[2] if len(fn.params()) > 2 else "keys")
        n += 1
        if after != wantk and bad is None:
            bad = "a literal %s: the key information becomes %s, expected %s" % ("at the top of a key" if top else "inside a value", absint.fmt(after)[:80] if after else after, absint.fmt(wantk))
    if bad:
        r.viol("R1:get_keys_inner#everything-that-occurs", bad, file=fn.file, line=fn.line)
    else:
        r.inst("get_keys_inner (evaluated)", "%d evaluations (9 values of every kind x signature empty / already knowing some names): every variable, component and count that occurs is reported" % n)


def push_eval(ctx, r, rid="R2"):
    """InterpolationKeys::push_var / push_comp evaluated: a sequence of reports ends with every distinct (variable, formatter) pair and
    every component in the signature - nothing is merged away (each formatter a variable is used with decides the variable's bounds
    *and* which ICU data the build helper requests)"""
    from rules import absint
    from rules.absint import AEval, C, CF, L
    from rules.fkeval import K
    ast = ctx.ast
    pv = ast.fn(PL, "push_var", impl_self="InterpolationKeys")
    pc = ast.fn(PL, "push_comp", impl_self="InterpolationKeys")
    if pv is None or pc is None:
        r.missing("InterpolationKeys::push_var / push_comp")
        return
    absint.set_program(ast)
    fms = [C("None"), C("Number", C("Auto")), C("Currency", C("Short"), C("USD")), C("Number", C("Never")), C("Date", C("Long")), C("Time", C("Long")), C("DateTime", C("Long"), C("Short")), C("List", C("And"), C("Wide"))]
    seq = [("var_x", fms[1]), ("var_x", fms[2]), ("var_x", fms[1]), ("var_y", fms[0]), ("var_x", fms[3]), ("var_d", fms[4]), ("var_d", fms[5]), ("var_d", fms[6]), ("var_y", fms[7])]
    this = CF("InterpolationKeys", components=L(), variables=L())
    try:
        for kname, f in seq:
            ev = AEval(funcs={})
            ev.default_value = CF("VarInfo", formatters=L(), range_count=C("None"))
            g = ev.run_fn(pv, [this, K(kname), f])
            if isinstance(g, str):
                raise absint.Unknown(g)
            this = ev.last_env.get("self", this)
        for cname in ("comp_b", "comp_i", "comp_b"):
            ev = AEval(funcs={})
            g = ev.run_fn(pc, [this, K(cname)])
            if isinstance(g, str):
                raise absint.Unknown(g)
            this = ev.last_env.get("self", this)
    except absint.Unknown as u:
        r.viol("%s:push_var#undecided" % rid, "cannot be interpreted on the current code (%s): not decided (fail closed)" % str(u)[:200], file=PL, line=pv.line)
        return
    f_ = absint.fields_of(this)
    got = {absint.fields_of(kv[1][0])["name"][1]: set(absint.fields_of(kv[1][1])["formatters"][1]) for kv in f_["variables"][1]} if f_["variables"][0] == "list" else None
    want = {}
    for kname, f in seq:
        want.setdefault(kname, set()).add(f)
    comps = sorted(absint.fields_of(x)["name"][1] for x in f_["components"][1]) if f_["components"][0] == "list" else None
    if got != want:
        lost = {k: [absint.fmt(x) for x in (want[k] - (got or {}).get(k, set()))] for k in want if want[k] - (got or {}).get(k, set())}
        r.viol("%s:push_var#every-formatter" % rid, "after reporting x as number, currency, number(never), d as date / time / datetime, y plain and as list, the signature lacks %s" % lost, file=PL, line=pv.line)
    elif comps != ["comp_b", "comp_i"]:
        r.viol("%s:push_comp" % rid, "after reporting <b>, <i>, <b> the components are %s" % comps, file=PL, line=pc.line)
    else:
        r.inst("InterpolationKeys::push_var / push_comp (evaluated)", "9 variable reports (8 formatters incl. two of one family and two families taking the same kind of input) + 3 component reports: every distinct pair is kept")


def r2_union(ctx, prog):
    r = Rule("C08.R2", "collection is a monotone union into the key's single argument set",
             "`the union over all locales`: arguments collected for one locale must never be removed or replaced when another "
             "locale is merged", floor=6)
    ast = ctx.ast
    push_eval(ctx, r, "R2")
    fn = ast.fn(PV, "merge", impl_self="ParsedValue")
    if fn is None:
        r.missing("ParsedValue::merge")
    else:
        # evaluated (rules/absint.py): a later locale's value of every kind merged into a key whose argument set so far is a
        # literal of some type / a set of arguments: what was collected from earlier locales is never lost (`locales may mix
        # value kinds freely`); a literal leaves a set of arguments alone, two literals of different types give the zero-field
        # builder, any other value is collected into the same set
        from rules import absint
        from rules.absint import AEval, A, C, CF, I, L, T, UNIT

        def S(x):
            return ("str", x)
        K0 = CF("InterpolationKeys", variables=L(T(CF("Key", name=S("var_x")), A("info")), T(CF("Key", name=S("var_count")), A("range-i32"))), components=L(CF("Key", name=S("comp_b"))))
        EMPTY = absint.DEFAULT
        olds = {"interpolation": C("Interpol", K0), "string": C("Lit", C("String")), "number": C("Lit", C("Unsigned")), "bool": C("Lit", C("Bool"))}
        lits = {"string": (C("Literal", C("String", S("t"), C("MAX"))), C("String")), "number": (C("Literal", C("Unsigned", I(5))), C("Unsigned")),
                "bool": (C("Literal", C("Bool", ("bool", False))), C("Bool")), "signed": (C("Literal", C("Signed", I(-1))), C("Signed"))}
        others = {"variable": CF("Variable", key=CF("Key", name=S("var_y")), formatter=C("None")), "bloc": C("Bloc", L(A("piece"))), "component": CF("Component", key=CF("Key", name=S("comp_c")), inner=A("inner")),
                  "range": C("Ranges", A("ranges")), "plural": C("Plurals", A("plurals")), "reference": C("ForeignKey", A("cell"))}
        bad = []
        ncase = 0
        for oname, old in olds.items():
            for vname, val in list((k, v[0]) for k, v in lits.items()) + list(others.items()):
                collected = []

                def gki(rv, a, collected=collected):
                    collected.append((rv, a[1], a[2] if len(a) > 2 else None))
                    cur = a[1]
                    return ("mutargs", C("Ok", UNIT), {1: C("Interpol", A("collected(%s + %s)" % (absint.fmt(cur)[:40], rv[1])))})
                ev = AEval(funcs={}, builtins={"reduce": lambda rv, a: UNIT, "index_strings": lambda rv, a: UNIT, "get_keys_inner": gki,
                                               "get_type": lambda rv, a: C(rv[1]) if rv[0] == "ctor" else rv})
                keys = CF("Value", value=old, defaults=A("defaults"))
                got = ev.run_fn(fn, [val, keys, S("fr"), A("default_to"), A("key_path"), A("strings"), A("warnings")])
                ncase += 1
                if isinstance(got, str):
                    bad.append("cannot be evaluated (%s into %s): %s" % (vname, oname, got))
                    break
                after = absint.fields_of((getattr(ev, "last_env", None) or {}).get("keys", keys)).get("value")
                if vname in lits:
                    ty = lits[vname][1]
                    if old[1] == "Interpol":
                        want = old
                    elif old[2][0] == ty:
                        want = old
                    else:
                        want = "empty"
                    okv = (after == want) if want != "empty" else (after[0] == "ctor" and after[1] == "Interpol" and (after[2][0] == EMPTY or (after[2][0][0] == "ctor" and not any(x[1][1] for x in after[2][0][3]))))
                    if got != C("Ok", UNIT) or not okv or collected:
                        bad.append("a %s literal merged into a key whose arguments so far are %s gives %s and leaves %s (expected %s)" % (
                            vname, absint.fmt(old)[:80], absint.fmt(got)[:40], absint.fmt(after)[:100] if after else after,
                            "them unchanged" if want != "empty" else "the zero-field builder"))
                else:
                    if got != C("Ok", UNIT) or len(collected) != 1 or collected[0][0] != val or collected[0][1] != old or not (after[0] == "ctor" and after[1] == "Interpol" and after[2][0][0] == "atom"):
                        bad.append("a %s merged into a key whose arguments so far are %s: collected %s, result %s, arguments afterwards %s (expected exactly one collection of this value into the key's own set)" % (
                            vname, absint.fmt(old)[:60], [(absint.fmt(c[0])[:30], absint.fmt(c[1])[:30]) for c in collected], absint.fmt(got)[:40], absint.fmt(after)[:80] if after else after))
            else:
                continue
            break
        if bad:
            r.viol("R2:ParsedValue::merge#collect", "; ".join(bad[:2]), file=PV, line=fn.line)
        else:
            r.inst("ParsedValue::merge", "%d (value kind, arguments collected so far) cases: literals leave collected arguments alone (equal literal types stay literal, different ones give the zero-field builder), every other value is collected once into the key's own set" % ncase)
    fn = ast.fn(PV, "get_keys", impl_self="ParsedValue")
    t = flatp(show(fn.body)) if fn else ""
    if same(t, "{letmutkeys=InterpolOrLit::LitLiteralType::String;self.get_keys_innerkey_path,&mutkeys,true?;Okkeys}"):
        r.inst("ParsedValue::get_keys", "default locale: fresh set, collected with is_top = true")
    else:
        r.viol("R2:ParsedValue::get_keys", "get_keys changed: %s" % t[:120], file=PV)
    # InterpolationKeys: private fields, insert-only
    st = ast.struct(PL, "InterpolationKeys")
    if st is None:
        r.missing("struct InterpolationKeys")
    else:
        pub = [f["name"] for f in st["fields"] if f["vis"]]
        if pub:
            r.viol("R2:InterpolationKeys#private", "fields %s are public: anything could shrink the set" % pub, file=PL)
        else:
            r.inst("InterpolationKeys fields", "private: " + ", ".join(f["name"] for f in st["fields"]))
    shrinking = {"remove", "clear", "retain", "take", "pop", "pop_first", "pop_last", "drain", "split_off", "truncate", "extract_if", "remove_entry"}
    for f in ast.fns:
        if f.file.endswith(PL) and f.impl_self == "InterpolationKeys" and f.body:
            calls = [c["method"] for c in find_all(f.body, "MethodCall") if re.match(r"^self\.(variables|components)", show(c["receiver"]))]
            allc = [c["method"] for c in find_all(f.body, "MethodCall")]
            bad = sorted(set(allc) & shrinking)
            if bad:
                r.viol("R2:InterpolationKeys::%s#shrinks" % f.name, "calls %s: the collected set can lose members" % bad, file=f.file, line=f.line)
            else:
                r.inst("InterpolationKeys::" + f.name, "uses " + ", ".join(sorted(set(calls))) if calls else "no mutation")
    # resets: who builds `InterpolOrLit::Interpol(..)` (MIR; a private helper with one caller counts as its caller)
    import mustlib as M
    resets = {}
    for name, b in prog.bodies.items():
        if b.crate != "leptos_i18n_parser":
            continue
        n_sites = sum(1 for _ in b.aggregates("locale::InterpolOrLit", "Interpol"))
        if n_sites:
            o = M.owner_of(prog, name).split("parse_locales::")[-1]
            resets[o] = resets.get(o, 0) + n_sites
    want = {"locale::InterpolOrLit::get_interpol_keys_mut": 1, "parsed_value::ParsedValue::merge": 1}
    if resets != want:
        r.viol("R2:resets", "an (empty) argument set is built at %s (site counts; expected exactly %s)" % (resets, want), file=PL)
    else:
        r.inst("resets", "only Lit -> Interpol(default) in get_interpol_keys_mut and on a literal type mismatch (nothing collected yet in both)")
    fn = ast.fn(PL, "get_interpol_keys_mut", impl_self="InterpolOrLit")
    if fn is None:
        r.missing("InterpolOrLit::get_interpol_keys_mut")
    else:
        # evaluated: an existing argument set is handed back untouched; a literal key becomes an empty set
        from rules import absint as _ai
        from rules.absint import AEval as _AE, C as _C, CF as _CF, L as _L, A as _A
        _ai.set_program(ast)
        full = _CF("InterpolationKeys", components=_L(_A("c1")), variables=_L(_A("v1")))
        okg = True
        for start, want_self in ((_C("Interpol", full), _C("Interpol", full)), (_C("Lit", _C("Bool")), None)):
            ev = _AE(funcs={})
            try:
                g = ev.run_fn(fn, [start])
            except _ai.Unknown as u:
                g = "UNKNOWN: %s" % u
            after = (getattr(ev, "last_env", None) or {}).get("self")
            if isinstance(g, str):
                okg = None
                break
            if want_self is not None and (after != want_self or g != full):
                okg = False
            if want_self is None and not (after is not None and after[0] == "ctor" and after[1] == "Interpol"):
                okg = False
        if okg:
            r.inst("get_interpol_keys_mut", "an existing set is returned as is; only a Lit is replaced by an empty set")
        elif okg is False:
            r.viol("R2:get_interpol_keys_mut", "an existing argument set may be replaced (or a literal key does not become an argument set)", file=PL, line=fn.line)
        else:
            t = flatp(show(fn.body))
            if has(t, "InterpolOrLit::Interpolkeys=>keys") and has(t, "InterpolOrLit::Lit_=>{*self=InterpolOrLit::InterpolInterpolationKeys::default;self.get_interpol_keys_mut}"):
                r.inst("get_interpol_keys_mut", "an existing set is returned as is; only a Lit is replaced by an empty set")
            else:
                r.viol("R2:get_interpol_keys_mut", "an existing argument set may be replaced", file=PL)
    # (push_var / push_comp are decided by evaluation: push_eval above)
    return r


def r3_conflicts(ctx):
    r = Rule("C08.R3", "count type conflict table",
             "`the count variable typed by the range's numeric type or as a plural count`: two locales must agree", floor=4)
    fn = ctx.ast.fn(PL, "push_count", impl_self="InterpolationKeys")
    if fn is None:
        r.missing("InterpolationKeys::push_count")
        return r
    rows = push_count_table(ctx)
    if rows is None:
        r.missing("InterpolationKeys::push_count (evaluation)")
        return r
    from rules import absint
    from rules.absint import C, A
    unk = [x for x in rows if isinstance(x[2], str)]
    if unk:
        r.viol("R3:push_count#eval", "push_count cannot be evaluated: %s" % unk[0][2], file=fn.file, line=fn.line)
        return r
    stored_ok = all(stored == C("Some", n) and untouched for (p, n, out, stored, untouched) in rows)
    if stored_ok:
        r.inst("push_count#entry", "the previous count type is read from, and the new one stored in, the count variable's own record (other variables untouched)")
    else:
        r.viol("R3:push_count#entry", "the previous count type is not read from (and the new one stored in) the count variable's own record", file=fn.file, line=fn.line)
    want = {"ok": ("Ok", lambda p, n: p == C("None") or (p == C("Some", C("Plural")) and n == C("Plural"))),
            "same-range": ("Ok", lambda p, n: p == C("Some", C("Range", C("U8"))) and n == C("Range", C("U8"))),
            "mix": ("RangeAndPluralsMix", lambda p, n: (p == C("Some", C("Plural")) and n[1] == "Range") or (p[1] == "Some" and p[2][0][1] == "Range" and n == C("Plural"))),
            "range-mismatch": ("RangeTypeMissmatch", lambda p, n: p == C("Some", C("Range", C("I32"))) and n == C("Range", C("U8")))}

    def classify(v):
        if v[0] == "ctor" and v[1] == "Ok":
            return "Ok"
        if v[0] == "ctor" and v[1] == "Err" and v[2] and v[2][0][0] == "ctor":
            return v[2][0][1]
        return "?" + absint.fmt(v)
    for k, (outcome, pred) in want.items():
        sel = [(p, n, out) for (p, n, out, _st, _u) in rows if pred(p, n)]
        bad = [(absint.fmt(p), absint.fmt(n), classify(out)) for (p, n, out) in sel if classify(out) != outcome]
        if sel and not bad:
            r.inst("push_count#" + k, "%d case(s) -> %s" % (len(sel), outcome))
        else:
            r.viol("R3:push_count#" + k, "conflict table changed for `%s`: (previous, new, outcome) = %s, expected %s" % (k, bad, outcome), file=fn.file, line=fn.line)
    return r


def push_count_table(ctx):
    """abstract evaluation of InterpolationKeys::push_count on a key set holding the count variable (previous type: none,
    plural, range a, range b) and another variable: [(previous, new, result, stored type of the count variable, other
    variable untouched)]"""
    from rules import absint
    from rules.absint import AEval, C, CF, A, L, T
    funcs = absint.file_funcs(ctx.ast, PL, impl_self="InterpolationKeys")
    for q, f in absint.file_funcs(ctx.ast, PR).items():
        if q.startswith("RangeType::"):
            funcs[q] = f
    pc = funcs.get("InterpolationKeys::push_count")
    if pc is None:
        return None
    S = lambda x: ("str", x)  # noqa: E731
    rows = []
    RA, RB = C("U8"), C("I32")
    other = CF("VarInfo", range_count=C("None"), formatters=L(A("g")))
    for prev in (C("None"), C("Some", C("Plural")), C("Some", C("Range", RA)), C("Some", C("Range", RB))):
        for ty in (C("Plural"), C("Range", RA)):
            this = CF("InterpolationKeys", variables=L(T(S("other"), other), T(S("count"), CF("VarInfo", range_count=prev, formatters=L(A("f0"))))), components=L())
            ev = AEval(funcs=funcs)
            ev.default_value = CF("VarInfo", range_count=C("None"), formatters=L())
            ev.type_of_ctor = {k: "RangeType" for k in ("I8", "I16", "I32", "I64", "U8", "U16", "U32", "U64", "F32", "F64")}
            out = ev.run_fn(pc, [this, S("kp"), ty, S("count")])
            if isinstance(out, str):
                rows.append((prev, ty, out, None, False))
                continue
            vs = dict((k[1], v) for k, v in (x[1] for x in absint.fields_of(ev.last_env["self"])["variables"][1]))
            rows.append((prev, ty, out, absint.fields_of(vs.get("count", C("None"))).get("range_count") if "count" in vs else None, vs.get("other") == other and len(vs) == 2))
    return rows


def r4_builder(ctx):
    r = Rule("C08.R4", "every collected argument is a required builder field; t! calls the setter of that name",
             "`omitting a member does not compile`: a default/optional field or a dropped field makes the omission compile", floor=8)
    ast = ctx.ast
    fn = ast.fn(MI, "make_fields", impl_self="Interpolation")
    if fn is None:
        r.missing("Interpolation::make_fields")
    else:
        # evaluated (rules/absint.py, with InterpolationKeys::iter_vars / iter_comps under it): every collected variable and
        # component becomes exactly one field, whatever its formatters / count; fields are ordered by key
        from rules import absint
        from rules.absint import AEval, C, CF, L, T
        S = lambda v: ("str", v)  # noqa: E731
        K = lambda n: CF("Key", name=S(n))  # noqa: E731
        shapes = [
            ([("var_b", ["Number", "None"], C("Some", C("Plural"))), ("var_a", [], C("None"))], ["comp_z", "comp_c"]),
            ([("var_count", ["None"], C("Some", C("Range", C("I32")))), ("var_x", ["Date", "None", "List"], C("None")), ("var_y", ["None"], C("None"))], []),
            ([], ["comp_b"]), ([], []),
            ([("var_z", ["Currency"], C("None"))], ["comp_a", "comp_m", "comp_zz"]),
        ]
        bad = []
        for vs, cs in shapes:
            keys = CF("InterpolationKeys", variables=L(*[T(K(n), CF("VarInfo", formatters=L(*[C(f) for f in fs]), range_count=rc)) for n, fs, rc in vs]), components=L(*[K(c) for c in cs]))
            got = AEval(funcs={}).run_fn(fn, [keys])
            if isinstance(got, str):
                bad.append("cannot be evaluated: %s" % got)
                break
            if got[0] != "list":
                bad.append("returns %s" % absint.fmt(got)[:80])
                break
            fields = [absint.fields_of(x) for x in got[1]]
            names = [absint.fields_of(f.get("key"))["name"][1] if f.get("key") and f["key"][0] == "ctor" else "?" for f in fields]
            want_names = sorted([n for n, _f, _r in vs] + cs)
            if names != want_names:
                bad.append("variables %s and components %s give the fields %s, expected one field per argument ordered by key: %s" % ([v[0] for v in vs], cs, names, want_names))
                continue
            gens = [f.get("generic") for f in fields]
            if len(set(gens)) != len(gens):
                bad.append("two fields share the generic parameter %s" % [absint.fmt(g) for g in gens])
            for f, nm in zip(fields, names):
                voc = f.get("var_or_comp")
                if nm in cs:
                    if not (voc and voc[0] == "ctor" and voc[1] == "Comp"):
                        bad.append("component %s becomes %s" % (nm, absint.fmt(voc) if voc else voc))
                    continue
                fs_, rc = next((fs, rc) for n, fs, rc in vs if n == nm)
                vf = absint.fields_of(voc) if voc and voc[0] == "ctor" and voc[1] == "Var" else None
                if vf is None:
                    bad.append("variable %s becomes %s" % (nm, absint.fmt(voc) if voc else voc))
                    continue
                gotf = sorted(x[1] for x in vf.get("formatters", L())[1])
                if gotf != sorted(fs_):
                    bad.append("variable %s with formatters %s keeps %s" % (nm, sorted(fs_), gotf))
                if (vf.get("plural") == C("None")) != (rc == C("None")):
                    bad.append("variable %s with count %s gets plural = %s" % (nm, absint.fmt(rc), absint.fmt(vf.get("plural"))))
        if bad:
            r.viol("R4:make_fields#all", "make_fields: %s" % "; ".join(bad[:3]), file=MI, line=fn.line)
        else:
            for k in ("vars", "formatters-all", "count", "comps", "all"):
                r.inst("make_fields#" + k, "%d key sets: one field per variable / component ordered by key, all formatters kept, count kept, distinct generics" % len(shapes))
    fn = ast.fn(MI, "create_types", impl_self="Interpolation")
    if fn is None:
        r.missing("Interpolation::create_types")
    else:
        t = flatp(show(fn.body))
        qs = [flat(tok_text(q["tokens"])) for q in xquotes(fn.body)]
        main = [q for q in qs if "TypedBuilder" in q]
        ok = bool(main) and re.search(r"pubstruct#ident<#\(#\[allow\(non_camel_case_types\)\]#generics,\)\*>\{#locale_field:#enum_ident,(#into_views_marker|#into_view_field:core::marker::PhantomData<\(#\(#into_views,\)\*\)>),#\(#fields,\)\*\}", main[0]) is not None
        ok = ok and has(t, "letfields=fields.iter.mapField::as_struct_field;")
        bad_attr = [q for q in qs if re.search(r"#\[builder\((?!crate_module_path)", q)]
        if ok and not bad_attr:
            r.inst("create_types", "struct { locale, marker, #(#fields,)* } : one field per collected argument, no builder attribute on fields")
        else:
            r.viol("R4:create_types", "the TypedBuilder struct no longer has exactly one plain field per argument (builder attrs: %s)" % bad_attr, file=MI)
    fn = ast.fn(MI, "as_struct_field", impl_self="Field")
    if fn is not None:
        qs = [flat(tok_text(q["tokens"])) for q in xquotes(fn.body)]
        if qs != ["#key:#generic"]:
            r.viol("R4:Field::as_struct_field", "field template is %s (a `#[builder(default)]` or Option type would make the argument optional)" % qs, file=MI)
        else:
            r.inst("Field::as_struct_field", "#key: #generic")
    fn = ast.fn(MI, "builder_string_build_fns", impl_self="Interpolation")
    if fn is not None:
        qs = [flat(tok_text(q["tokens"])) for q in xquotes(fn.body)]
        t = flatp(show(fn.body))
        ok = any("impl<#(#left_generics,)*>#typed_builder_name<#(#right_generics,)*((#enum_ident,),(core::marker::PhantomData<(#(#into_views,)*)>,),#((#marker,),)*)>{#fns}" in q for q in qs)
        ok = ok and has(t, "letmarker=fields.iter.mapField::as_string_builder_marker;")
        if ok:
            r.inst("builder_string_build_fns", "build_string/build_display exist only on the builder type whose every field marker is set")
        else:
            r.viol("R4:builder_string_build_fns", "string build functions are no longer restricted to the fully-set builder", file=MI)
    TI = "leptos_i18n_macro/src/t_macro/interpolate.rs"
    fn = ast.fn(TI, "to_token_stream", impl_self="InterpolatedValue")
    if fn is not None:
        from rules import absint
        from rules.absint import AEval, C, A
        funcs = absint.file_funcs(ast, TI, "InterpolatedValue")
        got = {}
        for kind in ("Var", "Comp"):
            v = AEval(funcs={k: f for k, f in funcs.items() if k != "to_token_stream"}).run_fn(fn, [C(kind, A("name"))])
            got[kind] = re.sub(r"\s+", "", v[1]) if not isinstance(v, str) and v[0] == "tok" else (v if isinstance(v, str) else absint.fmt(v))
        if got == {"Var": "var_name(name)", "Comp": "comp_name(name)"}:
            r.inst("t! setters", ".var_<name>(value) / .comp_<name>(value)")
        else:
            r.viol("R4:t!#setters", "t! no longer calls the setter named after the argument: a variable `name` gives `%s`, a component `%s`" % (got.get("Var"), got.get("Comp")), file=fn.file, line=fn.line)
    fn = ast.fn("leptos_i18n_macro/src/t_macro/mod.rs", "t_macro_inner")
    if fn is not None:
        # read off the expansion (rules/tmacro.py): every given argument's setter is called once, in order, and the build call that follows
        # carries #[deny(deprecated)] (typed-builder reports a missing field through a deprecated fn)
        from rules import tmacro, absint as _ai
        from rules.absint import AEval as _AE, C as _C, CF as _CF, L as _L, TOK as _TOK
        try:
            _ai.set_program(ast)
            okt = True
            for out_ in ("View", "String", "Display"):
                ev_ = _AE(funcs={})
                ev_.cfg = lambda t_: False
                inter_ = _C("Some", _L(tmacro._mk("Var", "a", "a"), tmacro._mk("Comp", "b", "b"), tmacro._mk("AssignedVar", "c", "x")))
                v_ = ev_.run_fn(fn, [_CF("ParsedInput", context=_TOK("CTX"), keys=_TOK("KEYS"), interpolations=inter_), _C("Context"), _C(out_)])
                if isinstance(v_, str) or v_[0] != "tok":
                    raise _ai.Unknown(v_ if isinstance(v_, str) else "not tokens")
                txt_ = re.sub(r"\s+", "", v_[1])
                m_ = re.search(r"let_builder=_builder\.var_a\(a\);let_builder=_builder\.comp_b\(b\);let_builder=_builder\.var_c\(c\);#\[deny\(deprecated\)\]_builder\.", txt_)
                if not m_ or txt_.count("_builder.var_") != 2 or txt_.count("_builder.comp_") != 1:
                    okt = False
                    r.viol("R4:t!#template", "t!(.., a, <b>, c = x) as %s expands to `%s`: expected every given argument applied once, in order, then #[deny(deprecated)] build" % (out_, v_[1][:260]), file=fn.file, line=fn.line)
                    break
            if okt:
                r.inst("t! template", "every given argument is applied, then #[deny(deprecated)] build (typed-builder reports a missing field through a deprecated fn)")
        except _ai.Unknown as u:
            r.viol("R4:t!#undecided", "t_macro_inner cannot be interpreted on the current code (%s): not decided (fail closed)" % str(u)[:200], file=fn.file, line=fn.line)
    return r


def r5_count_key(ctx, prog):
    r = Rule("C08.R5", "substitution keeps the count variable unless a count argument is given",
             "a plural/range whose count was renamed by one reference and is reached through a second one must still count on "
             "the renamed variable; resetting it adds an argument that occurs in no locale", floor=2)
    for (suffix, adt) in (("plurals::Plurals::populate", "plurals::Plurals"), ("ranges::Ranges::populate", "ranges::Ranges")):
        b = prog.body(suffix)
        if b is None:
            r.missing(suffix)
            continue
        calls = M.call_blocks(b, r"::populate_with_new_key$")
        if len(calls) != 1:
            r.viol("R5:%s#call" % suffix, "expected one populate_with_new_key call, found %d" % len(calls), file=b.file, line=b.line)
            continue
        t = b.blocks[calls[0]]["term"]
        arg = op_place(t["args"][1])
        ls, defs = backward_slice(b, arg["l"])
        from_self = False
        from_count = False
        for (i, j, s) in defs:
            if j == "term":
                n = callee_name(s) or ""
                if n.endswith("Key::count"):
                    from_count = True
                if n.endswith("Clone>::clone"):
                    src = op_place(s["args"][0])
                    if src:
                        for (i2, j2, s2) in b.defs().get(src["l"], []):
                            if j2 != "term" and s2["rv"]["k"] == "Ref":
                                pl = s2["rv"]["place"]
                                if pl["l"] == 1 and any(e.startswith(".") and M.field_name(prog, "leptos_i18n_parser::parse_locales::" + adt, int(e[1:])) == "count_key" for e in pl["p"]):
                                    from_self = True
        if from_self and not from_count:
            r.inst(suffix, "no count argument -> populate_with_new_key(self.count_key.clone(), ..)")
        else:
            r.viol("R5:%s#count-key" % suffix, "without a count argument the rebuilt %s does not keep self.count_key (from self: %s, from Key::count(): %s)" % (adt.split("::")[-1], from_self, from_count), file=b.file, line=t["line"])
    return r


def run(ctx):
    prog = ctx.mir("main")
    rules = [r1_collector(ctx), r2_union(ctx, prog), r3_conflicts(ctx), r4_builder(ctx), r5_count_key(ctx, prog)]
    # the arguments are collected `after foreign-key substitution`: the substitution clause of C06.R0 (a supplied argument
    # replaces its variable wherever it sits, formatted or not; decided by rules/fkeval.py)
    from rules import c06
    from rules.common import borrow
    k0, _ok, _why = c06.r0_substitution(ctx)
    rules.append(borrow(k0, "C08.R6", "arguments are collected from the value after foreign-key substitution",
                        "`the union, over all locales, of those occurring in that key's value after foreign-key substitution`: a variable that "
                        "a `$t(.., {args})` supplied but substitution left in place is still demanded from the caller; a component written in a string argument "
                        "that is not parsed as a translation string is missing from the signature", only=r"populate|parse_foreign_key_args", floor=2))
    # `the union ... of those occurring in that key's value`: a plural form the locale's rules never select still belongs to the value -
    # the diagnostics only warn, they do not edit the plural (check_forms evaluated, shared with C05.R3)
    from rules import c05
    rules.append(borrow(c05.r3_diagnostics(ctx, ctx.mir("main")), "C08.R7", "an unused plural form stays part of the value (and of the signature)",
                        "`exactly the union, over all locales, of those occurring in that key's value`: the unused-form check warns; if it also removed the form, "
                        "the variables only that form uses would vanish from the signature", only=r"forms-kept|check_forms", floor=1))
    # `those occurring in that key's value`: the value the arguments are collected from is the reduced one - reduce keeps every variable,
    # component (also one without content), range and plural (reduce_into evaluated on a mixed bloc, shared with C01.R3)
    from rules import c01
    rules.append(borrow(c01.r3_join(ctx), "C08.R8", "reducing a value keeps every variable, component, range and plural it contains",
                        "`exactly the union ... of those occurring in that key's value`: a component dropped while the value is reduced (e.g. because its content is "
                        "empty) disappears from the signature, so `t!(.., <br> = ..)` stops compiling", only=r"reduce_into", floor=1))
    if ctx.tier == "thorough":
        from rules import witness
        rules.append(witness.rule(ctx))
    return rules


MANIFEST_ENTRY = {
    "technique": "static analysis: traversal completeness of the argument collector (syn, canonical form), abstract evaluation (rules/absint.py) of ParsedValue::merge over value kinds x arguments collected so far (nothing collected from earlier locales is lost), of InterpolationKeys::push_count (count-type conflict table), of Interpolation::make_fields (one required field per collected variable / component) and of the builder setters, the substitution clause of C06.R0 (arguments are collected after foreign-key substitution), MIR who-may-reset checks, rustc compile_fail witnesses with compiling twins (thorough); abstract evaluation of get_keys_inner on values of every kind starting from an empty and a pre-filled signature (push_var / push_comp / push_count as observation points); the forms-kept clause of C05.R3; abstract evaluation of InterpolationKeys::push_var / push_comp (every distinct (variable, formatter) pair kept) and of get_interpol_keys_mut; the reduce_into clause of C01.R3",
    "level_text": "Structural: the set of required arguments is shown to be collected from every kind of value of every locale into one grow-only set, and every member is shown to become a mandatory builder field; the witnesses let rustc itself confirm on one mixed-kind fixture that omissions do not type-check.",
    "level_note": "Trusted: typed-builder's compile-time enforcement. Not decided: trait-bound satisfaction of concrete argument types.",
}
