"""Abstract evaluation of Locale::merge (shared by C03.R2 and C07.R2): what happens to a key that the locale lacks,
has, or has in surplus, under each kind of `default_to`, with and without `suppress_key_warnings`."""
from rules import absint
from rules.absint import AEval, C, CF, A, T, L, B, UNIT, Unknown

PL = "leptos_i18n_parser/src/parse_locales/locale.rs"


def S(x):
    return ("str", x)


def VAL(k):
    """what the locale has under key k: an ordinary translation, and - under `b` - the empty string, which is a translation
    too (only an absent key or an explicit null falls back to another locale)"""
    return C("Literal", C("String", S("" if k == "b" else "text of " + k), ("int", 0)))


def run(ctx, default_to, suppress, locale_keys=("b", "c"), default_keys=("a", "b")):
    """(result, log) of merging a locale with the given keys against the default key set; log: list of
    ("warn", kind, locale) / ("insert", key, value) / ("merge", receiver, default_to argument, key info)"""
    fn = ctx.ast.fn(PL, "merge", impl_self="Locale")
    if fn is None:
        return None, None
    log = []
    this = CF("Locale", keys=L(*[T(S(k), VAL(k)) for k in locale_keys]), name=S("grp"), top_locale_name=S("fr"))
    keys = CF("BuildersKeysInner", **{"0": L(*[T(S(k), A("k" + k)) for k in default_keys])})

    def entry(rv, a):
        if rv[0] != "list":
            raise Unknown("entry on non map")
        for x in rv[1]:
            if x[1][0] == a[0]:
                return C("Occupied", C("OccupiedEntry", a[0], x[1][1]))
        return C("Vacant", C("VacantEntry", a[0]))

    def insert(rv, a):
        if rv[0] == "ctor" and rv[1] == "VacantEntry":
            log.append(("insert", rv[2][0], a[0]))
            return a[0]
        raise Unknown("insert on %s" % (rv[:2],))

    def or_insert(rv, a):
        if rv[0] == "ctor" and rv[1] == "Vacant":
            log.append(("insert", rv[2][0][2][0], a[0]))
            return a[0]
        if rv[0] == "ctor" and rv[1] == "Occupied":
            return rv[2][0][2][1]
        raise Unknown("or_insert on %s" % (rv[:2],))

    def into_mut(rv, a):
        if rv[0] == "ctor" and rv[1] == "OccupiedEntry":
            return rv[2][1]
        raise Unknown("into_mut")

    def merge(rv, a):
        log.append(("merge", rv, a[2] if len(a) > 2 else None, a[0] if a else None))
        return C("Ok", UNIT)

    def emit(rv, a):
        w = a[0]
        log.append(("warn", w[1], dict(w[3]).get("locale") if len(w) > 3 else None))
        return UNIT
    ev = AEval(inputs=[(r'^cfg!feature="suppress_key_warnings"$', B(suppress))], funcs={},
               builtins={"entry": entry, "insert": insert, "or_insert": or_insert, "or_insert_with": lambda rv, a: or_insert(rv, [ev.apply(a[0], [])] if rv[0] == "ctor" and rv[1] == "Vacant" else [None]),
                         "into_mut": into_mut, "get_mut": into_mut, "merge": merge, "emit_warning": emit,
                         "push_key": lambda rv, a: UNIT, "pop_key": lambda rv, a: UNIT})
    try:
        res = ev.call_fn_obj(fn, [this, keys, S("fr"), default_to, A("key_path"), A("strings"), A("warnings")])
    except Unknown as u:
        return "UNKNOWN: %s" % u, log
    return res, log


def expected(default_to, suppress, locale_keys, default_keys):
    log = []
    for k in default_keys:
        if k not in locale_keys:
            if default_to[1] == "Implicit":
                log.append(("warn", "MissingKey", S("fr")))
            log.append(("insert", S(k), C("Default")))
            log.append(("merge", C("Default"), default_to, A("k" + k)))
        else:
            log.append(("merge", VAL(k), default_to, A("k" + k)))
    if not suppress:
        for k in locale_keys:
            if k not in default_keys:
                log.append(("warn", "SurplusKey", S("fr")))
    return log


SHAPES = [(("b", "c"), ("a", "b")), (("b", "c", "d"), ("a", "b")), (("b",), ("a", "b")), (("a", "b"), ("a", "b")), ((), ("a",))]


def table(ctx):
    """[(label, result, log, expected log)] over kinds of default_to x suppress_key_warnings x key-set shapes"""
    out = []
    for kind, dt in (("Implicit", C("Implicit", S("en"))), ("Explicit", C("Explicit", S("de")))):
        for sup in (False, True):
            if kind == "Implicit" and sup:
                continue   # infeasible: check_locales_inner never builds Implicit under suppress_key_warnings (C03.R1 / checklocales decide that)
            for lk, dk in SHAPES:
                res, log = run(ctx, dt, sup, lk, dk)
                out.append(("default_to=%s suppress=%s locale keys %s default keys %s" % (kind, sup, list(lk), list(dk)), res, log, expected(dt, sup, lk, dk)))
    return out


def describe(log):
    return [(x[0],) + tuple(absint.fmt(y) if isinstance(y, tuple) and y and isinstance(y[0], str) else y for y in x[1:]) for x in (log or [])]
