"""Helpers shared by the rule modules."""
import os
import re
import tomllib

HERE = os.path.dirname(os.path.abspath(__file__))


def table(name):
    with open(os.path.join(HERE, "tables", name), "rb") as fh:
        return tomllib.load(fh)


def root_fn(name):
    """strip trailing closure components: the function a closure lexically belongs to"""
    return re.sub(r"(::\{closure#\d+\})+$", "", name)


LOAD_CRATES = ("leptos_i18n_parser", "leptos_i18n_macro", "leptos_i18n_build")

# macro modules that are not part of loading translations (user-invoked t!/t_format!/... macros and
# the data-provider macro): their proc-macro input comes from Rust source, not from translation files
NOT_LOADING = re.compile(r"leptos_i18n_macro::(t_macro|t_format|t_plural|data_provider|utils::scoped)\b|"
                         r"leptos_i18n_macro::utils::(parse_subkeys|<impl|Keys)|"
                         r"<leptos_i18n_macro::(t_macro|t_format|t_plural|utils::Keys|utils::scoped)[^>]*>|"
                         r"leptos_i18n_macro::load_locales::declare_locales|<leptos_i18n_macro::load_locales::declare_locales")


def loading_bodies(prog):
    out = []
    for name, b in sorted(prog.bodies.items()):
        if b.crate not in LOAD_CRATES:
            continue
        if NOT_LOADING.search(name):
            continue
        out.append(b)
    return out
