"""Helpers shared by the rule modules."""
import os
import hashlib
import json
import os
import re
import tomllib

HERE = os.path.dirname(os.path.abspath(__file__))


def table(name):
    with open(os.path.join(HERE, "tables", name), "rb") as fh:
        return tomllib.load(fh)


def root_fn(name):
    """strip trailing closure components: the function a closure lexically belongs to"""
    return re.sub(r"(::\{closure#\d+\})+$", "", name)


LOAD_CRATES = ("leptos_i18n_parser", "leptos_i18n_macro", "leptos_i18n_build")

# macro modules that are not part of loading translations (user-invoked t!/t_format!/... macros and
# the data-provider macro): their proc-macro input comes from Rust source, not from translation files
NOT_LOADING = re.compile(r"leptos_i18n_macro::(t_macro|t_format|t_plural|data_provider|utils::scoped)\b|"
                         r"leptos_i18n_macro::utils::(parse_subkeys|<impl|Keys)|"
                         r"<leptos_i18n_macro::(t_macro|t_format|t_plural|utils::Keys|utils::scoped)[^>]*>|"
                         r"leptos_i18n_macro::load_locales::declare_locales|<leptos_i18n_macro::load_locales::declare_locales")


def loading_bodies(prog):
    out = []
    for name, b in sorted(prog.bodies.items()):
        if b.crate not in LOAD_CRATES:
            continue
        if NOT_LOADING.search(name):
            continue
        out.append(b)
    return out


# ---- F-TRAV: traversal completeness over ParsedValue ---------------------------------------------

PARSED_VALUE_VARIANTS = ["Default", "ForeignKey", "Ranges", "Literal", "Variable", "Component", "Bloc", "Subkeys", "Plurals"]


def pv_arms(fn, scrutinee_names=("self", "this", "*self", "&*self", "&mut*self")):
    """{variant: [arm,..]} for the first match over a ParsedValue in fn (or-patterns expanded); also returns wildcard arm"""
    from astlib import find_all, show, show_pat
    import re as _re
    for m in find_all(fn.body, "Match"):
        sc = _re.sub(r"\s+", "", show(m["scrutinee"]))
        pats = " ".join(show_pat(a["pat"]) for a in m["arms"])
        if "ParsedValue::" not in pats:
            continue
        if sc.startswith("("):
            continue
        out = {}
        wild = None
        for a in m["arms"]:
            pt = show_pat(a["pat"])
            if a["pat"]["k"] in ("PWild",) or (a["pat"]["k"] == "PIdent" and "::" not in pt):
                wild = a
                continue
            for v in _re.findall(r"ParsedValue::(\w+)", pt):
                out.setdefault(v, []).append(a)
        return m, out, wild
    return None, {}, None


def ftrav(rule, prefix, fn, spec, file=None):
    """spec: variant -> (list of callee/method names of which at least one must be called in every arm for that variant,
    or None when the variant has no children to visit, reason). Checks: every variant has an arm (no wildcard swallowing
    a child-bearing variant), and the required call is present."""
    from astlib import find_all, show, callee_path
    import re as _re
    if fn is None:
        rule.missing(prefix)
        return
    m, arms, wild = pv_arms(fn)
    if m is None:
        rule.missing(prefix + " (match over ParsedValue)")
        return
    for v in PARSED_VALUE_VARIANTS:
        need, why = spec.get(v, (None, "no children"))
        alist = arms.get(v)
        if not alist:
            if wild is not None and need is None:
                rule.inst("%s#%s" % (prefix, v), "covered by the catch-all arm: " + why)
                continue
            rule.viol("TRAV:%s#%s" % (prefix, v), "%s has no arm for ParsedValue::%s%s" % (prefix, v, " (a catch-all arm would skip its children)" if wild is not None else ""), file=fn.file, line=fn.line)
            continue
        if need is None:
            rule.inst("%s#%s" % (prefix, v), why)
            continue
        for a in alist:
            bt = _re.sub(r"\s+", "", show(a["body"]))
            if _re.match(r"^\{?(unreachable|panic|unimplemented)!\(", bt):
                rule.inst("%s#%s(unreachable arm)" % (prefix, v), "arm declared unreachable (counted by C09.P1)")
                continue
            called = set()
            for n in find_all(a["body"], ("MethodCall", "Call")):
                if n["k"] == "MethodCall":
                    called.add(n["method"])
                else:
                    p = callee_path(n)
                    if p:
                        called.add(p.split("::")[-1])
            # fn items passed by name (e.g. .map(Self::reduce))
            for n in find_all(a["body"], "Path"):
                called.add(n["path"].split("::")[-1])
            if not (set(need) & called):
                rule.viol("TRAV:%s#%s" % (prefix, v), "%s: the arm for ParsedValue::%s does not visit its children (expected a call to one of %s; %s)" % (prefix, v, need, why), file=fn.file, line=a["line"])
            else:
                rule.inst("%s#%s" % (prefix, v), "visits children via %s" % sorted(set(need) & called))


def flat(s):
    """text without whitespace"""
    return re.sub(r"\s+", "", s)


class FlatText(str):
    def __new__(cls, s, node):
        o = str.__new__(cls, s)
        o.node = node
        return o


def _flatp(s):
    s = re.sub(r"[\s()]+", "", s)
    s = re.sub(r";+", ";", s)
    s = s.replace(";}", "}")
    s = s.replace("};", "}")
    return s


def flatp(s):
    """text without whitespace and parentheses, with statement separators normalised: tolerant to formatting,
    redundant grouping and optional semicolons. Remembers the syntax node the text came from."""
    r = _flatp(s)
    node = getattr(s, "node", None)
    return FlatText(r, node) if node is not None else r


# ---- comparison modulo behaviour-preserving rewrites (py/canon.py) -----------------------------------------------
# A fragment is first compared literally. If that fails and the text came from a syntax node, the comparison is repeated
# in canonical form: the fragment was located once in the tree it was confirmed on (bin/learn_fragments) and re-expressed
# as the canonical texts of the syntax nodes it covers (rules/tables/fragments.json); those texts are then looked up among
# the canonical texts of the nodes of the current function.

CURRENT_AST = None
_FRAG_TABLE = None
_LEARNED = {}
_CT_CACHE = {}


def _frag_table():
    global _FRAG_TABLE
    if _FRAG_TABLE is None:
        p = os.path.join(os.path.dirname(os.path.abspath(__file__)), "tables", "fragments.json")
        try:
            with open(p) as fh:
                _FRAG_TABLE = json.load(fh)
        except OSError:
            _FRAG_TABLE = {}
    return _FRAG_TABLE


def _key(kind, frag):
    return hashlib.sha1((kind + "\0" + frag).encode()).hexdigest()[:20]


def _context(node):
    import canon
    fn = CURRENT_AST.enclosing_fn(node) if CURRENT_AST is not None else None
    fn_node = fn.node if fn is not None else None
    helpers = CURRENT_AST.helpers_of(fn.file) if fn is not None else {}
    helpers = {k: v for k, v in helpers.items() if fn is None or v is not fn.node}
    binders = canon.binders_of(fn_node, node)
    for h in helpers.values():
        binders |= canon.binders_of(h, h.get("body") or h)
    return fn, helpers, binders


def _canon_texts(node):
    """(normalised root, oid -> canonical text, set of canonical texts) of the function part below `node`"""
    import canon
    ck = id(node)
    if ck in _CT_CACHE:
        return _CT_CACHE[ck]
    fn, helpers, binders = _context(node)
    root = canon.normalise(node, helpers, top=(fn is not None and node is fn.body))
    params = fn.params() if fn is not None else None
    by_oid, texts = canon.all_ctexts(root, binders, params=params)
    whole = canon.ctext(root, binders, params)
    _CT_CACHE[ck] = (root, by_oid, texts, whole)
    return _CT_CACHE[ck]


_SEQ = {}


def _seq_texts(node):
    """one string per function part: the canonical texts of the statements of every block, in order, separated"""
    ck = id(node)
    if ck not in _SEQ:
        import canon
        from astlib import is_node
        root, by_oid, texts, whole = _canon_texts(node)
        fn, helpers, binders = _context(node)
        marked = canon._mark(__import__("copy").deepcopy(root), binders, fn.params() if fn is not None else None)
        parts = []
        for x in canon._walk(marked):
            if x["k"] == "Block":
                parts.append("\x1f" + "\x1f".join(canon._flat(canon._plain_show(st).replace("§free:", "§")) for st in x["stmts"]) + "\x1f")
        _SEQ[ck] = "\x1e".join(parts)
    return _SEQ[ck]


def _learn(kind, frag, node):
    """re-express `frag` (which matches literally below `node`) as canonical texts of the nodes it covers"""
    import canon
    from astlib import walk, show as _show
    k = _key(kind, frag)
    root, by_oid, texts, whole = _canon_texts(node)
    if kind == "same":
        pats = [whole]
    else:
        f = _flatp(frag).rstrip(";")
        pats = []
        covered = []
        for d in walk(node):
            if d["k"].startswith("P") and d["k"] != "Path":
                continue
            if any(a is not None and a in covered for a in ()):
                continue
            fd = _flatp(_show(d))
            if len(fd) >= 6 and fd in f:
                # maximal: skip when an ancestor was already taken (pre-order: ancestors come first)
                if any(_is_desc(d, c) for c in covered):
                    continue
                covered.append(d)
        # match arms `pat => body` are not nodes of their own: take them when the whole arm is inside the fragment
        from astlib import show_pat
        arms = []
        for m in walk(node):
            if m["k"] != "Match" or any(_is_desc(m, c) for c in covered):
                continue
            for a in m["arms"]:
                at = _flatp(show_pat(a["pat"]) + (" if " + _show(a["guard"]) if a.get("guard") else "") + " => " + _show(a["body"]))
                if at in f and isinstance(a["body"], dict) and a["body"].get("_oid") is not None:
                    arms.append(a)
        taken = []
        for a in arms:
            t = by_oid.get("arm%s" % a["body"]["_oid"])
            if t is not None:
                if t not in pats:
                    pats.append(t)
                taken.append(a["body"])
        # consecutive statements of one block that the fragment covers must stay consecutive
        parent_of = {}
        for blk in walk(node):
            if blk["k"] == "Block":
                for ix, st in enumerate(blk["stmts"]):
                    parent_of[id(st)] = (id(blk), ix)
        prev = None
        for d in covered:
            if any(_is_desc(d, b) for b in taken):
                continue
            t = by_oid.get(d.get("_oid"))
            if t is None and d["k"] == "Let" and isinstance(d.get("init"), dict):
                # the binding was inlined into its use: its initialiser lives on there
                t = by_oid.get(d["init"].get("_oid"))
                prev = None
                if t is not None and t not in pats:
                    pats.append(t)
                continue
            if t is None:
                prev = None
                continue
            here = parent_of.get(id(d))
            if prev is not None and here is not None and prev[0] == here[0] and prev[1] + 1 == here[1] and pats and pats[-1].split("\x1f")[-1] == prev[2]:
                pats[-1] = pats[-1] + "\x1f" + t
            elif t not in pats:
                pats.append(t)
            prev = (here[0], here[1], t) if here is not None else None
    entry = _LEARNED.setdefault(k, {"frag": frag[:100], "kind": kind, "alts": []})
    if pats and pats not in entry["alts"]:
        entry["alts"].append(pats)
    if not pats:
        entry["empty"] = entry.get("empty", 0) + 1


_DESC = {}


def _is_desc(d, anc):
    from astlib import walk
    key = id(anc)
    if key not in _DESC:
        _DESC[key] = set(id(x) for x in walk(anc))
    return id(d) in _DESC[key]


def _save_learned():
    if not _LEARNED:
        return
    p = os.path.join(os.path.dirname(os.path.abspath(__file__)), "tables", "fragments.json")
    try:
        with open(p) as fh:
            cur = json.load(fh)
    except OSError:
        cur = {}
    for k, e in _LEARNED.items():
        c = cur.setdefault(k, {"frag": e["frag"], "kind": e["kind"], "alts": []})
        for a in e["alts"]:
            if a not in c["alts"]:
                c["alts"].append(a)
    with open(p, "w") as fh:
        json.dump(cur, fh, indent=0, sort_keys=True)


if os.environ.get("VERIF_LEARN"):
    import atexit
    atexit.register(_save_learned)


def _canon_match(kind, frag, node):
    e = _frag_table().get(_key(kind, frag))
    if not e or not e["alts"]:
        return False
    try:
        root, by_oid, texts, whole = _canon_texts(node)
    except Exception:
        return False
    for alt in e["alts"]:
        if kind == "same":
            if alt == [whole]:
                return True
        elif all((p in texts) if "\x1f" not in p else (("\x1f" + p + "\x1f") in _seq_texts(node)) for p in alt):
            return True
    return False


def has(text, frag):
    """fragment containment modulo whitespace, parentheses and optional semicolons (both sides normalised); if the
    text came from a syntax node, also modulo the behaviour-preserving rewrites of py/canon.py"""
    f = _flatp(frag).rstrip(";")
    lit = f in _flatp(text)
    node = getattr(text, "node", None)
    if lit:
        if node is not None and os.environ.get("VERIF_LEARN"):
            _learn("has", frag, node)
        return True
    if node is not None:
        return _canon_match("has", frag, node)
    return False


def same(text, want):
    lit = _flatp(text) == _flatp(want)
    node = getattr(text, "node", None)
    if lit:
        if node is not None and os.environ.get("VERIF_LEARN"):
            _learn("same", want, node)
        return True
    if node is not None:
        return _canon_match("same", want, node)
    return False


# ---- quote! templates modulo local TokenStream bindings --------------------------------------------------------------

def xquotes(node, also_plain=True):
    """quote!/quote_spanned! templates below `node`, with interpolations of *local TokenStream bindings of the
    enclosing function* (`let x = quote!(..);` defined exactly once) replaced by the tokens they stand for. Binding a
    part of a template to a local first, or inlining such a local, gives the same expanded template. With
    also_plain=False the templates that only serve as such local parts are left out."""
    import copy
    from astlib import walk, quotes_in
    fn = CURRENT_AST.enclosing_fn(node) if CURRENT_AST is not None else None
    scope = fn.body if fn is not None and fn.body is not None else node
    defs = {}
    counts = {}
    from astlib import pat_bindings
    for n in walk(scope):
        if n["k"] == "Let":
            for nm in pat_bindings(n["pat"]):
                counts[nm] = counts.get(nm, 0) + 1
            if n["pat"]["k"] == "PIdent" and isinstance(n.get("init"), dict) and n["init"].get("k") == "Macro" \
                    and n["init"].get("path") in ("quote", "quote_spanned", "quote::quote") and "tokens" in n["init"]:
                defs[n["pat"]["name"]] = n["init"]["tokens"]
        elif n["k"] in ("Closure",):
            for p in n["inputs"]:
                for nm in pat_bindings(p):
                    counts[nm] = counts.get(nm, 0) + 1
        elif n["k"] == "Match":
            for a in n["arms"]:
                for nm in pat_bindings(a["pat"]):
                    counts[nm] = counts.get(nm, 0) + 1
    for nm in list(defs):
        if counts.get(nm, 0) != 1:
            defs.pop(nm)

    def expand(tokens, depth):
        out = []
        for t in tokens:
            if t["t"] in ("group", "rep"):
                t2 = dict(t)
                t2["c"] = expand(t["c"], depth)
                out.append(t2)
            elif t["t"] == "interp" and t["v"] in defs and depth < 6:
                out.extend(expand(copy.deepcopy(defs[t["v"]]), depth + 1))
            else:
                out.append(t)
        return out
    res = []
    local_ids = set(id(t) for t in defs.values())
    for q in quotes_in(node):
        if not also_plain and id(q["tokens"]) in local_ids:
            continue
        q2 = dict(q)
        q2["tokens"] = expand(q["tokens"], 0)
        res.append(q2)
    return res


def msum(prog, name_rx, stop=None, crate=None, closures=False):
    """[(body name, return-value summary text or None, [effect texts])] of the bodies matching name_rx (py/mirsum.py);
    closures=True: closure values are shown by what their body does with the captured values"""
    import mirsum
    out = []
    for b in prog.bodies_matching(name_rx, crate):
        eff = []
        t = mirsum.summary(prog, b, stop=stop, effects=eff)
        if closures and t is not None:
            t = mirsum.inline_closures(prog, b, t)
            eff = [mirsum.inline_closures(prog, b, e) for e in eff]
        out.append((b.name, mirsum.fmt(t) if t is not None else None, [mirsum.fmt(e) for e in eff]))
    return out


def mpaths(prog, name_rx, depth=0, stop=None, crate=None):
    """canonical path traces (py/mirsum.py paths) of the single body matching name_rx: sorted list of lines, or None"""
    import mirsum
    bs = prog.bodies_matching(name_rx, crate)
    if len(bs) != 1:
        return None
    ps = mirsum.paths(prog, bs[0], depth=depth, stop=stop)
    return mirsum.fmt_paths(ps, prog) if ps is not None else None


def borrow(rule, new_id, title, reason, only=None, floor=1):
    """the clauses of another property's rule that this property also depends on, under this property's rule id: the
    instances / violations whose site key matches `only` (regex) are re-labelled; the deciding code is shared"""
    import re as _re
    from report import Rule
    r = Rule(new_id, title, reason, floor=floor)
    rx = _re.compile(only) if only else None
    old = rule.id.split(".")[-1]
    new = new_id.split(".")[-1]
    for i in rule.instances:
        if rx is None or rx.search(i["site"]):
            r.instances.append(dict(i))
    for v in rule.violations:
        if rx is None or rx.search(v.key):
            key = v.key
            if key.startswith(old + ":"):
                key = new + ":" + key[len(old) + 1:]
            r.viol(key, v.msg, file=v.file, line=v.line, **(v.detail or {}))
    return r


def skip_icu_gates(ctx, rule_id, title, reason):
    """The build helper parses the same files as the macro with SKIP_ICU_CFG set.  Everywhere the parser reads that flag it must
    stand in for an ICU feature being enabled - `cfg!(feature = F) || SKIP_ICU_CFG.get()` (or its negation) - and every gate on
    such a feature must carry it: then the helper's parse is the macro's parse with every formatter / plural feature on, and
    nothing else (no pass skipped, no value treated differently)."""
    from report import Rule
    from astlib import walk, show
    r = Rule(rule_id, title, reason, floor=7)
    pos = re.compile(r'^\(?cfg!\(feature="(format_\w+|plurals)"\)\|\|SKIP_ICU_CFG\.get\(\)\)?$')
    neg = re.compile(r'^\(?!cfg!\(feature="(format_\w+|plurals)"\)&&!SKIP_ICU_CFG\.get\(\)\)?$')
    icu = re.compile(r'cfg!\((?:[a-z]+\()*feature="(format_\w+|plurals)"')
    for f in ctx.ast.fns:
        if not f.file.startswith("leptos_i18n_parser/src/") or f.body is None or f.is_test():
            continue
        body_t = flat(show(f.body))
        total = body_t.count("SKIP_ICU_CFG")
        if not total and not icu.search(body_t):
            continue
        if "SkipIcuCfgGuard" in (f.qual or "") and ".set(" in body_t and ".get(" not in body_t:
            r.inst(f.qual, "sets the flag for the duration of one parse (guard)")
            continue
        if f.name == "from_name_and_args" and "Formatter" in (f.impl_self or ""):
            # decided by evaluation, however the gate is spelled: for every formatter name the result with the flag set equals the
            # result with the family's feature enabled (rules/c18.py evaluates name x feature on / off x flag)
            try:
                from rules import c18, absint as _ai
                from report import Rule as _R
                tmp = _R(rule_id, "tmp", "tmp", floor=0)
                c18._r3_names_eval(tmp, ctx, f)
                if tmp.violations:
                    for v in tmp.violations:
                        r.viol("%s:%s" % (rule_id.split(".")[-1], v.key.split(":", 1)[-1]), v.msg, file=v.file, line=v.line)
                else:
                    for nm in ("format_currency", "format_nums", "format_datetime", "format_list"):
                        r.inst("%s#%s" % (f.qual, nm), "evaluated: with the flag set every formatter of this family resolves as if the feature were enabled")
                    r.inst("%s#unknown" % f.qual, "evaluated: names outside the table are unaffected by the flag")
                    r.inst("%s#time-date" % f.qual, "evaluated: date / time / datetime each carry the gate")
                continue
            except Exception as ex_:  # noqa: BLE001 - fall back to the syntactic normal form below
                if ex_.__class__.__name__ != "Unknown":
                    raise
        good = 0
        for n in walk(f.body):
            t = None
            if n["k"] == "If":
                t = flat(show(n["cond"]))
            elif n["k"] == "Let" and n.get("init") is not None:
                t = flat(show(n["init"]))
            if t is None or ("SKIP_ICU_CFG" not in t and not icu.search(t)):
                continue
            if n["k"] == "Let" and not (pos.match(t) or neg.match(t)):
                continue            # a let whose initialiser merely contains such a test further down: its own If is visited
            m = pos.match(t) or neg.match(t)
            if m:
                good += 1
                r.inst("%s#%s" % (f.qual, m.group(1)), "`%s`: the flag counts as the feature being enabled" % t)
            else:
                r.viol("%s:%s#gate" % (rule_id.split(".")[-1], f.qual), "the condition `%s` does not have the form `cfg!(feature = F) || SKIP_ICU_CFG.get()` (or its negation): "
                       "the build helper and the macro would parse the same files differently" % t[:160], file=f.file, line=n.get("line") or f.line)
        if total > good:
            r.viol("%s:%s#reads" % (rule_id.split(".")[-1], f.qual), "SKIP_ICU_CFG is read %d time(s) in this function, only %d of them as a stand-in for an ICU feature" % (total, good), file=f.file, line=f.line)
    return r
