"""Helpers shared by the rule modules."""
import os
import re
import tomllib

HERE = os.path.dirname(os.path.abspath(__file__))


def table(name):
    with open(os.path.join(HERE, "tables", name), "rb") as fh:
        return tomllib.load(fh)


def root_fn(name):
    """strip trailing closure components: the function a closure lexically belongs to"""
    return re.sub(r"(::\{closure#\d+\})+$", "", name)


LOAD_CRATES = ("leptos_i18n_parser", "leptos_i18n_macro", "leptos_i18n_build")

# macro modules that are not part of loading translations (user-invoked t!/t_format!/... macros and
# the data-provider macro): their proc-macro input comes from Rust source, not from translation files
NOT_LOADING = re.compile(r"leptos_i18n_macro::(t_macro|t_format|t_plural|data_provider|utils::scoped)\b|"
                         r"leptos_i18n_macro::utils::(parse_subkeys|<impl|Keys)|"
                         r"<leptos_i18n_macro::(t_macro|t_format|t_plural|utils::Keys|utils::scoped)[^>]*>|"
                         r"leptos_i18n_macro::load_locales::declare_locales|<leptos_i18n_macro::load_locales::declare_locales")


def loading_bodies(prog):
    out = []
    for name, b in sorted(prog.bodies.items()):
        if b.crate not in LOAD_CRATES:
            continue
        if NOT_LOADING.search(name):
            continue
        out.append(b)
    return out


# ---- F-TRAV: traversal completeness over ParsedValue ---------------------------------------------

PARSED_VALUE_VARIANTS = ["Default", "ForeignKey", "Ranges", "Literal", "Variable", "Component", "Bloc", "Subkeys", "Plurals"]


def pv_arms(fn, scrutinee_names=("self", "this", "*self", "&*self", "&mut*self")):
    """{variant: [arm,..]} for the first match over a ParsedValue in fn (or-patterns expanded); also returns wildcard arm"""
    from astlib import find_all, show, show_pat
    import re as _re
    for m in find_all(fn.body, "Match"):
        sc = _re.sub(r"\s+", "", show(m["scrutinee"]))
        pats = " ".join(show_pat(a["pat"]) for a in m["arms"])
        if "ParsedValue::" not in pats:
            continue
        if sc.startswith("("):
            continue
        out = {}
        wild = None
        for a in m["arms"]:
            pt = show_pat(a["pat"])
            if a["pat"]["k"] in ("PWild",) or (a["pat"]["k"] == "PIdent" and "::" not in pt):
                wild = a
                continue
            for v in _re.findall(r"ParsedValue::(\w+)", pt):
                out.setdefault(v, []).append(a)
        return m, out, wild
    return None, {}, None


def ftrav(rule, prefix, fn, spec, file=None):
    """spec: variant -> (list of callee/method names of which at least one must be called in every arm for that variant,
    or None when the variant has no children to visit, reason). Checks: every variant has an arm (no wildcard swallowing
    a child-bearing variant), and the required call is present."""
    from astlib import find_all, show, callee_path
    import re as _re
    if fn is None:
        rule.missing(prefix)
        return
    m, arms, wild = pv_arms(fn)
    if m is None:
        rule.missing(prefix + " (match over ParsedValue)")
        return
    for v in PARSED_VALUE_VARIANTS:
        need, why = spec.get(v, (None, "no children"))
        alist = arms.get(v)
        if not alist:
            if wild is not None and need is None:
                rule.inst("%s#%s" % (prefix, v), "covered by the catch-all arm: " + why)
                continue
            rule.viol("TRAV:%s#%s" % (prefix, v), "%s has no arm for ParsedValue::%s%s" % (prefix, v, " (a catch-all arm would skip its children)" if wild is not None else ""), file=fn.file, line=fn.line)
            continue
        if need is None:
            rule.inst("%s#%s" % (prefix, v), why)
            continue
        for a in alist:
            bt = _re.sub(r"\s+", "", show(a["body"]))
            if _re.match(r"^\{?(unreachable|panic|unimplemented)!\(", bt):
                rule.inst("%s#%s(unreachable arm)" % (prefix, v), "arm declared unreachable (counted by C09.P1)")
                continue
            called = set()
            for n in find_all(a["body"], ("MethodCall", "Call")):
                if n["k"] == "MethodCall":
                    called.add(n["method"])
                else:
                    p = callee_path(n)
                    if p:
                        called.add(p.split("::")[-1])
            # fn items passed by name (e.g. .map(Self::reduce))
            for n in find_all(a["body"], "Path"):
                called.add(n["path"].split("::")[-1])
            if not (set(need) & called):
                rule.viol("TRAV:%s#%s" % (prefix, v), "%s: the arm for ParsedValue::%s does not visit its children (expected a call to one of %s; %s)" % (prefix, v, need, why), file=fn.file, line=a["line"])
            else:
                rule.inst("%s#%s" % (prefix, v), "visits children via %s" % sorted(set(need) & called))


def flat(s):
    """text without whitespace"""
    return re.sub(r"\s+", "", s)


def flatp(s):
    """text without whitespace and parentheses, with statement separators normalised: tolerant to formatting,
    redundant grouping and optional semicolons"""
    s = re.sub(r"[\s()]+", "", s)
    s = re.sub(r";+", ";", s)
    s = s.replace(";}", "}")
    s = s.replace("};", "}")
    return s


def has(text, frag):
    """fragment containment modulo whitespace, parentheses and optional semicolons (both sides normalised)"""
    f = flatp(frag).rstrip(";")
    return f in flatp(text)


def same(text, want):
    return flatp(text) == flatp(want)
