"""The build helper's export (leptos_i18n_build: TranslationsInfos::get_translations -> TranslationsType::write_to_dir) interpreted
abstractly (rules/absint.py) over a model of the file system: which files are created, under which path, holding what text.
Every locale (of every namespace) gets `<dir>/[<namespace>/]<locale>.json`, and the text is a JSON array that decodes to exactly
that locale's string table - an empty table included (the generated code asks for a table of length 0 all the same)."""
import json

from rules import absint
from rules.absint import AEval, A, B, C, CF, L, UNIT, Unknown

BL = "leptos_i18n_build/src/lib.rs"
TEXTS = ["plain", 'a"q\\', "\n\r\t", "\u0000\u0001\u000c\u001f", " ​ ", "\U0001f600", ""]


def S(x):
    return ("str", x)


def _loc(n, strings):
    return CF("Locale", name=CF("Key", name=S(n)), strings=L(*[S(x) for x in strings]))


def check(ctx, r, rid="R8"):
    ast = ctx.ast
    gt = ast.fn(BL, "get_translations", impl_self="TranslationsInfos")
    wt = next((f for f in ast.fns if f.file == BL and f.name == "write_to_dir" and "TranslationsType" in (f.impl_self or "") and f.body is not None), None)
    if gt is None or wt is None:
        r.missing("TranslationsInfos::get_translations / TranslationsType::write_to_dir")
        return
    absint.set_program(ast)
    worlds = [
        ("one file per locale", CF("Locales", locales=L(_loc("en", TEXTS), _loc("fr", []), _loc("pt-BR", ["x"])), keys=A("keys")),
         {("out", "en.json"): TEXTS, ("out", "fr.json"): [], ("out", "pt-BR.json"): ["x"]}),
        ("namespaces", CF("NameSpaces", namespaces=L(CF("Namespace", key=CF("Key", name=S("home")), locales=L(_loc("en", ["h", TEXTS[1]]), _loc("fr", []))),
                                                     CF("Namespace", key=CF("Key", name=S("my-ns")), locales=L(_loc("en", []), _loc("fr", ["o"]))),
                                                     # a namespace without any text (numbers / variables only): its files are `[]`, and they exist - the client fetches them
                                                     CF("Namespace", key=CF("Key", name=S("nums")), locales=L(_loc("en", []), _loc("fr", [])))), keys=A("keys")),
         {("out", "home", "en.json"): ["h", TEXTS[1]], ("out", "home", "fr.json"): [], ("out", "my-ns", "en.json"): [], ("out", "my-ns", "fr.json"): ["o"],
          ("out", "nums", "en.json"): [], ("out", "nums", "fr.json"): []}),
    ]
    n = 0
    for label, locales, want in worlds:
        ev = AEval(funcs={})
        log = []

        def create(a, log=log):
            log.append(tuple(x[1] for x in a[0][1]) if a[0][0] == "list" else a[0])
            return C("Ok", A("file"))
        dirs = []
        ev.path_builtins.update({"create_dir_all": lambda a, dirs=dirs: (dirs.append(tuple(x[1] for x in a[0][1])), C("Ok", UNIT))[1], "File::create": create, "BufWriter::new": lambda a: A("writer")})
        ev.mut_builtins["set_extension"] = lambda rv, a: (L(*(list(rv[1][:-1]) + [S(rv[1][-1][1] + "." + a[0][1])])), B(True))
        tr = ev.run_fn(gt, [CF("TranslationsInfos", locales=locales, locales_names=L())])
        if isinstance(tr, str):
            raise Unknown("%s (get_translations, %s)" % (tr, label))
        v = ev.run_fn(wt, [tr, L(S("out"))])
        if isinstance(v, str):
            raise Unknown("%s (write_to_dir, %s)" % (v, label))
        texts = []
        for e in ev.out:
            d = ev._program_display(e[2][0]) if e[0] == "fmt" and e[2] and e[2][0][0] == "ctor" else None
            if d is None or d[0] != "str":
                raise Unknown("the text written to a file (%s)" % (e,))
            texts.append(d[1])
        if v != C("Ok", UNIT) or len(texts) != len(log):
            r.viol("%s:write_to_dir#%s" % (rid, label), "the export returns %s after creating %d file(s) and writing %d document(s)" % (absint.fmt(v)[:80], len(log), len(texts)), file=BL, line=wt.line)
            continue
        got = dict(zip(log, texts))
        bad = None
        for path, strings in want.items():
            if path not in got:
                bad = bad or "no file `%s` is written (the locale's table has %d string(s); the generated code asks for it whatever its length)" % ("/".join(path), len(strings))
                continue
            try:
                dec = json.loads(got[path])
            except ValueError as e:
                bad = bad or "`%s` is not valid JSON (%s): %r" % ("/".join(path), e, got[path][:80])
                continue
            if dec != strings:
                bad = bad or "`%s` decodes to %r, the table is %r" % ("/".join(path), dec, strings)
            if not any(path[:len(d_)] == d_ and len(d_) == len(path) - 1 for d_ in dirs):
                bad = bad or "the directory of `%s` is not created first (created: %s)" % ("/".join(path), dirs)
        for path in got:
            if path not in want:
                bad = bad or "an unexpected file `%s` is written" % "/".join(str(x) for x in path)
        n += len(want)
        if bad:
            r.viol("%s:write_to_dir#%s" % (rid, label), "%s: %s" % (label, bad), file=BL, line=wt.line)
    if not r.violations:
        r.inst("TranslationsInfos::get_translations -> write_to_dir", "%d files over 2 project layouts (locales with an empty table, a namespace and a locale with `-` in the name, strings with quotes, "
               "backslashes, control characters, no-break / zero-width spaces, an astral character): `<dir>/[<namespace>/]<locale>.json` for every locale, each valid JSON decoding to the table" % n)


def check_endpoint(ctx, r, rid="R8"):
    """the lazily loading client (dynamic_load + csr) fetches `translations-path` with `{locale}` / `{namespace}` filled in: evaluated
    (create_locale_type_inner, rules/absint.py) for a plain and a hyphenated locale, with and without a namespace - the file asked for is
    the one `write_to_dir` writes, `[<namespace>/]<locale name as configured>.json`"""
    import re
    from rules.absint import TOK, I
    ast = ctx.ast
    MM = "leptos_i18n_macro/src/load_locales/mod.rs"
    fn = ast.fn(MM, "create_locale_type_inner")
    if fn is None:
        r.missing("create_locale_type_inner")
        return
    absint.set_program(ast)
    K = lambda n: CF("Key", name=S(n), ident=TOK(n.replace("-", "_")))  # noqa: E731

    def loc(n, k):
        return CF("Locale", name=K(n), top_locale_name=K(n), keys=L(), strings=L(*[S("s%d" % i) for i in range(k)]), top_locale_string_count=I(k))

    def cfg(t):
        t = t.replace(" ", "")
        if 'feature="ssr"' in t and 'not(feature="ssr")' not in t and 'notfeature="ssr"' not in t:
            return False
        if "show_keys_only" in t or "hydrate" in t:
            return False
        return "dynamic_load" in t or "csr" in t
    n = 0
    for is_top in (True,):          # (the types of nested key groups have no table of their own: nothing to fetch)
        for ns in (None, "my-ns"):
            ev = AEval(funcs=absint.file_funcs(ast, MM), consts={"IS_TOP": ("bool", is_top)})
            ev.cfg = cfg
            ev.builtins.update({"unwrap_at": lambda rv, a: rv[2][0] if rv[0] == "ctor" and rv[2] else rv})
            ev.path_builtins = {"Key::new": lambda a: C("Some", K(a[0][1]))}
            ev.totokens = lambda x: (absint.fields_of(x)["ident"][1] if x[0] == "ctor" and x[1] == "Key" else None)
            known = {"type_ident": TOK("TypeI"), "parent_ident": C("None"), "enum_ident": TOK("Locale"), "translation_unit_enum_ident": TOK("Units"), "locales": L(loc("en", 2), loc("pt-BR", 1)),
                     "keys": L(), "key_path": A("kp"), "interpolate_display": ("bool", False), "namespace_name": C("Some", S(ns)) if ns else C("None"),
                     "translations_uri": C("Some", S("i18n/{namespace}/{locale}.json"))}
            missing = [p_ for p_ in fn.params() if p_ not in known]
            if missing:
                raise absint.Unknown("create_locale_type_inner has parameters the model does not know: %s" % missing)
            got = ev.run_fn(fn, [known[p_] for p_ in fn.params()])
            if isinstance(got, str) or got[0] != "tok":
                raise absint.Unknown("create_locale_type_inner (dynamic_load + csr): %s" % (got if isinstance(got, str) else absint.fmt(got)[:80]))
            eps = re.findall(r'endpoint = "([^"]*)"', got[1])
            want = ["i18n/%s/%s.json" % (ns or "", l_) for l_ in ("en", "pt-BR")]
            n += 1
            if eps != want:
                r.viol("%s:create_locale_type_inner#endpoint" % rid, "with translations-path `i18n/{namespace}/{locale}.json`, namespace %s and locales [en, pt-BR] the generated client fetches %s; the build helper "
                       "writes `[<namespace>/]<locale name>.json`, i.e. %s" % (ns, eps, want), file=MM, line=fn.line)
                return
    r.inst("create_locale_type_inner (dynamic_load + csr)", "%d generated units: the endpoint is translations-path with {locale} = the locale's configured name (`pt-BR`, not its identifier) and {namespace} = the namespace's name" % n)
