"""C06.R0: abstract evaluation (rules/absint.py; nothing compiled or run) of the foreign-key machinery of the parser:

  E1  ParsedValue::populate with its real callees (Ranges::populate / populate_with_count_arg / populate_with_new_key,
      Plurals::populate / ...) on values of every kind, against a reference substitution written from the statement
      ("each supplied argument replaces the variable of that name wherever that variable comes from; a literal count fixes
      the range / plural branch; a `{{ var }}` count renames the count variable; a subkey group is rejected");
  E2  ParsedValue::resolve_foreign_key_inner on every kind of target x with / without arguments x default / other locale:
      what ends up in the cell, in which locale the nested references and the arguments are resolved, which error;
  E3  ParsedValue::resolve_foreign_key over every kind of value: each reference cell below the value is resolved once, a
      cell that is already being resolved is reported as a cycle.
The universe is one value per constructor shape (and per position of a variable inside it); the functions only dispatch
on constructors, look names up in a map and compare numbers with range bounds, so these shapes are the partition they can
distinguish."""
from rules import absint
from rules.absint import AEval, A, B, C, CF, I, L, T, UNIT, Unknown

PV = "leptos_i18n_parser/src/parse_locales/parsed_value.rs"
PR = "leptos_i18n_parser/src/parse_locales/ranges.rs"
PP = "leptos_i18n_parser/src/parse_locales/plurals.rs"


def S(x):
    return ("str", x)


def K(n):
    return CF("Key", name=S(n))


def Lit(s, idx=0):
    return C("Literal", C("String", S(s), I(idx)))


def Uns(n):
    return C("Literal", C("Unsigned", I(n)))


def Sig(n):
    return C("Literal", C("Signed", I(n)))


def Var(n, fmt="None"):
    return CF("Variable", key=K(n), formatter=C(fmt))


def Comp(n, inner):
    return CF("Component", key=K(n), inner=inner)


def Bloc(*xs):
    return C("Bloc", L(*xs))


def FkSet(inner):
    return C("ForeignKey", C("Set", inner))


def FkNotSet(name):
    return C("ForeignKey", C("NotSet", A("path:" + name), L()))


SUBKEYS = C("Subkeys", C("None"))
DEFAULT = C("Default")


def Exact(n):
    return C("Exact", I(n))


def Bounds(start, end, inclusive=False):
    return CF("Bounds", start=C("Some", I(start)) if start is not None else C("None"),
              end=C("Unbounded") if end is None else C("Included" if inclusive else "Excluded", I(end)))


FALLBACK = C("Fallback")


def Rng(ck, ty, branches):
    return C("Ranges", CF("Ranges", count_key=K(ck), inner=C(ty, L(*[T(rg, v) for rg, v in branches]))))


def Plu(ck, rule_type, forms, other):
    return C("Plurals", CF("Plurals", rule_type=C(rule_type), count_key=K(ck), forms=L(*[T(C(f), v) for f, v in forms]), other=other))


# ------------------------------------------------------------------------------------------ reference semantics

class RefErr(Exception):
    def __init__(self, kind):
        self.kind = kind


def range_contains(rg, n):
    k = rg[1]
    if k == "Exact":
        return rg[2][0][1] == n
    if k == "Fallback":
        return True
    if k == "Multiple":
        return any(range_contains(x, n) for x in rg[2][0][1])
    f = absint.fields_of(rg)
    st, en = f["start"], f["end"]
    if st[1] == "Some" and st[2][0][1] > n:
        return False
    if en[1] == "Unbounded":
        return True
    return n <= en[2][0][1] if en[1] == "Included" else n < en[2][0][1]


def count_variable(values):
    """the single variable of a `{{ var }}` count argument (surrounded by blank text only)"""
    names = []
    for v in values:
        if v[1] == "Literal" and v[2][0][1] == "String" and v[2][0][2][0][1].strip() == "":
            continue
        if v[1] == "Variable":
            names.append(absint.fields_of(v)["key"])
            continue
        raise RefErr("InvalidCountArg")
    if len(names) != 1:
        raise RefErr("InvalidCountArg")
    return names[0]


# the modelled plural rules (category_for builtin): as in French 0 is `one`; the `zero` category exists but not for 0 (as in
# Latvian, where 10 is `zero`) - a declared `_zero` form is chosen by the locale's rules, never by the count being 0
CATEGORY = {0: "One", 1: "One", 2: "Two", 3: "Few", 6: "Many", 10: "Zero"}


def subst(v, args):
    """the statement: every variable whose name is a key of `args` is replaced, wherever it sits; `var_count` fixes the
    branch (literal) or renames the count variable (variable); subkeys cannot be referenced"""
    k = v[1]
    amap = {x[1][0][1]: x[1][1] for x in args[1]}
    if k in ("Default", "Literal"):
        return v
    if k == "Subkeys":
        raise RefErr("InvalidForeignKey")
    if k == "Variable":
        nm = absint.fields_of(absint.fields_of(v)["key"])["name"][1]
        return amap.get(nm, v)
    if k == "Component":
        f = absint.fields_of(v)
        return CF("Component", key=f["key"], inner=subst(f["inner"], args))
    if k == "Bloc":
        return C("Bloc", L(*[subst(x, args) for x in v[2][0][1]]))
    if k == "ForeignKey":
        cell = v[2][0]
        return subst(cell[2][0], args) if cell[1] == "Set" else v
    if k in ("Ranges", "Plurals"):
        st = v[2][0]
        f = absint.fields_of(st)
        # (the count is a variable like any other: the argument *of its name* is the one that fixes or renames it - `count` unless an earlier
        # reference renamed it; an argument named `count` means nothing to a plural whose count is called `n`)
        cnt = amap.get(absint.fields_of(f["count_key"])["name"][1])
        new_key = f["count_key"]
        if cnt is not None:
            if cnt[1] == "Literal" and cnt[2][0][1] in ("Unsigned", "Signed"):
                n = cnt[2][0][2][0][1]
                if k == "Ranges":
                    if f["inner"][1] in ("F32", "F64"):
                        raise RefErr("InvalidCountArgType")
                    for br in f["inner"][2][0][1]:
                        if range_contains(br[1][0], n):
                            return subst(br[1][1], args)
                    raise RefErr("UnexpectedToken")
                cat = CATEGORY.get(n, "Other")
                forms = {x[1][0][1]: x[1][1] for x in f["forms"][1]}
                return subst(forms.get(cat, f["other"]) if cat != "Other" else f["other"], args)
            if cnt[1] == "Variable":
                new_key = absint.fields_of(cnt)["key"]
            elif cnt[1] == "Bloc":
                new_key = count_variable(cnt[2][0][1])
            else:
                raise RefErr("InvalidCountArg")
        if k == "Ranges":
            inner = f["inner"]
            return C("Ranges", CF("Ranges", count_key=new_key, inner=C(inner[1], L(*[T(b[1][0], subst(b[1][1], args)) for b in inner[2][0][1]]))))
        return C("Plurals", CF("Plurals", rule_type=f["rule_type"], count_key=new_key, other=subst(f["other"], args),
                               forms=L(*[T(x[1][0], subst(x[1][1], args)) for x in f["forms"][1]])))
    raise Unknown("reference semantics: unexpected value " + str(v[:2]))


def _norm(v):
    """maps compare as sets of entries (BTreeMap: the order of insertion is not observable)"""
    if isinstance(v, tuple) and v and v[0] == "list":
        items = [_norm(x) for x in v[1]]
        if items and all(x[0] == "tuple" and len(x[1]) == 2 and x[1][0][0] == "ctor" and not x[1][0][2] for x in items):
            items = sorted(items, key=repr)
        return ("list", tuple(items))
    if isinstance(v, tuple) and v and v[0] == "tuple":
        return ("tuple", tuple(_norm(x) for x in v[1]))
    if isinstance(v, tuple) and v and v[0] == "ctor":
        return ("ctor", v[1], tuple(_norm(x) for x in v[2])) + ((tuple((k2, _norm(x)) for k2, x in v[3]),) if len(v) > 3 else ())
    return v


# ------------------------------------------------------------------------------------------ evaluator set-up

def evaluator(log=None, borrowed=()):
    def category_for(rv, a):
        if rv != A("plural-rules"):
            return NotImplemented        # the code's own method of that name
        n = a[0]
        if n[0] == "int":
            return C(CATEGORY.get(n[1], "Other"))
        raise Unknown("category_for on a non literal")

    def try_borrow(rv, a):
        return C("Err", A("BorrowError")) if any(rv is b or rv == b for b in borrowed) else C("Ok", rv)
    bi = {
        "try_borrow": try_borrow, "try_borrow_mut": try_borrow, "borrow": lambda rv, a: rv, "borrow_mut": lambda rv, a: rv,
        "as_deref": lambda rv, a: rv, "as_deref_mut": lambda rv, a: rv,
        "get_plural_rules": lambda rv, a: C("Ok", A("plural-rules")), "category_for": category_for,
        "unwrap_at": lambda rv, a: rv[2][0] if rv[0] == "ctor" and rv[1] in ("Some", "Ok") and rv[2] else rv,
        "to_owned": lambda rv, a: rv,
    }
    ev = AEval(funcs={}, builtins=bi)
    # numeric width conversions are not modelled (C04.R5 decides that they are lossless or reported)
    ev.path_builtins = {"try_from": lambda a: C("Ok", a[0]), "TryFrom::try_from": lambda a: C("Ok", a[0]),
                        "PluralForm::from_icu_category": lambda a: a[0],
                        "FixedDecimal::try_from_f64": lambda a: C("Ok", a[0])}
    return ev


def err_kind(v):
    if not isinstance(v, str) and v[0] == "ctor" and v[1] == "Err" and v[2] and v[2][0][0] == "ctor":
        return v[2][0][1]
    return None


def populate_universe():
    """(label, value, args) triples"""
    X, Y = Lit("X"), Lit("Y")
    leafs = [
        ("literal", Lit("a")), ("default", DEFAULT), ("variable-named", Var("var_x")), ("variable-other", Var("var_z")),
        ("variable-formatted", Var("var_x", "Number")),
        ("component", Comp("comp_b", Bloc(Lit("a"), Var("var_x")))),
        ("component-nested", Comp("comp_b", Comp("comp_i", Var("var_x")))),
        ("bloc", Bloc(Lit("a"), Var("var_x"), Lit("b"), Var("var_y"), Var("var_z"))),
        ("bloc-same-twice", Bloc(Var("var_x"), Lit("-"), Var("var_x"))),
        ("resolved-reference", FkSet(Bloc(Lit("a"), Var("var_x")))),
        ("chain-of-references", FkSet(Bloc(Lit("["), FkSet(Bloc(Lit("a"), Var("var_x"))), Lit("]")))),
        ("unresolved-reference", FkNotSet("k")),
        ("subkeys", SUBKEYS),
        ("subkeys-in-bloc", Bloc(Lit("a"), SUBKEYS)),
    ]
    rng = Rng("var_count", "I32", [(Exact(0), Bloc(Lit("none "), Var("var_x"))), (Bounds(1, 5), Bloc(Var("var_count"), Lit(" few "), Var("var_x"))),
                                   (Bounds(None, 0), Lit("neg")), (FALLBACK, Bloc(Var("var_count"), Lit(" many "), Var("var_x")))])
    rng_nofb = Rng("var_count", "U8", [(Exact(0), Lit("zero")), (Bounds(1, 3, True), Var("var_x"))])
    rng_multi = Rng("var_count", "I64", [(C("Multiple", L(Exact(7), Bounds(10, None))), Var("var_x")), (FALLBACK, Lit("other"))])
    plu = Plu("var_count", "Cardinal", [("One", Bloc(Lit("one "), Var("var_x"))), ("Few", Bloc(Var("var_count"), Lit(" few")))], Bloc(Var("var_count"), Lit(" other "), Var("var_x")))
    plu_ord = Plu("var_n", "Ordinal", [("Two", Var("var_x"))], Lit("th"))
    plu_zero = Plu("var_count", "Cardinal", [("Zero", Lit("zero form")), ("One", Bloc(Lit("one form "), Var("var_x")))], Bloc(Var("var_count"), Lit(" other form")))
    rng_n = Rng("var_n", "I32", [(Exact(0), Lit("none")), (FALLBACK, Bloc(Var("var_n"), Lit(" some "), Var("var_x")))])          # a range whose count was renamed `n`
    vals = leafs + [("range", rng), ("range-renamed", rng_n), ("range-without-fallback", rng_nofb), ("range-alternatives", rng_multi), ("plural", plu), ("plural-ordinal", plu_ord), ("plural-with-zero-form", plu_zero),
                    ("range-in-component", Comp("comp_b", rng)), ("plural-in-reference", FkSet(plu))]
    argsets = [
        ("no-args", L()),
        ("x", L(T(S("var_x"), X))),
        ("x,y", L(T(S("var_x"), X), T(S("var_y"), Y))),
        ("x=variable", L(T(S("var_x"), Var("var_w")))),
    ]
    counts = [("count=0", Uns(0)), ("count=1", Uns(1)), ("count=3", Uns(3)), ("count=5", Uns(5)), ("count=7", Uns(7)), ("count=10", Uns(10)), ("count=12", Uns(12)),
              ("count=-2", Sig(-2)), ("count={{n}}", Var("var_n")), ("count= {{n}} ", Bloc(Lit(" "), Var("var_n"), Lit("  "))),
              ("count=text", Lit("many")), ("count=x{{n}}", Bloc(Lit("x"), Var("var_n"))), ("count={{n}}{{m}}", Bloc(Var("var_n"), Var("var_m")))]
    out = []
    for vl, v in vals:
        for al, a in argsets:
            out.append(("%s / %s" % (vl, al), v, a))
        if "range" in vl or "plural" in vl:
            for cl, c in counts:
                out.append(("%s / %s" % (vl, cl), v, L(T(S("var_count"), c), T(S("var_x"), X))))
                out.append(("%s / only %s" % (vl, cl), v, L(T(S("var_count"), c))))        # the count as the only argument
            if vl in ("plural-ordinal", "range-renamed"):
                # a plural whose count was renamed (`n`) by an earlier reference: it is `n` that fixes / renames it now
                for cl, c in counts[:4] + counts[8:9]:
                    out.append(("%s / n:%s" % (vl, cl), v, L(T(S("var_n"), c), T(S("var_x"), X))))
    return out


def check_populate(ctx, r, rid="R0"):
    fn = ctx.ast.fn(PV, "populate", impl_self="ParsedValue")
    if fn is None:
        r.missing("ParsedValue::populate")
        return False
    n = 0
    bad = 0
    for label, v, args in populate_universe():
        ev = evaluator()
        got = ev.run_fn(fn, [v, args, A("foreign_key"), S("fr"), A("key_path")])
        if isinstance(got, str):
            raise Unknown("populate on %s: %s" % (label, got))
        try:
            want = C("Ok", subst(v, args))
            werr = None
        except RefErr as e:
            want, werr = None, e.kind
        n += 1
        if werr is not None:
            if err_kind(got) != werr:
                bad += 1
                r.viol("%s:populate#%s" % (rid, label.replace(" ", "")), "substituting into `%s` with arguments %s gives %s, the statement says it is rejected with %s" % (absint.fmt(v), absint.fmt(args), absint.fmt(got)[:300], werr), file=fn.file, line=fn.line)
        elif _norm(got) != _norm(want):
            bad += 1
            r.viol("%s:populate#%s" % (rid, label.replace(" ", "")), "substituting into `%s` with arguments %s gives %s, pure substitution gives %s" % (absint.fmt(v), absint.fmt(args), absint.fmt(got)[:400], absint.fmt(want)[:400]), file=fn.file, line=fn.line)
    if not bad:
        r.inst("ParsedValue::populate", "%d (value, arguments) pairs over every kind of value (variables inside components, blocs, range branches, plural forms, resolved references and chains of them; subkeys), "
               "literal / variable / `{{ var }}` / invalid counts: the result is the pure substitution of the statement, subkey groups and bad counts are rejected" % n)
    return True


def _chain(loc, ext, default="en"):
    """the statement (C03): the locale itself, then its `inherits` chain until it ends or loops, then the default locale"""
    out = [loc]
    cur = loc
    while cur in ext and ext[cur] not in out:
        cur = ext[cur]
        out.append(cur)
    if default not in out:
        out.append(default)
    else:
        out = out[:out.index(default) + 1]
    return out


def check_inner(ctx, r, rid="R0"):
    """resolve_foreign_key_inner: lookup, fallback of a null target along `inherits`, nested resolution, substitution,
    storage"""
    fn = ctx.ast.fn(PV, "resolve_foreign_key_inner", impl_self="ParsedValue")
    if fn is None:
        r.missing("ParsedValue::resolve_foreign_key_inner")
        return False
    pnames = fn.params()
    pop_fn = ctx.ast.fn(PV, "populate", impl_self="ParsedValue")
    T_FR, T_EN, T_IT = Bloc(Lit("fr "), Var("var_x")), Bloc(Lit("default "), Var("var_x")), Bloc(Lit("it "), Var("var_x"))
    targets = [("literal", Lit("a")), ("variable", Bloc(Lit("a "), Var("var_x"))), ("component", Comp("comp_b", Var("var_x"))), ("subkeys", SUBKEYS),
               ("reference", Bloc(FkNotSet("inner"), Var("var_x"))),
               ("range", Rng("var_count", "I32", [(Exact(0), Lit("zero")), (FALLBACK, Bloc(Var("var_count"), Var("var_x")))]))]
    argsets = [("no-args", L()), ("x", L(T(S("var_x"), Lit("X")))), ("x=reference", L(T(S("var_x"), FkNotSet("arg"))))]
    EXT = {"fr-CA": "fr", "de": "it", "it": "de", "pt": "pt", "fr-QC": "fr-CA", "nl": "de", "es": "ca", "ca": "gl", "gl": "es", "oc": "pt"}
    # a chain (two hops from fr-QC), a cycle, a self reference, a tail leading into a cycle it is not part of (nl -> de <-> it; oc -> pt -> pt), a cycle of three
    NULL, ABSENT = DEFAULT, None
    # (label, locale of the reference, {locale: value | NULL | ABSENT})
    cases = []
    for tl, tv in targets:
        for loc in ("fr", "en", "fr-CA"):
            cases.append(("%s-target" % tl, loc, {loc: tv, "en": T_EN}))
    cases += [
        ("missing", "fr", {"en": T_EN}), ("missing-in-default", "en", {}), ("null-in-default", "en", {"en": NULL}),
        ("null", "fr", {"fr": NULL, "en": T_EN}), ("null-everywhere", "fr", {"fr": NULL, "en": NULL}), ("null-then-absent-in-default", "fr", {"fr": NULL}),
        ("null-inherits-defined", "fr-CA", {"fr-CA": NULL, "fr": T_FR, "en": T_EN}),
        ("null-inherits-null", "fr-CA", {"fr-CA": NULL, "fr": NULL, "en": T_EN}),
        ("null-inherits-absent", "fr-CA", {"fr-CA": NULL, "en": T_EN}),
        ("null-two-hops-defined", "fr-QC", {"fr-QC": NULL, "fr-CA": NULL, "fr": T_FR, "en": T_EN}),
        ("null-two-hops-first-defines", "fr-QC", {"fr-QC": NULL, "fr-CA": T_IT, "fr": T_FR, "en": T_EN}),
        ("null-two-hops-all-null", "fr-QC", {"fr-QC": NULL, "fr-CA": NULL, "fr": NULL, "en": T_EN}),
        ("null-two-hops-middle-absent", "fr-QC", {"fr-QC": NULL, "fr": T_FR, "en": T_EN}),
        ("null-cycle-all-null", "de", {"de": NULL, "it": NULL, "en": T_EN}),
        ("null-cycle-other-defines", "de", {"de": NULL, "it": T_IT, "en": T_EN}),
        ("null-cycle-other-absent", "it", {"it": NULL, "en": T_EN}),
        ("null-self-reference", "pt", {"pt": NULL, "en": T_EN}),
        ("null-tail-into-cycle-all-null", "nl", {"nl": NULL, "de": NULL, "it": NULL, "en": T_EN}),
        ("null-tail-into-cycle-absent", "nl", {"nl": NULL, "en": T_EN}),
        ("null-tail-into-cycle-last-defines", "nl", {"nl": NULL, "de": NULL, "it": T_IT, "en": T_EN}),
        ("null-tail-into-self-reference", "oc", {"oc": NULL, "pt": NULL, "en": T_EN}),
        ("null-cycle-of-three-all-null", "ca", {"es": NULL, "ca": NULL, "gl": NULL, "en": T_EN}),
        ("null-cycle-of-three-last-defines", "ca", {"es": T_FR, "ca": NULL, "gl": NULL, "en": T_EN}),
    ]
    n = 0
    bad = 0
    for cl, loc, table in cases:
        for al, av in (argsets if cl.endswith("-target") or cl in ("null", "null-inherits-defined") else argsets[:2]):
            log = []

            def get_value_at(rv, a, table=table):
                lc = a[0][1] if a[0][0] == "str" else absint.fields_of(a[0]).get("name", ("str", "?"))[1]
                log.append(("lookup", lc))
                v = table.get(lc)
                return C("None") if v is None else C("Some", v)

            def resolve(rv, a):
                lc = a[1]
                log.append(("resolve", rv, lc[1] if lc[0] == "str" else lc))
                return C("Ok", UNIT)
            def populate_b(rv, a):
                # the real populate, observed: it must run after every nested reference was resolved, and for the referencing locale
                log.append(("populate",))
                log.append(("populate-locale", a[2] if len(a) > 2 else None))
                sub = evaluator()
                g_ = sub.run_fn(pop_fn, [rv] + list(a))
                if isinstance(g_, str):
                    raise Unknown(g_)
                return g_
            ev = evaluator()
            ev.builtins.update({"get_value_at": get_value_at, "resolve_foreign_key": resolve})
            if pop_fn is not None:
                ev.builtins["populate"] = populate_b
            cell = C("NotSet", A("fkpath"), av)
            params = {"foreign_key": cell, "values": A("values"), "top_locale": S(loc), "default_locale": S("en"), "key_path": A("key_path"),
                      "extensions": L(*[T(S(k), S(v)) for k, v in EXT.items()])}
            try:
                argv = [params[p] for p in pnames]
            except KeyError as e:
                raise Unknown("resolve_foreign_key_inner has a parameter the model does not know: %s" % e)
            got = ev.run_fn(fn, argv)
            label = "%s/%s/%s" % (cl, al, loc)
            if isinstance(got, str) and "does not end within" in got:
                bad += 1
                n += 1
                r.viol("%s:resolve_foreign_key_inner#%s#terminates" % (rid, label), "the resolution of a reference (%s, locale %s, inherits %s) does not terminate: %s" % (cl, loc, EXT, got), file=fn.file, line=fn.line)
                continue
            if isinstance(got, str):
                raise Unknown("resolve_foreign_key_inner on %s: %s" % (label, got))
            stored = (getattr(ev, "last_env", None) or {}).get("foreign_key", cell)
            n += 1
            # ---- expected, from the statements of C03 / C06
            want_err = eff_loc = eff_t = None
            own_absent = table.get(loc) is None
            for lc in _chain(loc, EXT):
                v = table.get(lc)
                if v is not None and v != NULL:
                    eff_loc, eff_t = lc, v
                    break
            if eff_t is None:
                want_err = "ExplicitDefaultInDefault" if table.get("en") == NULL else "MissingForeignKey"
            if want_err is None:
                try:
                    want_val = subst(eff_t, av)
                except RefErr as e:
                    want_err = e.kind
            if own_absent and err_kind(got) == "MissingForeignKey" and stored == cell:
                continue        # a reference to a key its own locale does not have at all is rejected (accepted reading of `cannot be resolved`)
            if want_err is not None:
                if err_kind(got) != want_err or stored != cell:
                    bad += 1
                    r.viol("%s:resolve_foreign_key_inner#%s" % (rid, label), "a reference (%s, %s, locale %s) gives %s and leaves %s in the cell; the statement says it is rejected with %s" % (cl, al, loc, absint.fmt(got)[:200], absint.fmt(stored)[:200], want_err), file=fn.file, line=fn.line)
                continue
            want_cell = C("Set", want_val)
            res_log = [x for x in log if x[0] == "resolve"]
            # the target's own nested references are resolved in the locale the target was found in (it is that locale's text); the
            # arguments' in the locale the reference is written in (they are part of that file), which is also the locale the result is
            # built for (plural forms are chosen by its rules)
            want_res = [("resolve", eff_t, eff_loc)] + [("resolve", x[1][1], loc) for x in av[1]]
            if got != C("Ok", UNIT) or _norm(stored) != _norm(want_cell):
                bad += 1
                r.viol("%s:resolve_foreign_key_inner#%s" % (rid, label), "a reference (%s, %s, locale %s; values per locale %s; inherits %s) gives %s and stores %s; the first locale of the chain that defines the target is %s: pure substitution stores %s"
                       % (cl, al, loc, {k: ("null" if v == NULL else absint.fmt(v)[:30]) for k, v in table.items()}, EXT, absint.fmt(got)[:200], absint.fmt(stored)[:300], eff_loc, absint.fmt(want_cell)[:300]), file=fn.file, line=fn.line)
            elif ("populate",) in log and any(x[0] == "resolve" for x in log[log.index(("populate",)):]):
                bad += 1
                r.viol("%s:resolve_foreign_key_inner#%s#order" % (rid, label), "the target is substituted before all nested references (of the target and of the arguments) were resolved: %s" % [x[0] for x in log], file=fn.file, line=fn.line)
            elif sorted(map(repr, res_log)) != sorted(map(repr, want_res)):
                bad += 1
                r.viol("%s:resolve_foreign_key_inner#%s#nested" % (rid, label), "before substituting, the nested references of the target must be resolved in the locale the target came from (%s) and those of the arguments in the locale of the reference (%s): resolved %s" % (eff_loc, loc, [(absint.fmt(x[1])[:60], x[2]) for x in res_log]), file=fn.file, line=fn.line)
            elif [x for x in log if x[0] == "populate-locale" and x[1] is not None and x[1] != S(loc) and absint.fields_of(x[1]).get("name", x[1]) != S(loc)]:
                bad += 1
                r.viol("%s:resolve_foreign_key_inner#%s#populate-locale" % (rid, label), "the target is substituted for locale %s; the reference is written in (and rendered for) %s: a literal count would pick the plural form by another locale's rules"
                       % ([absint.fmt(x[1]) for x in log if x[0] == "populate-locale"], loc), file=fn.file, line=fn.line)
    if not bad:
        r.inst("ParsedValue::resolve_foreign_key_inner", "%d (target, arguments, locale, inherits) cases: missing / subkey / null-in-default targets rejected with the cell untouched; a null target takes the value of the first locale of its "
               "`inherits` chain that defines it (chains, cycles, self reference, absent links), else the default's; nested references of target and arguments resolved first in that locale; the cell receives the pure substitution; every walk terminates" % n)
    return True


def check_args(ctx, r, rid="R0"):
    """parse_foreign_key_args_inner: the argument object of `$t(path, {..})` becomes the substitution map - each argument under
    `var_<name>`, a string argument parsed as a translation string (so it may hold variables), any other literal kept as is"""
    import re
    fn = ctx.ast.fn(PV, "parse_foreign_key_args_inner", impl_self="ParsedValue")
    new = ctx.ast.fn(PV, "new", impl_self="ParsedValue")
    if fn is None or new is None:
        r.missing("ParsedValue::parse_foreign_key_args_inner")
        return False
    funcs = absint.file_funcs(ctx.ast, PV, impl_self="ParsedValue")
    MAXV = C("MAX")
    lits = [("name", C("String", S("Bob"), MAXV)), ("zip", C("String", S("01234"), MAXV)), ("version", C("String", S("1.10"), MAXV)), ("plus", C("String", S("+33"), MAXV)),
            ("exp", C("String", S("1e3"), MAXV)), ("neg", C("String", S("-7"), MAXV)), (" spaced ", C("String", S(" padded "), MAXV)), ("inner", C("String", S("dear {{ who }}"), MAXV)), ("tagged", C("String", S("<b>World</b>"), MAXV)),
            ("tagged_var", C("String", S("<i>{{ who }}</i>!"), MAXV)),
            ("n", C("Unsigned", I(3))), ("m", C("Signed", I(-2))), ("flag", C("Bool", B(True))), ("ratio", C("Float", A("float:2.5"))),
            # a variable may be spelled with a dash (`{{ user-name }}`): populate matches the argument on the variable's *name*, dash included
            ("user-name", C("String", S("Ann"), MAXV)), ("Shout", C("String", S("X"), MAXV))]

    def mk():
        ev = AEval(funcs=funcs, builtins={"unwrap_at": lambda rv, a: rv[2][0] if rv[0] == "ctor" and rv[2] else rv})
        ev.macros = absint.file_macros(ctx.ast, PV)
        ev.consts = {"usize::MAX": MAXV}
        ev.path_builtins = {"Key::new": lambda a: C("Some", CF("Key", name=a[0])) if a[0][0] == "str" and re.match(r"^[A-Za-z_][A-Za-z0-9_]*$", a[0][1]) else C("None"),
                            "Formatter::from_name_and_args": lambda a: C("Ok", C("Some", C("FormatterNone"))),
                            "serde_json::from_str": lambda a: C("Ok", L(*[T(S(k), v) for k, v in lits]))}
        return ev
    got = mk().run_fn(fn, [S("{..}"), A("key_path"), A("locale"), A("fkp")])
    if isinstance(got, str):
        raise Unknown("parse_foreign_key_args_inner: " + got)
    bad = []
    if not (got[0] == "ctor" and got[1] == "Ok" and got[2] and got[2][0][0] == "list"):
        bad.append("returns %s" % absint.fmt(got)[:200])
    else:
        have = {x[1][0][1]: x[1][1] for x in got[2][0][1]}
        for k, lit in lits:
            name = "var_" + k.strip()
            if name not in have:
                bad.append("the argument `%s` is not found under `%s` (keys: %s)" % (k, name, sorted(have)))
                continue
            if lit[1] == "String":
                ref = mk().run_fn(new, [lit[2][0], A("key_path"), A("locale"), A("fkp")])
                want = ref[2][0] if not isinstance(ref, str) and ref[0] == "ctor" and ref[1] == "Ok" else None
                if want is None:
                    raise Unknown("ParsedValue::new on an argument: %s" % (ref if isinstance(ref, str) else absint.fmt(ref)))
            else:
                want = C("Literal", lit)
            if have[name] != want:
                bad.append("the argument `%s` = %s becomes %s, expected %s (the supplied value itself)" % (k, absint.fmt(lit), absint.fmt(have[name])[:120], absint.fmt(want)[:120]))
    # an argument object that is not valid JSON is an error
    ev = mk()
    ev.path_builtins["serde_json::from_str"] = lambda a: C("Err", A("json-error"))
    g2 = ev.run_fn(fn, [S("{oops"), A("key_path"), A("locale"), A("fkp")])
    if isinstance(g2, str):
        raise Unknown("parse_foreign_key_args_inner (invalid JSON): " + g2)
    if err_kind(g2) != "InvalidForeignKeyArgs":
        bad.append("an invalid argument object gives %s, expected Err(InvalidForeignKeyArgs)" % absint.fmt(g2)[:120])
    if bad:
        r.viol("%s:parse_foreign_key_args_inner" % rid, "; ".join(bad[:3]), file=fn.file, line=fn.line)
    else:
        r.inst("ParsedValue::parse_foreign_key_args_inner", "%d arguments (plain text, text that looks like a number: leading zeros, sign, decimals, exponent; text with a variable; padded names; numbers, booleans): "
               "each is found under var_<trimmed name> with the supplied value itself (strings parsed as translation strings, other literals kept)" % len(lits))
    check_args_extent(ctx, r, rid)
    return True


def check_args_extent(ctx, r, rid="R0"):
    """parse_foreign_key_args: which part of the text after `$t(path,` is the argument object - the balanced `{..}` (it may hold
    `{{ var }}` and nested `$t(.., {..})` arguments), then optional white space and the closing `)`; the rest is ordinary text"""
    fn = ctx.ast.fn(PV, "parse_foreign_key_args", impl_self="ParsedValue")
    if fn is None:
        r.missing("ParsedValue::parse_foreign_key_args")
        return
    texts = ['{"x": 1}) tail', '{"x": 1})', '{"x": "$t(b, {\\"y\\": 1})"}) rest', '{"x": "({{ z }})"})!', '{"x": "{{ z }}"})', '{"a": {"b": {}}}  ) x', '{}){"k": 1})', '{"x": "}) {"}) y'[:0] or '{"x": 2}\t) y',
             '{"x": 1} tail', '{"x": 1', '}', '{"x": 1}', '{"x": {"y": 1})', "{\u00e9})\u00e9"]

    def ref(t):
        depth = 0
        for i, c in enumerate(t):
            if c == "{":
                depth += 1
            elif c == "}":
                if depth == 0:
                    return None
                depth -= 1
                if depth == 0:
                    rest = t[i + 1:].lstrip()
                    return (t[:i + 1], rest[1:]) if rest.startswith(")") else None
        return None
    n = 0
    bad = None
    for t in texts:
        ev = AEval(funcs={})
        ev.path_builtins = {"Self::parse_foreign_key_args_inner": lambda a: C("Ok", C("ArgsOf", a[0])), "parse_foreign_key_args_inner": lambda a: C("Ok", C("ArgsOf", a[0]))}
        ev.builtins["parse_foreign_key_args_inner"] = lambda rv, a: C("Ok", C("ArgsOf", rv))
        got = ev.run_fn(fn, [S(t), A("key_path"), A("locale"), A("fkp")])
        if isinstance(got, str):
            raise Unknown("parse_foreign_key_args on %r: %s" % (t, got))
        n += 1
        w = ref(t)
        if w is None:
            ok = got[0] == "ctor" and got[1] == "Err"
        else:
            ok = got == C("Ok", T(C("ArgsOf", S(w[0])), S(w[1])))
        if not ok and bad is None:
            bad = "after `$t(key,` the text `%s` is read as %s; the argument object is %s" % (t, absint.fmt(got)[:160], ("`%s`, followed by `%s`" % w) if w else "malformed (rejected)")
    if bad:
        r.viol("%s:parse_foreign_key_args#extent" % rid, bad, file=fn.file, line=fn.line)
    else:
        r.inst("ParsedValue::parse_foreign_key_args", "%d texts (nested `$t(.., {..})` arguments, `{{ var }}` followed by `)`, nested objects, white space before `)`, non-ASCII, unbalanced / unterminated): "
               "the balanced object is the arguments, what follows the `)` is ordinary text, anything else is rejected" % n)


def check_traversal(ctx, r, rid="R0"):
    """resolve_foreign_key reaches every reference cell below a value exactly once; a busy cell is a cycle"""
    fn = ctx.ast.fn(PV, "resolve_foreign_key", impl_self="ParsedValue")
    if fn is None:
        r.missing("ParsedValue::resolve_foreign_key")
        return False
    pnames = fn.params()
    cells = {}

    def fk(name):
        cells[name] = C("NotSet", A("path:" + name), L(T(S("var_q"), A("arg-of-" + name))))
        return C("ForeignKey", cells[name])
    vals = [
        ("bare", lambda: fk("a")),
        ("bloc", lambda: Bloc(Lit("x"), fk("a"), Var("var_x"), fk("b"))),
        ("component", lambda: Comp("comp_b", Bloc(fk("a"), Comp("comp_i", fk("b"))))),
        ("range", lambda: Rng("var_count", "U32", [(Exact(0), fk("a")), (Bounds(1, 4), Bloc(Lit("y"), fk("b"))), (FALLBACK, fk("c"))])),
        ("range-float", lambda: Rng("var_count", "F64", [(Exact(0), fk("a")), (FALLBACK, fk("b"))])),
        ("plural", lambda: Plu("var_count", "Cardinal", [("One", fk("a")), ("Many", Bloc(fk("b")))], fk("c"))),
        ("nested", lambda: Bloc(Comp("comp_b", Rng("var_count", "I8", [(FALLBACK, Plu("var_n", "Ordinal", [("Two", fk("a"))], fk("b")))])))),
        ("no-reference", lambda: Bloc(Lit("x"), Var("var_x"), DEFAULT)),
        ("subkeys", lambda: SUBKEYS),
    ]
    n = 0
    bad = 0
    for label, mk in vals:
        cells.clear()
        v = mk()
        seen = []

        def inner(a, seen=seen):
            seen.append(a[0])
            return C("Ok", UNIT)
        ev = evaluator()
        ev.path_builtins.update({"Self::resolve_foreign_key_inner": inner, "ParsedValue::resolve_foreign_key_inner": inner, "resolve_foreign_key_inner": inner})
        params = {"self": v, "values": A("values"), "top_locale": S("fr"), "default_locale": S("en"), "path": A("path"), "extensions": L()}
        try:
            argv = [params[p] for p in pnames]
        except KeyError as e:
            raise Unknown("resolve_foreign_key has a parameter the model does not know: %s" % e)
        got = ev.run_fn(fn, argv)
        if isinstance(got, str):
            raise Unknown("resolve_foreign_key on %s: %s" % (label, got))
        n += 1
        if got != C("Ok", UNIT) or sorted(map(repr, seen)) != sorted(map(repr, cells.values())):
            bad += 1
            r.viol("%s:resolve_foreign_key#%s" % (rid, label), "below a %s value the references %s exist; resolved: %s (result %s) - every reference must be resolved exactly once" % (label, sorted(cells), [absint.fmt(x)[:40] for x in seen], absint.fmt(got)[:100]), file=fn.file, line=fn.line)
    # a cell that is being resolved (borrowed) is a cycle
    cells.clear()
    v = Bloc(Lit("x"), fk("a"))
    ev = evaluator(borrowed=[cells["a"]])
    ev.path_builtins.update({"Self::resolve_foreign_key_inner": lambda a: C("Ok", UNIT), "resolve_foreign_key_inner": lambda a: C("Ok", UNIT)})
    params = {"self": v, "values": A("values"), "top_locale": S("fr"), "default_locale": S("en"), "path": A("path"), "extensions": L()}
    got = ev.run_fn(fn, [params[p] for p in pnames])
    n += 1
    if isinstance(got, str):
        raise Unknown("resolve_foreign_key on a busy cell: %s" % got)
    if err_kind(got) != "RecursiveForeignKey":
        bad += 1
        r.viol("%s:resolve_foreign_key#cycle" % rid, "a reference met again while it is being resolved gives %s, expected Err(RecursiveForeignKey)" % absint.fmt(got)[:200], file=fn.file, line=fn.line)
    if not bad:
        r.inst("ParsedValue::resolve_foreign_key", "%d values: every reference below a bloc / component / range branch (integer and float) / plural form and `other`, nested to depth 4, is resolved exactly once; a busy cell is a cycle error" % n)
    return True


# ---------------------------------------------------------------------------------------------- lookups
PL_ = "leptos_i18n_parser/src/parse_locales/locale.rs"


def _loc(name, keys):
    return CF("Locale", name=K(name), top_locale_name=K(name), keys=L(*[T(K(k), v) for k, v in keys]), strings=L(), top_locale_string_count=I(0))


def _sub(name, keys):
    return C("Subkeys", C("Some", _loc(name, keys)))


def check_lookup(ctx, r, rid="R6"):
    """LocalesOrNamespaces::get_value_at and Locale::get_value_at evaluated on a small project: groups nested three deep whose
    inner names repeat at the root, two locales with different values, with and without namespaces.  The referenced key is the
    one the path spells - segment by segment from the root of the right locale (and namespace) - or nothing."""
    ast = ctx.ast
    outer = ast.fn(PL_, "get_value_at", impl_self="LocalesOrNamespaces")
    inner = ast.fn(PL_, "get_value_at", impl_self="Locale")
    if outer is None or inner is None:
        r.missing("get_value_at")
        return
    absint.set_program(ast)

    def tree(tag):
        deep = Lit("deep " + tag)
        return [("a", _sub("a", [("b", _sub("b", [("c", deep), ("d", _sub("d", [("e", Lit("e " + tag))]))])), ("x", Lit("a.x " + tag))])),
                ("b", _sub("b", [("c", Lit("root b.c " + tag))])), ("c", Lit("root c " + tag)), ("r", Lit("r " + tag))]

    def ref(keys, path):
        cur = dict(keys)
        v = None
        for i, seg in enumerate(path):
            if seg not in cur:
                return None
            v = cur[seg]
            if i + 1 < len(path):
                if not (v[1] == "Subkeys" and v[2][0][1] == "Some"):
                    return None
                cur = {absint.fields_of(k)["name"][1]: x for k, x in [(t[1][0], t[1][1]) for t in absint.fields_of(v[2][0][2][0])["keys"][1]]}
        return v
    paths = [["a", "b", "c"], ["b", "c"], ["c"], ["a", "x"], ["r"], ["a", "b"], ["a", "c"], ["r", "c"], ["a", "b", "c", "d"], ["a", "b", "d", "e"], [], ["q"], ["q", "c"], ["a", "q", "c"]]
    worlds = [("one file per locale", C("Locales", L(_loc("en", tree("en")), _loc("fr", tree("fr")))), None),
              ("namespaces", C("NameSpaces", L(CF("Namespace", key=K("home"), locales=L(_loc("en", tree("home en")), _loc("fr", tree("home fr")))),
                                               CF("Namespace", key=K("other"), locales=L(_loc("en", tree("other en")), _loc("fr", tree("other fr")))))), ("home", "other"))]
    n = 0
    bad = None
    for wl, world, nss in worlds:
        for ns in (None, "home", "other", "nope"):
            for lc in ("en", "fr", "de"):
                for p in paths:
                    kp = CF("KeyPath", namespace=C("Some", K(ns)) if ns else C("None"), path=L(*[K(s) for s in p]))
                    ev = AEval(funcs={})
                    try:
                        got = ev.run_fn(outer, [world, K(lc), kp])
                    except Unknown as u:
                        got = "UNKNOWN: %s" % u
                    if isinstance(got, str):
                        raise Unknown("%s (get_value_at %s, %s, %s, %s)" % (got, wl, ns, lc, ".".join(p)))
                    n += 1
                    if (nss is None) != (ns is None) or (nss and ns not in nss) or lc == "de":
                        want = None
                    else:
                        want = ref(tree(("%s %s" % (ns, lc)) if ns else lc), p)
                    wantv = C("None") if want is None else C("Some", want)
                    if got != wantv and bad is None:
                        bad = "%s, locale %s, reference `%s%s`: the lookup gives %s, the path spells %s" % (wl, lc, (ns + ":") if ns else "", ".".join(p) or "(empty)", absint.fmt(got)[:120], absint.fmt(wantv)[:120])
    if bad:
        r.viol("%s:get_value_at#path" % rid, bad, file=PL_, line=inner.line)
    else:
        r.inst("get_value_at", "%d lookups (2 project layouts x namespace none / right / other / unknown x 3 locales x 14 paths up to 4 segments, inner names repeated at the root): "
               "the value at exactly that path in that locale and namespace, else nothing" % n)


# ---------------------------------------------------------------------------------------------- merged plural keys
PM_ = "leptos_i18n_parser/src/parse_locales/mod.rs"
PP_ = "leptos_i18n_parser/src/parse_locales/plurals.rs"


def check_plural_path(ctx, r, rid="R4"):
    """A `$t(..)` written inside `key_one` is recorded under the path `..key_one` while parsing; after merge_plurals the value
    lives at the base key that Locale::is_possible_plural computed.  get_value_at_path (which finds the recorded value again,
    and whose failure is an `unwrap_at` panic) must ask for exactly that base key: both functions evaluated on the same key
    spellings, incl. bases that contain `_` or end in `_ordinal` themselves."""
    ast = ctx.ast
    g = ast.fn(PM_, "get_value_at_plural_path") or ast.fn(PM_, "get_value_at_path")
    plural_only = g is not None and g.name == "get_value_at_plural_path"          # (the lookup of the recorded path itself is done by the caller)
    ipp = ast.fn(PL_, "is_possible_plural")
    if g is None or ipp is None:
        r.missing("get_value_at_path / is_possible_plural")
        return
    absint.set_program(ast)
    funcs = dict(absint.file_funcs(ast, PP_))
    funcs.update(absint.file_funcs(ast, PL_, "Locale"))
    names = ["k_one", "k_other", "a_b_many", "k_ordinal_few", "a_b_ordinal_one", "rank_ordinal_ordinal_one", "x_ordinal_ordinal_ordinal_two", "ordinal_one", "ordinal_ordinal_other", "k__zero"]       # (an empty base, `_one`, is rejected by merge_plurals: Key::try_new)
    n = 0
    bad = None
    import re as _re
    for nm in names:
        v = AEval(funcs=funcs).run_fn(ipp, [K(nm), C("Literal", A("s"))])
        if isinstance(v, str):
            raise Unknown("is_possible_plural on %s: %s" % (nm, v))
        if not (v[0] == "ctor" and v[1] == "Some"):
            continue                      # not a plural form: never merged, the recorded path itself is found
        base = v[2][0][1][0]
        asked = []

        def gva(rv, a):
            asked.append(a[1])
            return C("None") if len(asked) == 1 and not plural_only else C("Some", A("found"))
        ev = AEval(funcs={}, builtins={"get_value_at": gva})
        ev.path_builtins = {"Key::new": lambda a: C("Some", CF("Key", name=a[0])) if a[0][0] == "str" and _re.match(r"^[A-Za-z_][A-Za-z0-9_]*$", a[0][1]) else C("None")}
        kp = CF("KeyPath", namespace=C("None"), path=L(K("grp"), K(nm)))
        got = ev.run_fn(g, [A("values"), K("en"), kp])
        if isinstance(got, str):
            raise Unknown("get_value_at_path on %s: %s" % (nm, got))
        n += 1
        want = CF("KeyPath", namespace=C("None"), path=L(K("grp"), CF("Key", name=base)))
        if plural_only:
            asked = [kp] + asked
        if not (len(asked) == 2 and asked[0] == kp and asked[1] == want and got == C("Some", A("found"))) and bad is None:
            bad = "the form key `%s` is merged under `%s`; a reference recorded inside it is looked up at %s (result %s)" % (
                nm, base[1], [absint.fmt(absint.fields_of(x)["path"]) if x[0] == "ctor" else absint.fmt(x) for x in asked[1:]] or "nothing", absint.fmt(got)[:60])
    if bad:
        r.viol("%s:get_value_at_path#merged-key" % rid, bad, file=PM_, line=g.line)
    elif n < 8:
        r.viol("%s:get_value_at_path#vacuous" % rid, "only %d of the key spellings are plural forms on this tree" % n, file=PM_, line=g.line)
    else:
        r.inst("get_value_at_path (evaluated)", "%d plural form keys (bases with `_`, bases ending in `_ordinal`): the recorded path first, then exactly the key is_possible_plural merges the form under" % n)
