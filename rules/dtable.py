"""Decision tables by exhaustive case analysis over constructor shapes.

A function like `push_count` or `ParsedValue::merge` is a decision table over the *constructors* of a few enum values.
However it is written (one big `match` on a tuple, a `let .. else` peeling one case first, nested `if let`s, reordered
arms, or-patterns split or joined), its table is the same. This module computes the table from the syntax tree: the
rule names the inputs (by the text of the expression that reads them) and the finite set of constructor shapes each can
take; every combination is pushed through the patterns and guards of the code (no arithmetic, no execution of calls:
only constructor matching, bindings, and ==/!= between opaque atoms), and the outcome is classified by the rule.
The domain is finite and complete for tables that only discriminate on constructors and atom equality."""
import itertools
import re

from astlib import is_node, show, show_pat
from rules.common import _flatp


class Unknown(Exception):
    pass


def C(name, *args):
    return ("ctor", name, tuple(args))


def A(name):
    return ("atom", name)


def T(*items):
    return ("tuple", tuple(items))


UNIT = ("tuple", ())


def _last(path):
    return path.split("::")[-1]


class Eval:
    def __init__(self, inputs, opaque=None):
        """inputs: [(regex on the flat text of an expression, value)]; opaque: regex of calls whose result is an
        uninterpreted atom named after the call (e.g. std::mem::take(..))"""
        self.inputs = [(re.compile(rx), v) for rx, v in inputs]
        self.opaque = re.compile(opaque) if opaque else None

    # ---- expressions
    def ex(self, e, env):
        if not is_node(e):
            raise Unknown("non-node")
        t = _flatp(show(e))
        for rx, v in self.inputs:
            if rx.search(t):
                return v
        k = e["k"]
        if k == "Path":
            p = e["path"]
            if p in env:
                return env[p]
            if _last(p)[:1].isupper():
                return C(_last(p))
            raise Unknown("free variable " + p)
        if k == "Tuple":
            return T(*[self.ex(x, env) for x in e["elems"]])
        if k == "Call" and is_node(e["func"]) and e["func"]["k"] == "Path" and _last(e["func"]["path"])[:1].isupper():
            return C(_last(e["func"]["path"]), *[self.ex(a, env) for a in e["args"]])
        if k == "Struct":
            return C(_last(e["path"]))
        if k == "MethodCall" and e["method"] in ("into", "clone", "to_owned", "as_ref", "as_mut", "borrow", "deref") and not e["args"]:
            return self.ex(e["receiver"], env)
        if k in ("Ref", "Paren"):
            return self.ex(e["expr"], env)
        if k == "Unary" and e["op"] == "*":
            return self.ex(e["expr"], env)
        if k == "Block":
            return self.block(e, env)
        if k == "Match":
            return self.match(e, env)
        if k == "If":
            return self.iff(e, env)
        if k == "Return":
            raise Ret(self.ex(e["expr"], env) if e.get("expr") else UNIT)
        if k == "Try":
            v = self.ex(e["expr"], env)
            if v[0] == "ctor" and v[1] in ("Err", "None"):
                raise Ret(v)
            if v[0] == "ctor" and v[1] in ("Ok", "Some") and len(v[2]) == 1:
                return v[2][0]
            raise Unknown("? on " + str(v))
        if k == "Lit":
            return A("lit:" + e["text"])
        if k == "Macro" and e["path"] in ("unreachable", "panic", "unimplemented", "todo"):
            return C("!panic")
        return A("expr:" + t[:60])

    def cond(self, e, env):
        k = e["k"]
        if k == "Binary" and e["op"] in ("==", "!="):
            a, b = self.ex(e["left"], env), self.ex(e["right"], env)
            if a[0] == "atom" and a[1].startswith("expr:") or b[0] == "atom" and b[1].startswith("expr:"):
                raise Unknown("comparison of uninterpreted values")
            return (a == b) if e["op"] == "==" else (a != b)
        if k == "Binary" and e["op"] in ("&&", "||"):
            a = self.cond(e["left"], env)
            if e["op"] == "&&":
                return a and self.cond(e["right"], env)
            return a or self.cond(e["right"], env)
        if k == "Unary" and e["op"] == "!":
            return not self.cond(e["expr"], env)
        if k == "Paren":
            return self.cond(e["expr"], env)
        if k == "MethodCall" and e["method"] in ("is_none", "is_some", "is_ok", "is_err") and not e["args"]:
            v = self.ex(e["receiver"], env)
            if v[0] != "ctor":
                raise Unknown("is_* on non constructor")
            return v[1] == {"is_none": "None", "is_some": "Some", "is_ok": "Ok", "is_err": "Err"}[e["method"]]
        if k == "Macro" and e["path"] == "matches" and "args" not in e:
            raise Unknown("matches! not parsed")
        if k == "LetExpr":
            raise Unknown("let in condition")
        raise Unknown("condition " + _flatp(show(e))[:60])

    # ---- patterns
    def pat(self, p, v, env):
        """bindings dict if v matches p, None if it does not"""
        k = p["k"]
        if k == "PWild" or k == "PRest":
            return {}
        if k == "PIdent":
            if p["name"][:1].isupper() and "sub" not in p:
                return {} if (v[0] == "ctor" and v[1] == p["name"] and not v[2]) else None
            b = {p["name"]: v}
            if "sub" in p:
                s = self.pat(p["sub"], v, env)
                if s is None:
                    return None
                b.update(s)
            return b
        if k == "PPath":
            return {} if (v[0] == "ctor" and v[1] == _last(p["path"])) else None
        if k == "PTupleStruct":
            if v[0] != "ctor":
                if v[0] == "atom":
                    raise Unknown("constructor pattern on atom")
                return None
            if v[1] != _last(p["path"]):
                return None
            return self._seq(p["elems"], v[2], env)
        if k == "PStruct":
            if v[0] != "ctor":
                raise Unknown("struct pattern on non constructor")
            return {} if v[1] == _last(p["path"]) else None
        if k == "PTuple":
            if v[0] != "tuple":
                raise Unknown("tuple pattern on non tuple")
            return self._seq(p["elems"], v[1], env)
        if k == "POr":
            for c in p["cases"]:
                b = self.pat(c, v, env)
                if b is not None:
                    return b
            return None
        if k in ("PRef", "PType"):
            return self.pat(p["pat"], v, env)
        raise Unknown("pattern " + show_pat(p))

    def _seq(self, pats, vals, env):
        if any(x["k"] == "PRest" for x in pats):
            pats = [x for x in pats if x["k"] != "PRest"]
            vals = vals[:len(pats)]
        if len(pats) != len(vals):
            # opaque payload: a constructor with unlisted arguments matches any sub-pattern made of wildcards / bindings
            if not vals and all(x["k"] in ("PWild", "PIdent") for x in pats):
                return {x["name"]: A("payload") for x in pats if x["k"] == "PIdent"}
            return None
        out = {}
        for p, v in zip(pats, vals):
            b = self.pat(p, v, env)
            if b is None:
                return None
            out.update(b)
        return out

    # ---- control
    def match(self, m, env):
        v = self.ex(m["scrutinee"], env)
        for a in m["arms"]:
            b = self.pat(a["pat"], v, env)
            if b is None:
                continue
            e2 = dict(env)
            e2.update(b)
            if a.get("guard") is not None and not self.cond(a["guard"], e2):
                continue
            return self.ex(a["body"], e2)
        raise Unknown("no arm matches " + str(v))

    def iff(self, n, env):
        c = n["cond"]
        if is_node(c) and c["k"] == "LetExpr":
            v = self.ex(c["expr"], env)
            b = self.pat(c["pat"], v, env)
            if b is not None:
                e2 = dict(env)
                e2.update(b)
                return self.ex(n["then"], e2)
            return self.ex(n["else"], env) if n.get("else") else UNIT
        if self.cond(c, env):
            return self.ex(n["then"], env)
        return self.ex(n["else"], env) if n.get("else") else UNIT

    def block(self, b, env):
        env = dict(env)
        last = UNIT
        for i, st in enumerate(b["stmts"]):
            k = st["k"]
            if k == "Let":
                if "init" not in st:
                    continue
                try:
                    v = self.ex(st["init"], env)
                except Unknown:
                    v = A("expr:" + _flatp(show(st["init"]))[:60])
                bd = self.pat(st["pat"], v, env) if not (v[0] == "atom" and st["pat"]["k"] in ("PIdent", "PType", "PWild")) else ({st["pat"]["name"]: v} if st["pat"]["k"] == "PIdent" else {})
                if bd is None:
                    if "else" in st:
                        self.ex(st["else"], env)
                        raise Unknown("let-else body fell through")
                    raise Unknown("irrefutable let did not match")
                env.update(bd)
                last = UNIT
            elif k == "ExprStmt":
                v = self.ex(st["expr"], env)
                last = UNIT if st.get("semi") else v
            else:
                last = UNIT
        return last

    def run(self, body, env=None):
        try:
            return self.ex(body, env or {})
        except Ret as r:
            return r.value


class Ret(Exception):
    def __init__(self, value):
        self.value = value


def table(body, inputs_domain, classify, fixed=None, opaque=None):
    """inputs_domain: [(name, regex, [values])]. Returns {tuple(values): outcome or 'UNKNOWN: why'}"""
    out = {}
    names = [n for n, _rx, _vs in inputs_domain]
    for combo in itertools.product(*[vs for _n, _rx, vs in inputs_domain]):
        ev = Eval([(rx, v) for (_n, rx, _vs), v in zip(inputs_domain, combo)] + list(fixed or []), opaque)
        try:
            res = classify(ev.run(body))
        except Unknown as u:
            res = "UNKNOWN: %s" % u
        out[combo] = res
    return names, out


def fmt(v):
    if v[0] == "ctor":
        return v[1] + ("(" + ", ".join(fmt(a) for a in v[2]) + ")" if v[2] else "")
    if v[0] == "atom":
        return v[1]
    if v[0] == "tuple":
        return "(" + ", ".join(fmt(a) for a in v[1]) + ")"
    return str(v)
