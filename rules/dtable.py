"""Decision tables by exhaustive case analysis over constructor shapes.

A function like `push_count` or `ParsedValue::merge` is a decision table over the *constructors* of a few enum values.
However it is written (one big `match` on a tuple, a `let .. else` peeling one case first, nested `if let`s, reordered
arms, or-patterns split or joined), its table is the same. This module computes the table from the syntax tree: the
rule names the inputs (by the text of the expression that reads them) and the finite set of constructor shapes each can
take; every combination is pushed through the patterns and guards of the code (no arithmetic, no execution of calls:
only constructor matching, bindings, and ==/!= between opaque atoms), and the outcome is classified by the rule.
The domain is finite and complete for tables that only discriminate on constructors and atom equality."""
import itertools
import re

from astlib import is_node, show, show_pat
from rules.common import _flatp


class Unknown(Exception):
    pass


def C(name, *args):
    return ("ctor", name, tuple(args))


def A(name):
    return ("atom", name)


def T(*items):
    return ("tuple", tuple(items))


UNIT = ("tuple", ())


def _last(path):
    return path.split("::")[-1]


class Eval:
    def __init__(self, inputs, opaque=None):
        """inputs: [(regex on the flat text of an expression, value)]; opaque: regex of calls whose result is an
        uninterpreted atom named after the call (e.g. std::mem::take(..))"""
        self.inputs = [(re.compile(rx), v) for rx, v in inputs]
        self.opaque = re.compile(opaque) if opaque else None
        self.out = []
        self.skip_loops = False

    # ---- expressions
    def ex(self, e, env):
        if not is_node(e):
            raise Unknown("non-node")
        t = _flatp(show(e))
        for rx, v in self.inputs:
            if rx.search(t):
                return v
        k = e["k"]
        if k == "Path":
            p = e["path"]
            if p in env:
                return env[p]
            if _last(p)[:1].isupper():
                return C(_last(p))
            raise Unknown("free variable " + p)
        if k == "Tuple":
            return T(*[self.ex(x, env) for x in e["elems"]])
        if k == "Call" and is_node(e["func"]) and e["func"]["k"] == "Path" and _last(e["func"]["path"])[:1].isupper():
            return C(_last(e["func"]["path"]), *[self.ex(a, env) for a in e["args"]])
        if k == "Struct":
            return C(_last(e["path"]))
        if k == "MethodCall" and e["method"] in ("into", "clone", "to_owned", "as_ref", "as_mut", "borrow", "deref") and not e["args"]:
            return self.ex(e["receiver"], env)
        if k in ("Ref", "Paren"):
            return self.ex(e["expr"], env)
        if k == "Unary" and e["op"] == "*":
            return self.ex(e["expr"], env)
        if k == "Block":
            return self.block(e, env)
        if k == "Match":
            return self.match(e, env)
        if k == "If":
            return self.iff(e, env)
        if k == "Return":
            raise Ret(self.ex(e["expr"], env) if e.get("expr") else UNIT)
        if k == "Try":
            v = self.ex(e["expr"], env)
            if v[0] == "ctor" and v[1] in ("Err", "None"):
                raise Ret(v)
            if v[0] == "ctor" and v[1] in ("Ok", "Some") and len(v[2]) == 1:
                return v[2][0]
            raise Unknown("? on " + str(v))
        if k in ("ForLoop", "While", "Loop"):
            if self.skip_loops:
                self.out.append(("loop",))
                return UNIT
            raise Unknown("loop")
        if k == "Lit":
            v = lit_value(e["text"])
            return v if v is not None else A("lit:" + e["text"])
        if k == "Cast":
            v = self.ex(e["expr"], env)
            if v[0] == "char":
                return ("int", v[1])
            return v
        if k == "MethodCall" and e["method"] in ("write_str", "push_str", "write_char", "push") and len(e["args"]) == 1:
            v = self.ex(e["args"][0], env)
            self.out.append(v)
            return C("Ok", UNIT) if e["method"].startswith("write") else UNIT
        if k == "Macro" and e["path"] in ("write", "writeln") and "args" in e and len(e["args"]) >= 2:
            fmtv = self.ex(e["args"][1], env)
            vals = [self.ex(a, env) for a in e["args"][2:]]
            self.out.append(("fmt", fmtv, tuple(vals)))
            return C("Ok", UNIT)
        if k == "Macro" and e["path"] in ("unreachable", "panic", "unimplemented", "todo"):
            return C("!panic")
        return A("expr:" + t[:60])

    def cond(self, e, env):
        k = e["k"]
        if k == "Binary" and e["op"] in ("<", "<=", ">", ">="):
            a, b = self.ex(e["left"], env), self.ex(e["right"], env)
            if a[0] in ("int", "char") and b[0] in ("int", "char"):
                x, y = a[1], b[1]
                return {"<": x < y, "<=": x <= y, ">": x > y, ">=": x >= y}[e["op"]]
            raise Unknown("ordering comparison of non numbers")
        if k == "MethodCall" and e["method"] == "is_control" and not e["args"]:
            v = self.ex(e["receiver"], env)
            if v[0] == "char":
                return v[1] < 0x20 or 0x7f <= v[1] <= 0x9f
            raise Unknown("is_control on non char")
        if k == "Binary" and e["op"] in ("==", "!="):
            a, b = self.ex(e["left"], env), self.ex(e["right"], env)
            if a[0] == "atom" and a[1].startswith("expr:") or b[0] == "atom" and b[1].startswith("expr:"):
                raise Unknown("comparison of uninterpreted values")
            return (a == b) if e["op"] == "==" else (a != b)
        if k == "Binary" and e["op"] in ("&&", "||"):
            a = self.cond(e["left"], env)
            if e["op"] == "&&":
                return a and self.cond(e["right"], env)
            return a or self.cond(e["right"], env)
        if k == "Unary" and e["op"] == "!":
            return not self.cond(e["expr"], env)
        if k == "Paren":
            return self.cond(e["expr"], env)
        if k == "MethodCall" and e["method"] in ("is_none", "is_some", "is_ok", "is_err") and not e["args"]:
            v = self.ex(e["receiver"], env)
            if v[0] != "ctor":
                raise Unknown("is_* on non constructor")
            return v[1] == {"is_none": "None", "is_some": "Some", "is_ok": "Ok", "is_err": "Err"}[e["method"]]
        if k == "Macro" and e["path"] == "matches" and "args" not in e:
            raise Unknown("matches! not parsed")
        if k == "LetExpr":
            raise Unknown("let in condition")
        raise Unknown("condition " + _flatp(show(e))[:60])

    # ---- patterns
    def pat(self, p, v, env):
        """bindings dict if v matches p, None if it does not"""
        k = p["k"]
        if k == "PWild" or k == "PRest":
            return {}
        if k == "PIdent":
            if p["name"][:1].isupper() and "sub" not in p:
                return {} if (v[0] == "ctor" and v[1] == p["name"] and not v[2]) else None
            b = {p["name"]: v}
            if "sub" in p:
                s = self.pat(p["sub"], v, env)
                if s is None:
                    return None
                b.update(s)
            return b
        if k == "PPath":
            return {} if (v[0] == "ctor" and v[1] == _last(p["path"])) else None
        if k == "PTupleStruct":
            if v[0] != "ctor":
                if v[0] == "atom":
                    raise Unknown("constructor pattern on atom")
                return None
            if v[1] != _last(p["path"]):
                return None
            return self._seq(p["elems"], v[2], env)
        if k == "PStruct":
            if v[0] != "ctor":
                raise Unknown("struct pattern on non constructor")
            return {} if v[1] == _last(p["path"]) else None
        if k == "PTuple":
            if v[0] != "tuple":
                raise Unknown("tuple pattern on non tuple")
            return self._seq(p["elems"], v[1], env)
        if k == "POr":
            for c in p["cases"]:
                b = self.pat(c, v, env)
                if b is not None:
                    return b
            return None
        if k in ("PRef", "PType"):
            return self.pat(p["pat"], v, env)
        if k == "PLit":
            lv = lit_value(p["text"].strip())
            if lv is None:
                raise Unknown("literal pattern " + p["text"])
            return {} if lv == v else None
        if k == "PRange":
            m = re.match(r"^(.*?)\.\.(=?)(.*)$", p["text"].replace(" ", ""))
            lo = lit_value(m.group(1)) if m and m.group(1) else None
            hi = lit_value(m.group(3)) if m and m.group(3) else None
            if v[0] not in ("char", "int"):
                raise Unknown("range pattern on non number")
            x = v[1]
            if lo is not None and x < lo[1]:
                return None
            if hi is not None and (x > hi[1] or (x == hi[1] and m.group(2) != "=")):
                return None
            return {}
        raise Unknown("pattern " + show_pat(p))

    def _seq(self, pats, vals, env):
        if any(x["k"] == "PRest" for x in pats):
            pats = [x for x in pats if x["k"] != "PRest"]
            vals = vals[:len(pats)]
        if len(pats) != len(vals):
            # opaque payload: a constructor with unlisted arguments matches any sub-pattern made of wildcards / bindings
            if not vals and all(x["k"] in ("PWild", "PIdent") for x in pats):
                return {x["name"]: A("payload") for x in pats if x["k"] == "PIdent"}
            return None
        out = {}
        for p, v in zip(pats, vals):
            b = self.pat(p, v, env)
            if b is None:
                return None
            out.update(b)
        return out

    # ---- control
    def match(self, m, env):
        v = self.ex(m["scrutinee"], env)
        for a in m["arms"]:
            b = self.pat(a["pat"], v, env)
            if b is None:
                continue
            e2 = dict(env)
            e2.update(b)
            if a.get("guard") is not None and not self.cond(a["guard"], e2):
                continue
            try:
                return self.ex(a["body"], e2)
            finally:
                for kk in env:
                    if kk not in b and kk in e2:
                        env[kk] = e2[kk]
        raise Unknown("no arm matches " + str(v))

    def iff(self, n, env):
        c = n["cond"]
        if is_node(c) and c["k"] == "LetExpr":
            v = self.ex(c["expr"], env)
            b = self.pat(c["pat"], v, env)
            if b is not None:
                e2 = dict(env)
                e2.update(b)
                return self.ex(n["then"], e2)
            return self.ex(n["else"], env) if n.get("else") else UNIT
        if self.cond(c, env):
            return self.ex(n["then"], env)
        return self.ex(n["else"], env) if n.get("else") else UNIT

    def block(self, b, env):
        env = dict(env)
        last = UNIT
        for i, st in enumerate(b["stmts"]):
            k = st["k"]
            if k == "Let":
                if "init" not in st:
                    continue
                try:
                    v = self.ex(st["init"], env)
                except Unknown:
                    v = A("expr:" + _flatp(show(st["init"]))[:60])
                bd = self.pat(st["pat"], v, env) if not (v[0] == "atom" and st["pat"]["k"] in ("PIdent", "PType", "PWild")) else ({st["pat"]["name"]: v} if st["pat"]["k"] == "PIdent" else {})
                if bd is None:
                    if "else" in st:
                        self.ex(st["else"], env)
                        raise Unknown("let-else body fell through")
                    raise Unknown("irrefutable let did not match")
                env.update(bd)
                last = UNIT
            elif k == "ExprStmt":
                v = self.ex(st["expr"], env)
                last = UNIT if st.get("semi") else v
            else:
                last = UNIT
        return last

    def run(self, body, env=None):
        try:
            return self.ex(body, env or {})
        except Ret as r:
            return r.value


class Ret(Exception):
    def __init__(self, value):
        self.value = value


def table(body, inputs_domain, classify, fixed=None, opaque=None):
    """inputs_domain: [(name, regex, [values])]. Returns {tuple(values): outcome or 'UNKNOWN: why'}"""
    out = {}
    names = [n for n, _rx, _vs in inputs_domain]
    for combo in itertools.product(*[vs for _n, _rx, vs in inputs_domain]):
        ev = Eval([(rx, v) for (_n, rx, _vs), v in zip(inputs_domain, combo)] + list(fixed or []), opaque)
        try:
            res = classify(ev.run(body))
        except Unknown as u:
            res = "UNKNOWN: %s" % u
        out[combo] = res
    return names, out


def fmt(v):
    if v[0] == "ctor":
        return v[1] + ("(" + ", ".join(fmt(a) for a in v[2]) + ")" if v[2] else "")
    if v[0] == "atom":
        return v[1]
    if v[0] == "tuple":
        return "(" + ", ".join(fmt(a) for a in v[1]) + ")"
    return str(v)


# ---------------------------------------------------------------------------------------------- literals and escapers

def _unescape(body):
    out = []
    i = 0
    while i < len(body):
        c = body[i]
        if c != "\\":
            out.append(c)
            i += 1
            continue
        n = body[i + 1]
        if n in "nrt0\\'\"":
            out.append({"n": "\n", "r": "\r", "t": "\t", "0": "\0", "\\": "\\", "'": "'", '"': '"'}[n])
            i += 2
        elif n == "x":
            out.append(chr(int(body[i + 2:i + 4], 16)))
            i += 4
        elif n == "u":
            j = body.index("}", i)
            out.append(chr(int(body[i + 3:j].replace("_", ""), 16)))
            i = j + 1
        else:
            out.append(n)
            i += 2
    return "".join(out)


def lit_value(text):
    """value of a Rust char / string / integer literal"""
    t = text.strip()
    if len(t) >= 3 and t[0] == "'" and t[-1] == "'":
        u = _unescape(t[1:-1])
        return ("char", ord(u)) if len(u) == 1 else None
    if len(t) >= 2 and t[0] == '"' and t[-1] == '"':
        return ("str", _unescape(t[1:-1]))
    if len(t) >= 4 and t[:2] == "b'" and t[-1] == "'":
        u = _unescape(t[2:-1])
        return ("int", ord(u)) if len(u) == 1 and ord(u) < 256 else None          # byte literal
    if len(t) >= 3 and t[:2] == 'b"' and t[-1] == '"':
        return ("list", tuple(("int", b) for b in _unescape(t[2:-1]).encode()))     # byte string
    m = re.match(r"^(0x[0-9a-fA-F_]+|0b[01_]+|0o[0-7_]+|[0-9][0-9_]*)(u8|u16|u32|u64|usize|i32|i64|isize)?$", t)
    if m:
        return ("int", int(m.group(1).replace("_", ""), 0))
    return None


def render(events):
    """text produced by a list of output events (pushes of strings / chars, write!(..) with {} / {:04x} / {:x})"""
    out = []
    for ev in events:
        if ev[0] == "str":
            out.append(ev[1])
        elif ev[0] == "char":
            out.append(chr(ev[1]))
        elif ev[0] == "fmt" and ev[1][0] == "str":
            args = list(ev[2])
            def sub(m):
                a = args.pop(0)
                spec = m.group(1) or ""
                if a[0] == "raw":
                    return a[1]          # text that is already rendered (a bool, the Debug form of a composite value)
                if a[0] == "float":
                    # Rust's f64: Display prints an integral value without a fraction (2), Debug with one (2.0)
                    try:
                        x = float(a[1])
                    except ValueError:
                        raise Unknown("format argument")
                    if spec not in ("", ":?") or x != x or abs(x) >= 1e15:
                        raise Unknown("format spec %s of a float" % spec)
                    if x == int(x):
                        return str(int(x)) + (".0" if spec == ":?" else "")
                    return repr(x)
                if a[0] not in ("int", "char", "str"):
                    raise Unknown("format argument")
                if spec == "":
                    return str(a[1]) if a[0] != "char" else chr(a[1])
                if spec == ":?":
                    return '"%s"' % a[1] if a[0] == "str" else (str(a[1]) if a[0] != "char" else "'%s'" % chr(a[1]))
                mm = re.match(r"^:(0?)(\d*)([xX]?)$", spec)
                if not mm:
                    raise Unknown("format spec " + spec)
                v = a[1]
                body = format(v, "x" if mm.group(3) == "x" else ("X" if mm.group(3) == "X" else "d"))
                w = int(mm.group(2)) if mm.group(2) else 0
                return body.rjust(w, "0" if mm.group(1) else " ")
            out.append(re.sub(r"\{(:[^}]*)?\}", sub, ev[1][1].replace("{{", "\x00").replace("}}", "\x01")).replace("\x00", "{").replace("\x01", "}"))
        else:
            raise Unknown("output event %s" % (ev,))
    return "".join(out)


def char_classes(fn_body):
    """representatives of the partition of `char` that the code can distinguish: every character literal it mentions
    and, for every integer it compares a code point with, that value and its neighbours; plus fixed probes"""
    from astlib import walk
    reps = {0x22, 0x5c, 0x0a, 0x0d, 0x09, 0x00, 0x01, 0x08, 0x0c, 0x1f, 0x20, 0x21, 0x2f, 0x3c, 0x3e, 0x26, 0x27, 0x61, 0x7f, 0x80, 0x9f, 0xa0, 0xad, 0x200b, 0x2028, 0x2029, 0x202a, 0xfeff, 0xfffd,
            0xffff, 0x10000, 0x1f600, 0xe0001, 0xe0067, 0xe0100, 0x10ffff}
    # the code of the helpers the function calls (a predicate such as `is_special(c)`) distinguishes characters too
    bodies = [fn_body]
    try:
        from rules import absint as _absint
        seen = set()
        k = 0
        while k < len(bodies) and _absint.PROGRAM is not None:
            for n in walk(bodies[k]):
                nm = None
                if n["k"] == "Call" and is_node(n.get("func")) and n["func"]["k"] == "Path":
                    nm = n["func"]["path"].split("::")[-1]
                elif n["k"] == "MethodCall":
                    nm = n["method"]
                for f in (_absint.PROGRAM.by_name.get(nm, []) if nm and nm not in seen else []):
                    if f.body is not None and len(bodies) < 12:
                        bodies.append(f.body)
                seen.add(nm)
            k += 1
    except Exception:  # noqa: BLE001
        pass
    for n in (x for b_ in bodies for x in walk(b_)):
        txts = []
        if n["k"] in ("Lit", "PLit"):
            txts.append(n["text"])
        elif n["k"] == "PRange":
            txts += [x for x in re.split(r"\.\.=?", n["text"].replace(" ", "")) if x]
        for t in txts:
            v = lit_value(t)
            if v and v[0] == "char":
                reps |= {v[1]}
            if v and v[0] == "int" and 0 <= v[1] < 0x110000:
                reps |= {max(0, v[1] - 1), v[1], min(0x10ffff, v[1] + 1)}
    return sorted(c for c in reps if not (0xd800 <= c <= 0xdfff))


def escaper_table(loop_body, var_pat, reps, fixed_inputs=None):
    """{code point: text written for that character | 'UNKNOWN: ..'}: the per-character body of an escaping loop is
    evaluated for every representative character"""
    out = {}
    try:
        from rules import absint as _absint     # the full evaluator: helper predicates the loop calls are interpreted too
        mk = lambda: _absint.AEval(inputs=list(fixed_inputs or []))  # noqa: E731
    except Exception:  # noqa: BLE001
        mk = lambda: Eval(list(fixed_inputs or []))  # noqa: E731
    for cp in reps:
        ev = mk()
        env = {}
        b = ev.pat(var_pat, ("char", cp), {})
        env.update(b or {})
        try:
            try:
                ev.ex(loop_body, env)
            except Ret:
                pass
            out[cp] = render(ev.out)
        except Unknown as u:
            out[cp] = "UNKNOWN: %s" % u
    return out


def escaper_spec(fn_body, str_param, kind, fn=None):
    """Check an escaping function against the *specification* of its target syntax, for every distinguishable class
    of characters: (ok, [problems], facts). kind: 'json' (a JSON string) or 'js-in-script' (a JS string literal inside
    an HTML <script> element). The function must write `"`, then for every character of the string - in order - a text
    that decodes to exactly that character and contains nothing that ends the literal (or the element), then `"`."""
    import json as _json
    from astlib import walk, show
    problems = []
    if fn is not None:
        # the whole function interpreted (rules/absint.py, helpers included) on one-character strings for every representative
        # character and on `a<ch>z` (order, framing): however the loop is written, what is written must be `"` + a fragment that
        # decodes to exactly the string + `"`
        try:
            from rules import absint as _absint
            reps = char_classes(fn_body)
            params = fn.params()
            tab = {}
            bad = {}
            for cp in reps:
                for text_in in (chr(cp), "a" + chr(cp) + "z"):
                    ev = _absint.AEval(funcs={})
                    argv = []
                    sink = None
                    for pn in params:
                        if pn == str_param:
                            argv.append(("str", text_in))
                        elif sink is None:
                            sink = pn
                            argv.append(("str", "") if kind == "js-in-script" else _absint.A("formatter"))
                        else:
                            argv.append(_absint.A(pn))
                    got = ev.run_fn(fn, argv)
                    if isinstance(got, str):
                        raise _absint.Unknown(got)
                    written = render(ev.out)
                    after = (getattr(ev, "last_env", None) or {}).get(sink)
                    if after is not None and after[0] == "str":
                        written = after[1] + written
                    if len(text_in) == 1:
                        tab[cp] = written[1:-1] if len(written) >= 2 else written
                    why = None
                    if not (len(written) >= 2 and written[0] == '"' and written[-1] == '"'):
                        why = "is written as %r: not framed by a pair of double quotes" % written
                    else:
                        try:
                            dec = _json.loads(written)
                            if dec != text_in:
                                why = "decodes to %r" % dec
                        except Exception:
                            why = "is not a valid string literal (%r)" % written
                        if why is None and kind == "js-in-script":
                            if "<" in written:
                                why = "leaves `<` raw: `</script>` / `<!--` inside a translation would end or comment out the element"
                            elif "\u2028" in written or "\u2029" in written:
                                why = "leaves a JS line terminator raw"
                    if why and cp not in bad:
                        bad[cp] = "U+%04X (in %r) %s" % (cp, text_in, why)
            for cp, why in sorted(bad.items()):
                problems.append(why)
            return not problems, problems, {"classes": len(reps), "sample": {("U+%04X" % k): v for k, v in list(tab.items())[:12]}, "mode": "whole function"}
        except Exception as e:  # noqa: BLE001 - fall back to the per-loop analysis below
            if not isinstance(e, Unknown) and e.__class__.__name__ != "Unknown":
                raise
            problems = []
    loops = []
    for n in walk(fn_body):
        if n["k"] == "ForLoop":
            it = _flatp(show(n["iter"]))
            if it in (str_param + ".chars", "&" + str_param + ".chars"):
                loops.append(n)
    if len(loops) != 1:
        return False, ["cannot find the single loop over the characters of `%s` (found %d)" % (str_param, len(loops))], {}
    loop = loops[0]
    reps = char_classes(fn_body)
    tab = escaper_table(loop["body"], loop["pat"], reps)
    bad = {}
    for cp, text in tab.items():
        ch = chr(cp)
        why = None
        if text.startswith("UNKNOWN"):
            why = text
        else:
            try:
                dec = _json.loads('"' + text + '"')
                if dec != ch:
                    why = "decodes to %r" % dec
            except Exception:
                why = "is not a valid string-literal fragment (%r)" % text
            if why is None and kind == "js-in-script":
                if "<" in text:
                    why = "leaves `<` raw: `</script>` / `<!--` inside a translation would end or comment out the element"
                elif "\u2028" in text or "\u2029" in text:
                    why = "leaves a JS line terminator raw"
        if why:
            bad[cp] = why
    for cp, why in sorted(bad.items()):
        problems.append("U+%04X is written as %r: %s" % (cp, tab[cp], why))
    # framing: what the function writes around the loop
    ev = Eval([])
    ev.skip_loops = True
    try:
        try:
            ev.ex(fn_body, {})
        except Ret:
            pass
        parts = []
        cur = []
        for e in ev.out:
            if e == ("loop",):
                parts.append(render(cur))
                cur = []
            else:
                cur.append(e)
        parts.append(render(cur))
        if parts != ['"', '"']:
            problems.append("the escaped characters are framed by %r, not by a pair of double quotes" % (parts,))
    except Unknown as u:
        problems.append("cannot evaluate the framing of the literal: %s" % u)
    return not problems, problems, {"classes": len(reps), "sample": {("U+%04X" % k): v for k, v in list(tab.items())[:12]}}
