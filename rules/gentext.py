"""Reading back the code the two back-ends generate for a value (C01.R4, shared by C02.R5).

`parsed_value::to_token_stream` (view) and `parsed_value::as_string_impl` (Display) of the macro crate are interpreted
(rules/absint.py; nothing compiled or run) on value trees of every kind; the token text they produce is parsed into the
sequence of pieces it renders - literal reads `index_translations::<N, I>`, numbers, variables (with the formatter family
and options), components with their children, ranges / plurals (delegated generators, stubbed) - and compared with the pieces
of the value itself, in order. The universe has one tree per constructor shape and position (literals of every type, plain and
formatted variables, components nested to depth 3, resolved references, blocs inside blocs, 1 / 2 / 27 / 60 pieces so that the
view back-end's tuple regrouping is exercised)."""
import re

from rules import absint
from rules.absint import AEval, A, B, C, CF, I, L, T, TOK, Unknown

MV = "leptos_i18n_macro/src/load_locales/parsed_value.rs"
N = 9          # the table size handed to the generators


def S(x):
    return ("str", x)


def K(n):
    return CF("Key", name=S(n), ident=TOK(n))


def Lit(idx):
    return C("Literal", C("String", S("text%d" % idx), I(idx)))


def LitT(idx, text_):
    """a literal with this exact text (white space only, empty): it is a piece like any other"""
    return C("Literal", C("String", S(text_), I(idx)))


def Num(kind, n):
    return C("Literal", C(kind, I(n)))


def Var(n, fmt=None):
    return CF("Variable", key=K(n), formatter=fmt if fmt is not None else C("None"))


def Comp(n, inner):
    return CF("Component", key=K(n), inner=inner)


def Bloc(*xs):
    return C("Bloc", L(*xs))


def Fk(inner):
    return C("ForeignKey", C("Set", inner))


def Rng(i):
    return C("Ranges", A("ranges%d" % i))


def Plu(i):
    return C("Plurals", CF("Plurals", count_key=K("var_count"), id=A("plurals%d" % i)))


FORMATTERS = {
    "number": C("Number", C("Auto")), "date": C("Date", C("Long")), "time": C("Time", C("Short")), "datetime": C("DateTime", C("Full"), C("Medium")),
    "list": C("List", C("And"), C("Wide")), "currency": C("Currency", C("Short"), A("USD")),
}


def universe():
    many = lambda n: Bloc(*[Lit(k % N) if k % 2 == 0 else Var("var_v%d" % k) for k in range(n)])  # noqa: E731
    vals = [
        ("literal", Lit(0)), ("number", Num("Unsigned", 7)), ("negative", Num("Signed", -3)), ("bool", C("Literal", C("Bool", B(True)))),
        ("variable", Var("var_x")), ("two pieces", Bloc(Lit(0), Var("var_x"))), ("text after the last variable", Bloc(Var("var_x"), Lit(1))),
        ("component", Comp("comp_b", Lit(2))), ("component with a variable", Comp("comp_b", Bloc(Lit(0), Var("var_x"), Lit(1)))),
        ("nested components", Comp("comp_a", Bloc(Lit(0), Comp("comp_b", Comp("comp_a", Var("var_x"))), Lit(1)))),
        ("three components in one string", Bloc(Comp("comp_a", Lit(0)), Lit(1), Comp("comp_b", Lit(2)), Comp("comp_a", Var("var_x")), Lit(3))),
        ("variable adjacent to a tag", Bloc(Var("var_x"), Comp("comp_b", Var("var_y")), Var("var_x"))),
        ("resolved reference", Bloc(Lit(0), Fk(Bloc(Lit(1), Var("var_x"))), Lit(2))), ("reference to a reference", Fk(Fk(Bloc(Var("var_x"), Lit(4))))),
        ("bloc inside a bloc", Bloc(Lit(0), Bloc(Var("var_x"), Bloc(Lit(1), Lit(2))), Var("var_y"))),
        ("range and plural among text", Bloc(Lit(0), Rng(1), Lit(1), Plu(2), Var("var_x"))), ("range alone", Rng(3)), ("plural inside a component", Comp("comp_b", Plu(4))),
        ("white space between two variables", Bloc(Var("var_x"), LitT(1, " "), Var("var_y"))), ("the empty string", LitT(0, "")), ("a line end before a variable", Bloc(LitT(2, "\n"), Var("var_x"))),
        ("empty bloc", Bloc()), ("27 pieces", many(27)), ("60 pieces", many(60)), ("26 pieces", many(26)),
    ]
    for fam, f in FORMATTERS.items():
        vals.append(("variable formatted as " + fam, Bloc(Lit(0), Var("var_x", f), Var("var_x"))))
    return vals


def expected(v):
    k = v[1]
    if k == "Literal":
        lit = v[2][0]
        if lit[1] == "String":
            return [("lit", lit[2][1][1], N)]
        x = lit[2][0]
        return [("num", ("true" if x[1] else "false") if x[0] == "bool" else str(x[1]))]
    if k == "Variable":
        f = absint.fields_of(v)
        fm = f["formatter"]
        fam = {"None": None, "Number": "number", "Date": "date", "Time": "time", "DateTime": "datetime", "List": "list", "Currency": "currency"}[fm[1]]
        return [("var", absint.fields_of(f["key"])["name"][1], fam)]
    if k == "Component":
        f = absint.fields_of(v)
        return [("comp", absint.fields_of(f["key"])["name"][1], expected(f["inner"]))]
    if k == "Bloc":
        return [p for x in v[2][0][1] for p in expected(x)]
    if k == "ForeignKey":
        return expected(v[2][0][2][0])
    if k == "Ranges":
        return [("ranges", v[2][0][1])]
    if k == "Plurals":
        return [("plurals", absint.fields_of(v[2][0])["id"][1])]
    raise Unknown("expected pieces of " + k)


# ---------------------------------------------------------------------------------------------- token text -> tree

OPEN = {"(": ")", "{": "}", "[": "]"}


def tokenize(text):
    text = re.sub(r"::\s+<", "::<", text)       # a turbofish assembled from interpolated pieces is the same tokens
    return [t for t in re.findall(r"[A-Za-z_][A-Za-z_0-9]*|\d[\w.]*|::<|::|->|=>|\|\||&&|[(){}\[\],;&*|=<>!?.:\-+#\"']|\S", text)]


def tree(tokens):
    """nested lists: a group is (open bracket, [items])"""
    stack = [("", [])]
    for t in tokens:
        if t in OPEN:
            stack.append((t, []))
        elif t in (")", "}", "]"):
            if len(stack) < 2 or OPEN[stack[-1][0]] != t:
                raise Unknown("unbalanced generated code at `%s`" % t)
            g = stack.pop()
            stack[-1][1].append(g)
        else:
            stack[-1][1].append(t)
    if len(stack) != 1:
        raise Unknown("unbalanced generated code")
    return stack[0][1]


def flat(items):
    out = []
    for x in items:
        if isinstance(x, tuple):
            out.append(x[0])
            out.extend(flat(x[1]))
            out.append(OPEN[x[0]])
        else:
            out.append(x)
    return out


def text(items):
    return " ".join(flat(items))


def split_top(items, sep):
    parts, cur = [], []
    angle = 0
    for x in items:
        if x == "::<":
            angle += 1
        elif x == ">" and angle:
            angle -= 1
        if x == sep and not angle:
            parts.append(cur)
            cur = []
        else:
            cur.append(x)
    if cur or parts:
        parts.append(cur)
    return parts


def _strip_path(items, *suffix):
    """items starts with a path (idents separated by ::) ending in `suffix`: the rest, else None"""
    k = 0
    segs = []
    while k < len(items) and isinstance(items[k], str) and (re.match(r"^[A-Za-z_]\w*$", items[k]) or items[k] == "::"):
        if items[k] != "::":
            segs.append(items[k])
        k += 1
    if len(segs) >= len(suffix) and tuple(segs[-len(suffix):]) == tuple(suffix):
        return items[k:], segs
    return None


def read_literal(items):
    """`{ const S : & str = <path>::index_translations ::< N , I > ( KEY ) ; S }` or the bare call (dynamic_load)"""
    if len(items) == 1 and isinstance(items[0], tuple) and items[0][0] == "{":
        inner = items[0][1]
        t = text(inner)
        m = re.match(r"^const S : & str = (.*) ; S$", t)
        if not m:
            return None
        items = tree(tokenize(m.group(1)))
    r = _strip_path(items, "index_translations")
    if r is None:
        return None
    rest, _ = r
    t = text(rest)
    m = re.match(r"^::< (\d+) , (\d+) > \( (\w+) \)$", t)
    if not m:
        return None
    return ("lit", int(m.group(2)), int(m.group(1)))


FAMILY = {"number": "number", "date": "date", "time": "time", "datetime": "datetime", "list": "list", "currency": "currency"}


def read_string_stmt(items):
    """one `expr ?` statement of the Display back-end (without the `?`)"""
    t = text(items)
    m = re.match(r"^__(RANGES|PLURALS)_STR__ \( (\w+) \)$", t)
    if m:
        return [("ranges" if m.group(1) == "RANGES" else "plurals", m.group(2))]
    r = _strip_path(items, "Display", "fmt")
    if r is not None and len(r[0]) == 1 and isinstance(r[0][0], tuple) and r[0][0][0] == "(":
        args = split_top(r[0][0][1], ",")
        if len(args) == 2 and text(args[1]) == "__formatter":
            a0 = args[0]
            if a0 and a0[0] == "&":
                lit = read_literal(a0[1:])
                if lit:
                    return [lit]
                tt = text(a0[1:])
                if re.match(r"^-?\s?[\w.]+$", tt):
                    return [("num", tt.replace(" ", ""))]
                return None
            if len(a0) == 1 and isinstance(a0[0], str):
                return [("var", a0[0], None)]
    r = _strip_path(items, "DisplayComponent", "fmt")
    if r is not None and len(r[0]) == 1 and isinstance(r[0][0], tuple) and r[0][0][0] == "(":
        args = split_top(r[0][0][1], ",")
        if len(args) == 3 and text(args[1]) == "__formatter" and len(args[0]) == 1 and text(args[2][:3]) == "| __formatter |":
            inner = read_string(args[2][3:])
            if inner is not None:
                return [("comp", args[0][0], inner)]
    m = re.match(r"^(?:\w+ :: )*format_(\w+)_to_formatter$", text([x for x in items if not isinstance(x, tuple)]))
    if m and isinstance(items[-1], tuple) and items[-1][0] == "(" and m.group(1) in FAMILY:
        args = split_top(items[-1][1], ",")
        if len(args) >= 3 and text(args[0]) == "__formatter" and re.match(r"^\* \w+$", text(args[1])):
            kt = text(args[2])
            mk = re.match(r"^(?:core :: clone :: Clone :: clone \( (\w+) \)|(\w+))$", kt)
            if mk:
                return [("var", mk.group(1) or mk.group(2), FAMILY[m.group(1)], " , ".join(text(a) for a in args[3:]))]
    return None


def read_string(items):
    """the pieces a Display body renders, or None when it has an unknown form"""
    if len(items) == 1 and isinstance(items[0], tuple) and items[0][0] == "{":
        inner = items[0][1]
        stmts = split_top(inner, ";")
        if stmts and text(stmts[-1]) == "Ok ( ( ) )":
            out = []
            for st in stmts[:-1]:
                if not st or st[-1] != "?":
                    return None
                p = read_string_stmt(st[:-1])
                if p is None:
                    return None
                out += p
            return out
    if text(items) == "Ok ( ( ) )":
        return []
    return read_string_stmt(items)


def read_view(items):
    """the pieces a view expression renders"""
    t = text(items)
    if t == '""' or t == '" "' or t == '"  "':
        return []
    m = re.match(r"^__(RANGES|PLURALS)_VIEW__ \( (\w+) \)$", t)
    if m:
        return [("ranges" if m.group(1) == "RANGES" else "plurals", m.group(2))]
    lit = read_literal(items)
    if lit:
        return [lit]
    if len(items) == 1 and isinstance(items[0], str) and re.match(r"^(-?\d[\w.]*|true|false)$", items[0]):
        return [("num", items[0])]
    if len(items) == 2 and items[0] == "-" and isinstance(items[1], str):
        return [("num", "-" + items[1])]
    if len(items) == 1 and isinstance(items[0], tuple) and items[0][0] == "(":
        out = []
        for part in split_top(items[0][1], ","):
            if not part:
                continue
            p = read_view(part)
            if p is None:
                return None
            out += p
        return out
    if len(items) == 1 and isinstance(items[0], tuple) and items[0][0] == "{":
        stmts = split_top(items[0][1], ";")
        # { let K = clone(&K) ; <expr> }  : a variable
        m1 = re.match(r"^let (\w+) = core :: clone :: Clone :: clone \( & (\w+) \)$", text(stmts[0])) if stmts else None
        if m1 and m1.group(1) == m1.group(2) and len(stmts) == 2:
            body = stmts[1]
            if len(body) == 1 and body[0] == m1.group(1):
                return [("var", m1.group(1), None)]
            mm = re.match(r"^(?:\w+ :: )*format_(\w+)_to_view$", text([x for x in body if not isinstance(x, tuple)]))
            if mm and isinstance(body[-1], tuple) and mm.group(1) in FAMILY:
                args = split_top(body[-1][1], ",")
                if len(args) >= 2 and text(args[1]) == m1.group(1):
                    return [("var", m1.group(1), FAMILY[mm.group(1)], " , ".join(text(a) for a in args[2:]))]
            return None
        # { let __boxed_children_fn = ..to_children({ <captures> move || <inner> }) ; let K = clone(&K) ; move || K(clone(&__boxed_children_fn)) }
        if len(stmts) == 3 and text(stmts[0][:3]) == "let __boxed_children_fn =":
            call = stmts[0][3:]
            r = _strip_path(call, "ToChildren", "to_children")
            m2 = re.match(r"^let (\w+) = core :: clone :: Clone :: clone \( & (\w+) \)$", text(stmts[1]))
            if r is not None and m2 and m2.group(1) == m2.group(2) and len(r[0]) == 1 and isinstance(r[0][0], tuple):
                key = m2.group(1)
                if text(stmts[2]) != "move || %s ( core :: clone :: Clone :: clone ( & __boxed_children_fn ) )" % key:
                    return None
                arg = r[0][0][1]
                if len(arg) == 1 and isinstance(arg[0], tuple) and arg[0][0] == "{":
                    cst = split_top(arg[0][1], ";")
                    last = cst[-1]
                    if all(re.match(r"^let (\w+) = core :: clone :: Clone :: clone \( & \1 \)$", text(c)) for c in cst[:-1]) and text(last[:2]) == "move ||":
                        inner = read_view(last[2:])
                        if inner is not None:
                            return [("comp", key, inner)]
        return None
    return None


def generators(ast):
    fs = {}
    for name in ("to_token_stream", "as_string_impl"):
        c = [f for f in ast.fns_named(MV, name) if f.impl_self is None]
        fs[name] = c[0] if c else None
    return fs


def keys_of(v, vs, cs):
    k = v[1]
    if k == "Variable":
        vs.append(absint.fields_of(v)["key"])
    elif k == "Component":
        f = absint.fields_of(v)
        cs.append(f["key"])
        keys_of(f["inner"], vs, cs)
    elif k == "Bloc":
        for x in v[2][0][1]:
            keys_of(x, vs, cs)
    elif k == "ForeignKey" and v[2][0][1] == "Set":
        keys_of(v[2][0][2][0], vs, cs)
    elif k == "Plurals":
        vs.append(K("var_count"))
    elif k == "Ranges":
        vs.append(K("var_count"))


def evaluate(ast, fn, v, dynamic=False):
    funcs = absint.file_funcs(ast, MV)

    def get_keys(rv, a):
        vs, cs = [], []
        keys_of(rv, vs, cs)
        if not vs and not cs:
            return C("Ok", C("Lit", A("ty")))
        uniq = []
        for k in vs:
            if k not in uniq:
                uniq.append(k)
        ucs = []
        for k in cs:
            if k not in ucs:
                ucs.append(k)
        return C("Ok", C("Interpol", CF("InterpolationKeys", variables=L(*[T(k, CF("VarInfo", formatters=L(), range_count=C("None"))) for k in uniq]), components=L(*ucs))))
    ev = AEval(inputs=[(r'^cfg!feature="dynamic_load"$', B(dynamic))], funcs=funcs,
               builtins={"unwrap_at": lambda rv, a: rv[2][0] if rv[0] == "ctor" and rv[2] else rv, "borrow": lambda rv, a: rv,
                         "as_inner": lambda rv, a: rv[2][0] if rv[0] == "ctor" and rv[1] == "Set" else rv, "get_keys": get_keys})
    ev.path_builtins = {
        "Key::new": lambda a: C("Some", K(a[0][1])),
        "ranges::to_token_stream": lambda a: TOK("__RANGES_VIEW__ ( %s )" % a[0][1]), "ranges::as_string_impl": lambda a: TOK("__RANGES_STR__ ( %s )" % a[0][1]),
        "plurals::to_token_stream": lambda a: TOK("__PLURALS_VIEW__ ( %s )" % absint.fields_of(a[0])["id"][1]),
        "plurals::as_string_impl": lambda a: TOK("__PLURALS_STR__ ( %s )" % absint.fields_of(a[0])["id"][1]),
    }
    ev.totokens = lambda x: (absint.fields_of(x)["name"][1] if x[0] == "ctor" and x[1] == "Key" else (x[1] if x[0] == "ctor" and not x[2] and len(x) < 4 and x[1] not in ("None", "Some", "<default>") else None))
    got = ev.run_fn(fn, [v, I(N)])
    if isinstance(got, str):
        raise Unknown(got)
    if got[0] == "int":
        return str(got[1])
    if got[0] == "bool":
        return "true" if got[1] else "false"
    if got[0] != "tok":
        raise Unknown("the generator returns %s" % absint.fmt(got)[:80])
    return got[1]


def show_pieces(ps):
    out = []
    for p in ps:
        if p[0] == "comp":
            out.append("<%s>%s</%s>" % (p[1], show_pieces(p[2]), p[1]))
        elif p[0] == "lit":
            out.append("text[%d/%d]" % (p[1], p[2]))
        elif p[0] == "var":
            out.append("{{%s%s}}" % (p[1], ", " + p[2] if len(p) > 2 and p[2] else ""))
        else:
            out.append("%s(%s)" % (p[0], p[1]))
    return " ".join(out)


def norm(ps, with_opts=False):
    out = []
    for p in ps:
        if p[0] == "comp":
            out.append(("comp", p[1], norm(p[2], with_opts)))
        elif p[0] == "var":
            out.append(p[:3] if not with_opts else p)
        else:
            out.append(p)
    return out


def check(ctx, r, rid="R4"):
    """[(label, back-end, problem)] ; instances are added to r"""
    ast = ctx.ast
    fs = generators(ast)
    if fs["to_token_stream"] is None or fs["as_string_impl"] is None:
        r.missing("macro parsed_value::to_token_stream / as_string_impl")
        return False
    n = 0
    bad = {}
    for label, v in universe():
        want = expected(v)
        opts = {}
        for name, reader in (("to_token_stream", read_view), ("as_string_impl", read_string)):
            for dyn in (False, True):
                txt = evaluate(ast, fs[name], v, dynamic=dyn)
                got = reader(tree(tokenize(txt)))
                n += 1
                key = name
                if got is None:
                    bad.setdefault(key, "%s (%s): the generated code has a form this reader does not know: `%s`" % (label, "dynamic_load" if dyn else "baked", txt[:200]))
                    continue
                if norm(got) != norm(want):
                    bad.setdefault(key, "%s (%s): the generated %s renders `%s`, the value is `%s`" % (label, "dynamic_load" if dyn else "baked", "view" if name == "to_token_stream" else "Display impl", show_pieces(got), show_pieces(want)))
                opts[(name, dyn)] = [p[3] for p in _flatv(got) if p[0] == "var" and len(p) > 3]
        # both back-ends pass the same formatter options, in the same order
        a, b_ = opts.get(("to_token_stream", False)), opts.get(("as_string_impl", False))
        if a is not None and b_ is not None and a != b_:
            bad.setdefault("formatter-options", "%s: the view passes the formatter options `%s`, the Display impl `%s`" % (label, a, b_))
    fnl = fs["to_token_stream"]
    for k, msg in sorted(bad.items()):
        r.viol("%s:parsed_value::%s#pieces" % (rid, k), msg, file=MV, line=(fs.get(k) or fnl).line)
    if not bad:
        for name in ("to_token_stream", "as_string_impl"):
            r.inst("macro parsed_value::" + name, "%d value trees x baked / dynamic_load: the generated code, read back, renders exactly the pieces of the value in order (literals by their own index in a table of the given size, "
                   "variables with their formatter family, components around their own children, references inlined, ranges / plurals delegated), for 0, 1, 2, 26, 27 and 60 pieces" % (n // 4))
    return True


def _flatv(ps):
    out = []
    for p in ps:
        out.append(p)
        if p[0] == "comp":
            out += _flatv(p[2])
    return out


# ---------------------------------------------------------------------------------------------- per-locale match arms

MI = "leptos_i18n_macro/src/load_locales/interpolate.rs"


def _strip_either(items):
    """`<path>::EitherOfN::X ( value )` (possibly nested) -> value"""
    while True:
        flat_ = [x for x in items if not isinstance(x, tuple)]
        if len(items) >= 2 and isinstance(items[-1], tuple) and items[-1][0] == "(" and all(isinstance(x, str) for x in items[:-1]) \
                and re.search(r"(EitherOf\d+|Either) :: \w+$", " ".join(flat_)):
            items = items[-1][1]
            continue
        return items


def check_locale_arms(ctx, r, rid="R5"):
    """create_locale_impl / create_locale_string_impl: one arm per locale that defines the key, widened by the locales that fall
    back to it; inside, that locale's table (its accessor, its size) and that locale's value - and nothing else"""
    ast = ctx.ast
    fns = {n: ast.fn(MI, n, impl_self="Interpolation") for n in ("create_locale_impl", "create_locale_string_impl")}
    if None in fns.values():
        r.missing("Interpolation::create_locale_impl / create_locale_string_impl")
        return False
    funcs = absint.file_funcs(ast, MV)
    # (`es`: a value without literal text - its arm reads the table all the same: with dynamic_load + ssr the read is what registers the unit)
    vals = {"en": Bloc(Lit(0), Var("var_x", FORMATTERS["number"]), Lit(2)), "fr": Bloc(Var("var_x", FORMATTERS["number"]), Lit(1)), "pt": Lit(0), "es": Var("var_x", FORMATTERS["number"])}
    counts = {"en": 3, "fr": 2, "pt": 5, "es": 1}

    def loc(n):
        return CF("Locale", name=K(n), top_locale_name=K(n), keys=L(T(K("other"), Lit(1)), T(K("k"), vals[n])), strings=L(), top_locale_string_count=I(counts[n]))
    defaults = L(T(K("en"), L(K("de"), K("it"))), T(K("pt"), L(K("pt_BR"))))
    fallback = {"en": ["de", "it"], "pt": ["pt_BR"], "fr": [], "es": []}
    bad = {}
    n = 0
    for fname, reader in (("create_locale_impl", read_view), ("create_locale_string_impl", read_string)):
        for dyn, ssr in ((False, False), (True, True)):
            def get_keys(rv, a):
                vs, cs = [], []
                keys_of(rv, vs, cs)
                return C("Ok", C("Interpol", CF("InterpolationKeys", variables=L(*[T(k, CF("VarInfo", formatters=L(), range_count=C("None"))) for k in vs]), components=L(*cs)))) if vs or cs else C("Ok", C("Lit", A("ty")))
            ev = AEval(inputs=[(r'^cfg!feature="dynamic_load"$', B(dyn)), (r'^cfg!allfeature="dynamic_load",notfeature="ssr"$', B(dyn and not ssr)),
                               (r'^cfg!allfeature="dynamic_load",feature="ssr"$', B(dyn and ssr))], funcs=funcs,
                       builtins={"unwrap_at": lambda rv, a: rv[2][0] if rv[0] == "ctor" and rv[2] else rv, "borrow": lambda rv, a: rv,
                                 "as_inner": lambda rv, a: rv[2][0] if rv[0] == "ctor" and rv[1] == "Set" else rv, "get_keys": get_keys})
            ev.path_builtins = {"Key::new": lambda a: C("Some", K(a[0][1]))}
            ev.totokens = lambda x: (absint.fields_of(x)["name"][1] if x[0] == "ctor" and x[1] == "Key" else (x[1] if x[0] == "ctor" and not x[2] and len(x) < 4 and x[1] not in ("None", "Some", "<default>") else None))
            known = {"key": K("k"), "enum_ident": TOK("Locale"), "locales": L(loc("en"), loc("fr"), loc("pt"), loc("es")), "locale_type_ident": TOK("LocaleStrings"), "defaults": defaults}
            got = ev.run_fn(fns[fname], [known.get(pn, K("_" + pn.replace("_field", ""))) for pn in fns[fname].params()])
            if isinstance(got, str):
                raise Unknown("%s: %s" % (fname, got))
            if got[0] != "list" or not all(x[0] == "tok" for x in got[1]):
                raise Unknown("%s returns %s" % (fname, absint.fmt(got)[:100]))
            seen = []
            for arm in got[1]:
                n += 1
                items = tree(tokenize(arm[1]))
                if "=>" not in items:
                    bad.setdefault(fname, "an arm without `=>`: %s" % arm[1][:120])
                    continue
                k = items.index("=>")
                pat = [x.replace(" ", "") for x in " ".join(flat(items[:k])).split("|")]
                body = items[k + 1:]
                names = [p_.split("::")[-1] for p_ in pat]
                if not names or any(not re.match(r"^Locale::\w+$", p_) for p_ in pat):
                    bad.setdefault(fname, "unreadable arm pattern `%s`" % " ".join(flat(items[:k])))
                    continue
                own = names[0]
                seen.append(own)
                if own not in vals or sorted(names[1:]) != sorted(fallback.get(own, [])):
                    bad.setdefault(fname + "#fallback", "the arm of `%s` also serves %s; the locales that fall back to it are %s" % (own, names[1:], fallback.get(own)))
                    continue
                if not (len(body) == 1 and isinstance(body[0], tuple) and body[0][0] == "{"):
                    bad.setdefault(fname, "the arm of `%s` is not a block: %s" % (own, text(body)[:120]))
                    continue
                stmts = split_top(body[0][1], ";")
                bind = text(stmts[0]) if stmts else ""
                mb = re.match(r"^(?:const|let) (\w+) : (?:& ' static|&) \[ (?:& ' static str|& str|Box < str >) ; (\d+) \] = super :: LocaleStrings :: (\w+) \( \)(?: \. await)?$", bind)
                if not mb:
                    bad.setdefault(fname + "#table", "the arm of `%s` does not start by binding its string table: `%s`" % (own, bind[:160]))
                    continue
                if int(mb.group(2)) != counts[own] or own not in mb.group(3):
                    bad.setdefault(fname + "#table", "the arm of `%s` binds a table of size %s through `%s()`; this locale has %d strings and its own accessor" % (own, mb.group(2), mb.group(3), counts[own]))
                    continue
                if len(stmts) != 2:
                    bad.setdefault(fname + "#extra", "the arm of `%s` does more than bind its table and render its value: `%s` - the builder's fields (the locale being rendered among them) must reach the value as the caller set them"
                                   % (own, " ; ".join(text(st)[:80] for st in stmts[1:-1])))
                    continue
                val_items = _strip_either(stmts[1]) if fname == "create_locale_impl" else stmts[1]
                global N
                oldN = N
                N = counts[own]
                try:
                    pieces = reader(val_items)
                    want = expected(vals[own])
                finally:
                    N = oldN
                if pieces is None:
                    bad.setdefault(fname, "the arm of `%s` renders code of an unknown form: `%s`" % (own, text(val_items)[:160]))
                elif norm(pieces) != norm(want):
                    bad.setdefault(fname + "#value", "the arm of `%s` renders `%s`; that locale's value is `%s`" % (own, show_pieces(pieces), show_pieces(want)))
            if sorted(seen) != sorted(vals):
                bad.setdefault(fname + "#arms", "arms exist for %s; the locales that define the key are %s" % (sorted(seen), sorted(vals)))
    for k, msg in sorted(bad.items()):
        r.viol("%s:%s" % (rid, k), msg, file=MI, line=fns[k.split("#")[0]].line)
    if not bad:
        for fname in fns:
            r.inst("Interpolation::" + fname, "%d generated arms (baked / dynamic_load+ssr): one arm per defining locale, widened by exactly the locales that fall back to it; it binds that locale's table (own accessor, own size) and renders that locale's value, nothing else" % (n // 2))
    return True


def check_display_new(ctx, r, rid="R4"):
    """Interpolation::display_impl in the lazily loading client configuration (dynamic_load, not ssr): the generated `new` fetches the
    string table in a `match` over the builder's locale.  Read back: one arm per locale that defines the key, widened by exactly the
    locales that fall back to it, fetching that locale's own table (own accessor, own size) into that locale's variant of the holder."""
    ast = ctx.ast
    fn = ast.fn(MI, "display_impl", impl_self="Interpolation")
    if fn is None:
        r.missing("Interpolation::display_impl")
        return False
    absint.set_program(ast)
    vals = {"en": Lit(0), "fr": Lit(1), "pt": Lit(0)}
    counts = {"en": 3, "fr": 2, "pt": 5}
    fallback = {"en": ["de", "it"], "pt": ["pt_BR"], "fr": []}

    def loc(n):
        return CF("Locale", name=K(n), top_locale_name=K(n), keys=L(T(K("k"), vals[n])), strings=L(), top_locale_string_count=I(counts[n]))
    defaults = L(T(K("en"), L(K("de"), K("it"))), T(K("pt"), L(K("pt_BR"))))
    ev = AEval(funcs=absint.file_funcs(ast, MV))
    ev.cfg = lambda t: ("dynamic_load" in t and 'notfeature="ssr"' in t.replace(" ", "")) or t.replace(" ", "") == 'feature="dynamic_load"'
    ev.builtins.update({"unwrap_at": lambda rv, a: rv[2][0] if rv[0] == "ctor" and rv[2] else rv})
    ev.path_builtins = {"Key::new": lambda a: C("Some", K(a[0][1])), "Self::create_locale_string_impl": lambda a: L(TOK("STRING_ARMS"))}
    ev.totokens = lambda x: (absint.fields_of(x)["name"][1] if x[0] == "ctor" and x[1] == "Key" else None)
    known = {"key": K("k"), "ident": TOK("Builder"), "display_struct_ident": TOK("DisplayStruct"), "enum_ident": TOK("Locale"), "locale_field": K("_locale"), "fields": L(),
             "locales": L(loc("en"), loc("fr"), loc("pt")), "locale_type_ident": TOK("LocaleStrings"), "defaults": defaults}
    missing = [p_ for p_ in fn.params() if p_ not in known]
    if missing:
        raise Unknown("display_impl has parameters the model does not know: %s" % missing)
    got = ev.run_fn(fn, [known[p_] for p_ in fn.params()])
    if isinstance(got, str) or got[0] != "tok":
        raise Unknown("display_impl: %s" % (got if isinstance(got, str) else absint.fmt(got)[:80]))
    txt = re.sub(r"\s+", " ", got[1])
    m = re.search(r"match builder \. _locale \{(.*?)\} ?;", txt)
    if not m:
        raise Unknown("the generated `new` has no `match builder._locale { .. }`: %s" % txt[-300:])
    arms = re.findall(r"((?:Locale :: \w+ ?\|? ?)+)=> \{let translations : &' static \[Box < str >; (\d+)\] = super :: LocaleStrings :: (\w+) \(\) \. await ; (\w+) :: (\w+) \(translations\)\} ,?", m.group(1))
    bad = None
    seen = []
    for pat, size, acc, holder, variant in arms:
        names = re.findall(r"Locale :: (\w+)", pat)
        own = names[0]
        seen.append(own)
        if own not in vals or sorted(names[1:]) != sorted(fallback.get(own, [])):
            bad = bad or "the arm of `%s` also serves %s; the locales that fall back to it are %s" % (own, names[1:], fallback.get(own))
        elif int(size) != counts[own] or own not in acc or variant != own or holder != "DisplayStructEnum":
            bad = bad or "the arm of `%s` fetches a table of %s strings through `%s()` into `%s::%s`; this locale has %d strings, its own accessor and its own variant" % (own, size, acc, holder, variant, counts[own])
    if sorted(seen) != sorted(vals):
        bad = bad or "arms exist for %s (read from `%s`); the locales that define the key are %s" % (sorted(seen), m.group(1)[:200], sorted(vals))
    if bad:
        r.viol("%s:Interpolation::display_impl#new" % rid, bad, file=MI, line=fn.line)
    else:
        r.inst("Interpolation::display_impl (new, lazily loading client)", "3 generated arms: one per defining locale, widened by exactly its fallback locales, fetching that locale's own table into its own variant")
    return True


def check_display_new_server(ctx, r, rid="R5"):
    """Interpolation::display_impl in the server configuration of lazily loaded translations (dynamic_load + ssr), where reading a
    locale's string table registers that unit for embedding in the page: the generated `new` only stores the builder's locale - the table
    is read (and the unit registered) by the `fmt` arm of the locale actually rendered, not for every locale that defines the key."""
    ast = ctx.ast
    fn = ast.fn(MI, "display_impl", impl_self="Interpolation")
    if fn is None:
        r.missing("Interpolation::display_impl")
        return False
    absint.set_program(ast)
    vals = {"en": Lit(0), "fr": Lit(1), "pt": Lit(0)}
    counts = {"en": 3, "fr": 2, "pt": 5}

    def loc(n):
        return CF("Locale", name=K(n), top_locale_name=K(n), keys=L(T(K("k"), vals[n])), strings=L(), top_locale_string_count=I(counts[n]))
    defaults = L(T(K("en"), L(K("de"), K("it"))), T(K("pt"), L(K("pt_BR"))))
    ev = AEval(funcs=absint.file_funcs(ast, MV))

    def cfg(t):
        t = t.replace(" ", "")
        if 'notfeature="ssr"' in t or 'not(feature="ssr")' in t:
            return False
        return "dynamic_load" in t or t == 'feature="ssr"'
    ev.cfg = cfg
    ev.builtins.update({"unwrap_at": lambda rv, a: rv[2][0] if rv[0] == "ctor" and rv[2] else rv})
    ev.path_builtins = {"Key::new": lambda a: C("Some", K(a[0][1])), "Self::create_locale_string_impl": lambda a: L(TOK("STRING_ARMS"))}
    ev.totokens = lambda x: (absint.fields_of(x)["name"][1] if x[0] == "ctor" and x[1] == "Key" else None)
    known = {"key": K("k"), "ident": TOK("Builder"), "display_struct_ident": TOK("DisplayStruct"), "enum_ident": TOK("Locale"), "locale_field": K("_locale"), "fields": L(),
             "locales": L(loc("en"), loc("fr"), loc("pt")), "locale_type_ident": TOK("LocaleStrings"), "defaults": defaults}
    missing = [p_ for p_ in fn.params() if p_ not in known]
    if missing:
        raise Unknown("display_impl has parameters the model does not know: %s" % missing)
    got = ev.run_fn(fn, [known[p_] for p_ in fn.params()])
    if isinstance(got, str) or got[0] != "tok":
        raise Unknown("display_impl (dynamic_load + ssr): %s" % (got if isinstance(got, str) else absint.fmt(got)[:80]))
    txt = re.sub(r"\s+", " ", got[1])
    if "STRING_ARMS" not in txt:
        raise Unknown("the generated Display impl does not contain the per-locale fmt arms: %s" % txt[-200:])
    if "LocaleStrings" in txt:
        k = txt.index("LocaleStrings")
        r.viol("%s:Interpolation::display_impl#new-server" % rid, "with dynamic_load + ssr the generated code reads a string table outside the per-locale `fmt` arms (`.. %s ..`): reading a table registers "
               "that unit for the page, so units of locales the request never rendered are embedded" % txt[max(0, k - 80):k + 80], file=MI, line=fn.line)
    else:
        r.inst("Interpolation::display_impl (new, dynamic_load + ssr)", "the generated `new` stores the builder's locale only; tables are read (units registered) in the fmt arm of the rendered locale")
    return True
