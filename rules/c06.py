"""C06 Foreign keys are pure substitution."""
import re

from report import Rule
from mirlib import callee_name, callee_of, op_const, op_place, backward_slice
import mustlib as M
from astlib import find_all, find_first, show, show_pat, quotes_in, tok_text, method_chain, callee_path
from rules.common import ftrav

EXPLANATION = (
    "Static structural analysis (MIR data/control-flow facts + syntax facts); nothing executed. Decided clauses: (R1) the "
    "substitution traversals `populate` and `resolve_foreign_key` visit every child-bearing kind of value (component "
    "children, bloc items, range branches, plural forms and `other`, already resolved nested foreign keys); a variable is "
    "replaced by args[its name] else kept; subkey groups are rejected with InvalidForeignKey. (R2) argument naming: the "
    "`var_`/`comp_` prefixes used by the parser for variables, components and foreign-key arguments are the ones t! "
    "generates, and the literal `var_count` consulted by range/plural substitution is VAR_COUNT_KEY. (R3) locale "
    "consistency and order in resolve_foreign_key_inner: the locale used to look the target up is the locale used to "
    "resolve its nested references and to populate it; the fallback for a null target restarts the whole resolution in "
    "the default locale (both locale arguments); target and arguments are resolved before populate; the result is stored "
    "in the cell; unresolved foreign keys are created only by ForeignKey::new, which records the path, and "
    "resolve_foreign_keys visits every recorded path. (R4) make_builder_keys runs merge_plurals, then "
    "resolve_foreign_keys, then check_locales, and a recorded path is looked up again at the merged plural key. (R5) a null "
    "target falls back with the inherits table - known finding D11: only the default locale is consulted. (R6) "
    "namespace dispatch of get_value_at and liveness of MissingForeignKey / InvalidForeignKey / RecursiveForeignKey. "
    "NOT decided: the rendered text of a concrete reference."
)
ASSUMPTIONS = ["RefCell::try_borrow_mut fails iff the cell is already borrowed (cycle)", "BTreeMap lookups by key name"]

PV = "leptos_i18n_parser/src/parse_locales/parsed_value.rs"
PL = "leptos_i18n_parser/src/parse_locales/locale.rs"
PM = "leptos_i18n_parser/src/parse_locales/mod.rs"
PR = "leptos_i18n_parser/src/parse_locales/ranges.rs"
PP = "leptos_i18n_parser/src/parse_locales/plurals.rs"


def flat(s):
    return re.sub(r"\s+", "", s)


from rules.common import flatp, has, same  # noqa: E402


def r1_traversals(ctx):
    r = Rule("C06.R1", "substitution traversals visit every child",
             "an argument must replace its variable wherever the variable sits (inside a component, a range branch, a plural "
             "form, or a value reached through another reference); an arm that clones instead of descending leaves the "
             "variable in place only for that shape", floor=16)
    ast = ctx.ast
    ftrav(r, "ParsedValue::populate", ast.fn(PV, "populate", impl_self="ParsedValue"), {
        "Component": (["populate"], "children of a component"),
        "Bloc": (["populate"], "items of a bloc"),
        "Ranges": (["populate"], "Ranges::populate"),
        "Plurals": (["populate"], "Plurals::populate"),
        "ForeignKey": (["populate"], "resolved value of a nested foreign key (chains of references)"),
        "Variable": (["get"], "args lookup by variable name"),
        "Subkeys": (None, "rejected with InvalidForeignKey"),
        "Default": (None, "no children"), "Literal": (None, "no children"),
    })
    fn = ast.fn(PV, "populate", impl_self="ParsedValue")
    if fn is not None:
        t = flatp(show(fn.body))
        checks = {
            "variable": "ParsedValue::Variable{key:key,formatter:formatter}=>matchargs.get&*key.name{Somevalue=>Okvalue.clone;None=>OkParsedValue::Variable{key:key.clone,formatter:*formatter}}",
            "bloc-order": "ParsedValue::Blocbloc=>bloc.iter.map|value|value.populateargs,foreign_key,locale,key_path.collect::<Result<_>>.mapParsedValue::Bloc",
            "subkeys": "ParsedValue::Subkeys_=>ErrError::InvalidForeignKey{",
            "component-key-kept": "ParsedValue::Component{key:key,inner:inner}=>OkParsedValue::Component{key:key.clone,inner:Box::newinner.populateargs,foreign_key,locale,key_path?}",
        }
        for k, frag in checks.items():
            if has(t, frag):
                r.inst("populate#" + k, frag[:90])
            else:
                r.viol("R1:populate#" + k, "populate lost `%s`" % frag[:90], file=fn.file, line=fn.line)
    ftrav(r, "ParsedValue::resolve_foreign_key", ast.fn(PV, "resolve_foreign_key", impl_self="ParsedValue"), {
        "Component": (["resolve_foreign_key"], "children of a component"),
        "Bloc": (["resolve_foreign_key"], "items of a bloc"),
        "Ranges": (["resolve_foreign_keys"], "Ranges::resolve_foreign_keys"),
        "Plurals": (["resolve_foreign_key"], "forms and other"),
        "ForeignKey": (["resolve_foreign_key_inner"], "the reference itself"),
        "Subkeys": (None, "not a rendered value (foreign keys inside subkeys are recorded with their own path)"),
    })
    fn = ast.fn(PV, "resolve_foreign_key", impl_self="ParsedValue")
    if fn is not None:
        t = flatp(show(fn.body))
        for k, frag in {
            "plurals-all-forms": "ParsedValue::PluralsPlurals{forms:forms,other:other,..}=>{forvalueinforms.values{value.resolve_foreign_keyvalues,top_locale,default_locale,path?;};other.resolve_foreign_keyvalues,top_locale,default_locale,path}",
            "cycle-guard": "letOkmutforeign_key=foreign_key.try_borrow_mutelse{returnErrError::RecursiveForeignKey{",
        }.items():
            if has(t, frag):
                r.inst("resolve_foreign_key#" + k, frag[:90])
            else:
                r.viol("R1:resolve_foreign_key#" + k, "resolve_foreign_key lost `%s`" % frag[:90], file=fn.file, line=fn.line)
    for (f, ty, meth) in ((PR, "Ranges", "resolve_foreign_keys"),):
        fn = ast.fn(f, meth, impl_self=ty)
        t = flatp(show(fn.body)) if fn else ""
        if not has(t, "self.try_for_each_valuemove|value|{value.resolve_foreign_keyvalues,top_locale,default_locale,path}"):
            r.viol("R1:Ranges::resolve_foreign_keys", "range branches are not all resolved", file=f)
        else:
            r.inst("Ranges::resolve_foreign_keys", "try_for_each_value(resolve_foreign_key)")
    fn = ast.fn(PR, "try_for_each_value", impl_self="Ranges")
    if fn is not None:
        inner = [f2 for f2 in ast.fns_named(PR, "inner") if f2.qual.endswith("Ranges::try_for_each_value::inner")]
        t = flatp(show(inner[0].body)) if inner else ""
        if not same(t, "{for_,valueinv{fvalue?;};Ok}"):
            r.viol("R1:Ranges::try_for_each_value", "does not visit every branch in order: %s" % t, file=fn.file, line=fn.line)
        else:
            r.inst("Ranges::try_for_each_value", "for (_, value) in v { f(value)? }")
    fn = ast.fn(PP, "populate_with_new_key", impl_self="Plurals")
    if fn is not None:
        from rules import absint
        from rules.absint import AEval, C, CF, A, T, L
        this = CF("Plurals", forms=L(T(C("Zero"), A("vz")), T(C("One"), A("vo")), T(C("Few"), A("vf"))), other=A("vother"), rule_type=C("Ordinal"), count_key=A("ck"))
        v = AEval(funcs={}).run_fn(fn, [this, A("new_key"), A("args"), A("fk"), A("locale"), A("kp")])
        good = False
        if not isinstance(v, str) and v[0] == "ctor" and v[1] == "Ok" and v[2] and v[2][0][0] == "ctor" and v[2][0][1] == "Plurals" and v[2][0][2]:
            f = absint.fields_of(v[2][0][2][0])
            forms = sorted((absint.fmt(x[1][0]), absint.fmt(x[1][1])) for x in f.get("forms", ("list", ()))[1]) if f.get("forms", ("",))[0] == "list" else None
            good = forms == [("Few", "vf.populate"), ("One", "vo.populate"), ("Zero", "vz.populate")] and f.get("other") == A("vother.populate") and f.get("count_key") == A("new_key") and f.get("rule_type") == C("Ordinal")
        if good:
            r.inst("Plurals::populate_with_new_key", "other and every form populated, keyed by the same form; rule type kept, count key replaced")
        else:
            r.viol("R1:Plurals::populate_with_new_key", "a plural {zero, one, few; other} (ordinal) is rebuilt as %s: not every form populated under its own form with the same rule type" % (v if isinstance(v, str) else absint.fmt(v)), file=fn.file, line=fn.line)
    return r


def r2_naming(ctx):
    r = Rule("C06.R2", "argument / variable naming agrees between parser and t!",
             "an argument replaces `the variable of that name`: the prefixes are how names are compared", floor=6)
    ast = ctx.ast
    fmt = {}
    for fname in ("parse_foreign_key_args_inner", "find_variable", "find_closing_tag"):
        fn = ast.fn(PV, fname, impl_self="ParsedValue")
        if fn is None:
            r.missing(fname)
            continue
        from rules import sem
        lits = []
        # the function with its private single-purpose helpers inlined: the prefix may be applied in a helper
        for m in find_all(sem.nbody(ast, fn), "Macro"):
            if m["path"] == "format" and m.get("args") and m["args"][0]["k"] == "Lit":
                lits.append(m["args"][0].get("str"))
        fmt[fname] = lits
    want = {"parse_foreign_key_args_inner": "var_{}", "find_variable": "var_{}", "find_closing_tag": "comp_{}"}
    for k, w in want.items():
        # every name built in the function carries the one prefix of its kind (how often it is written does not matter)
        if not fmt.get(k) or set(fmt[k]) != {w}:
            r.viol("R2:" + k, "name prefixes in %s are %s, expected %s" % (k, fmt.get(k), w), file=PV)
        else:
            r.inst(k, "prefix " + w)
    fn = ast.fn("leptos_i18n_macro/src/t_macro/interpolate.rs", "format_ident", impl_self="InterpolatedValue")
    if fn is None:
        r.missing("t! InterpolatedValue::format_ident")
    else:
        from rules import absint
        from rules.absint import AEval, A, B
        got = {}
        for variable in (True, False):
            v = AEval(funcs={}).run_fn(fn, [A("name"), B(variable)])
            got[variable] = v[1] if not isinstance(v, str) and v[0] == "tok" else (v if isinstance(v, str) else absint.fmt(v))
        if got != {True: "var_name", False: "comp_name"}:
            r.viol("R2:t!#format_ident", "t! builds argument setters as %s (expected var_<name> for variables, comp_<name> for components)" % got, file=fn.file, line=fn.line)
        else:
            r.inst("t! format_ident", "var_<name> / comp_<name>")
    c = ast.const(PM, "VAR_COUNT_KEY")
    val = c["expr"].get("str") if c else None
    if val != "var_count":
        r.viol("R2:VAR_COUNT_KEY", "VAR_COUNT_KEY is %r" % val, file=PM)
    for (f, ty) in ((PR, "Ranges"), (PP, "Plurals")):
        fn = ast.fn(f, "populate", impl_self=ty)
        t = flat(show(fn.body)) if fn else ""
        m = re.search(r'args\.get\((.*?)\)', t)
        # (the count is looked up under the plural's / range's own count key - `count` unless renamed; decided by the populate
        # evaluation of R0 on a plural whose count is called `n`; here only: the lookup is not a constant other than that)
        if m and m.group(1) in ('"%s"' % val, "VAR_COUNT_KEY"):
            r.viol("R2:%s::populate#count-arg" % ty, "the count argument is looked up under the fixed name %s: a count renamed by an earlier reference (`{\"count\": \"{{ n }}\"}`) can then no longer be supplied as `n` (%r)" % (m.group(1) if m else None, val), file=f)
        else:
            r.inst("%s::populate" % ty, "args.get(%s) == VAR_COUNT_KEY" % m.group(1))
    fn = ast.fn("leptos_i18n_parser/src/utils/key.rs", "count", impl_self="Key")
    t = flat(show(fn.body)) if fn else ""
    if not has(t, "Self::new(VAR_COUNT_KEY)"):
        r.viol("R2:Key::count", "Key::count is not built from VAR_COUNT_KEY", file="leptos_i18n_parser/src/utils/key.rs")
    else:
        r.inst("Key::count", "Key::new(VAR_COUNT_KEY)")
    return r


def roots(body, op):
    """parameters (locals 1..arg_count) an operand derives from through copies / reborrows"""
    p = op_place(op)
    if p is None:
        return set()
    ls, _ = backward_slice(body, p["l"])
    return {l for l in ls if 1 <= l <= body.arg_count}


def r3_locale_consistency(ctx, prog):
    r = Rule("C06.R3", "one locale per resolution step; resolve before populate; every reference recorded and visited",
             "`renders exactly what the referenced key renders in the same locale`: looking the target up in one locale and "
             "resolving or populating it under another mixes locales, and only for shapes (null targets, nested references) "
             "the fixtures do not contain", floor=5)
    b = prog.body("ParsedValue::resolve_foreign_key_inner")
    if b is None:
        r.missing("resolve_foreign_key_inner")
        return r
    names = {i: b.local_name(i) for i in range(1, b.arg_count + 1)}
    P = {v: k for k, v in names.items()}
    need = ["foreign_key", "values", "top_locale", "default_locale"]
    if any(n not in P for n in need):
        r.viol("R3:resolve_foreign_key_inner#params", "parameters are %s, expected %s" % (names, need), file=b.file, line=b.line)
        return r
    # which locale each lookup / nested resolution / substitution uses, and how a null target falls back, is decided by
    # evaluation (C06.R0, rules/fkeval.py): the resolution step is interpreted on every target kind x inherits table shape.
    # a private helper extracted from this function (single caller) is part of it: a call to such a helper counts as what it does
    root = M._root(b.name)
    M.owner_of(prog, b.name)        # (fills prog._callers)
    owned = {n2 for n2, bb in prog.bodies.items() if bb.crate == b.crate and M._root(n2) != root and prog._callers.get(M._root(n2)) == {root}
             and not getattr(prog.bodies.get(M._root(n2)), "is_pub", True)}

    def sites(rx):
        out = list(M.call_blocks(b, rx))
        for i2, t2 in b.calls():
            cn = callee_name(t2) or ""
            tgt = [n2 for n2 in owned if cn and (n2 == cn or n2.endswith("::" + cn.split("::")[-1]) and cn.split("::")[-1] == n2.split("::")[-1])]
            if tgt and any(M.call_blocks(prog.bodies[n3], rx) for n3 in owned if M._root(n3) in {M._root(x) for x in tgt}) and i2 not in out:
                out.append(i2)
        return sorted(out)
    gv = sites(r"locale::LocalesOrNamespaces::get_value_at$")
    if gv:
        r.inst("resolve_foreign_key_inner#lookup", "%d lookup site(s) through LocalesOrNamespaces::get_value_at" % len(gv))
    else:
        r.viol("R3:resolve_foreign_key_inner#lookup", "the target is no longer looked up through LocalesOrNamespaces::get_value_at", file=b.file, line=b.line)
    # order (every nested reference resolved before the substitution) is observed by the evaluation: C06.R0 `#order`
    pop = sites(r"ParsedValue::populate$")
    # stored
    sets = M.agg_blocks(b, "parsed_value::ForeignKey", "Set")
    rep = M.call_blocks(b, r"std::mem::replace$")
    set_locals = {s2["place"]["l"] for i2, j2, s2 in b.aggregates("parsed_value::ForeignKey", "Set")}
    stores = [i2 for i2, j2, s2 in b.assigns() if s2["place"]["p"] and s2["rv"]["k"] == "Use" and (op_place(s2["rv"]["ops"][0]) or {}).get("l") in set_locals]
    if sets and (rep or stores) and pop and b.dominates(pop[0], sets[0]):
        r.inst("resolve_foreign_key_inner#store", "ForeignKey::Set(populated value) replaces the cell content")
    else:
        r.viol("R3:resolve_foreign_key_inner#store", "the populated value is not stored as ForeignKey::Set", file=b.file, line=b.line)
    # who creates NotSet
    sites = sorted({name for name, bb in prog.bodies.items() if bb.crate in ("leptos_i18n_parser", "leptos_i18n_macro") and "Clone>::clone" not in name and any(True for _ in bb.aggregates("parsed_value::ForeignKey", "NotSet"))})
    if sites != ["leptos_i18n_parser::parse_locales::parsed_value::ForeignKey::new"]:
        r.viol("R3:who#ForeignKey::NotSet", "unresolved foreign keys are created in %s (must be ForeignKey::new only, which records the path)" % sites, file=PV)
    else:
        r.inst("who creates ForeignKey::NotSet", "ForeignKey::new only")
    nb = prog.body("parsed_value::ForeignKey::new")
    if nb is None or not M.call_blocks(nb, r"ForeignKeysPaths::push_path$") or not M.must_pass(nb, M.call_blocks(nb, r"ForeignKeysPaths::push_path$"), nb.return_blocks()):
        r.viol("R3:ForeignKey::new#records", "ForeignKey::new does not always record the path of the new reference", file=PV)
    else:
        r.inst("ForeignKey::new", "push_path(locale, current_key_path) on every path")
    fn = ctx.ast.fn(PM, "resolve_foreign_keys")
    if fn is None:
        r.missing("resolve_foreign_keys")
    else:
        from rules import absint
        from rules.absint import AEval, C, A, T, L, UNIT

        def S(x):
            return ("str", x)
        log = []

        def resolve(rv, a):
            log.append((rv,) + tuple(a))
            return C("Ok", UNIT)
        ev = AEval(funcs={}, builtins={"resolve_foreign_key": resolve, "unwrap_at": lambda rv, a: (rv[2][0] if rv[0] == "ctor" and rv[1] in ("Some", "Ok") else rv)})
        # (the value at the recorded path, and - where a form was merged away - the plural it now sits in: p3 exists at both, every candidate
        # is resolved; a path found nowhere is the `unwrap_at` panic, not modelled here)
        ev.path_builtins = {"get_value_at_path": lambda a: C("Some", A("value@(%s,%s)" % (absint.fmt(a[1]), absint.fmt(a[2])))),
                            "get_value_at_plural_path": lambda a: C("Some", A("plural@(%s,%s)" % (absint.fmt(a[1]), absint.fmt(a[2])))) if a[2] == A("p3") else C("None")}
        ev.builtins["get_value_at"] = lambda rv, a: C("Some", A("value@(%s,%s)" % (absint.fmt(a[0]), absint.fmt(a[1]))))
        paths = L(T(S("fr"), A("p1")), T(S("en"), A("p2")), T(S("fr"), A("p3")))
        pv = {"values": A("values"), "default_locale": S("en"), "foreign_keys_paths": paths, "extensions": A("inherits")}
        pn = fn.params()
        v = ev.run_fn(fn, [pv.get(x, A(x)) for x in pn])
        want = [(A("value@(fr,p1)"), A("values"), S("fr"), S("en"), A("p1")), (A("value@(en,p2)"), A("values"), S("en"), S("en"), A("p2")), (A("value@(fr,p3)"), A("values"), S("fr"), S("en"), A("p3"))]
        # (the inherits table, when the function has it, is handed on unchanged)
        log = [tuple(x for x in c if x != A("inherits")) for c in log if "extensions" not in pn or A("inherits") in c]
        log = [c for c in log if c[0] != A("plural@(fr,p3)")]
        # a recorded path that exists both as a key and as a form merged into a plural (`a_one` next to `a_one_one` / `a_one_other`: the
        # recorded `a_one` now names the other plural, the reference sits in a form of `a`): both values must be resolved.  Evaluated with
        # the real lookup helper over concrete key paths
        from rules.absint import CF as _CF
        from rules import absint as _ab2
        Kq = lambda n_: _CF("Key", name=S(n_))  # noqa: E731
        KPq = lambda *ns: _CF("KeyPath", namespace=C("None"), path=L(*[Kq(x) for x in ns]))  # noqa: E731
        store = {("grp", "a_one"): A("the-other-plural"), ("grp", "a"): A("the-plural-holding-the-form"), ("plain_key",): A("plain")}
        log2 = []

        def gva2(rv, a):
            names_ = tuple(_ab2.fields_of(x)["name"][1] for x in _ab2.fields_of(a[1])["path"][1])
            return C("Some", store[names_]) if names_ in store else C("None")
        ev2 = AEval(funcs=_ab2.file_funcs(ctx.ast, PM), builtins={"resolve_foreign_key": lambda rv, a: (log2.append(rv), C("Ok", UNIT))[1], "get_value_at": gva2,
                                                              "unwrap_at": lambda rv, a: (rv[2][0] if rv[0] == "ctor" and rv[1] in ("Some", "Ok") and rv[2] else rv)})
        import re as _re2
        ev2.path_builtins = {"Key::new": lambda a: C("Some", Kq(a[0][1])) if a[0][0] == "str" and _re2.match(r"^[A-Za-z_][A-Za-z0-9_]*$", a[0][1]) else C("None")}
        pv2 = {"values": A("values"), "default_locale": S("en"), "foreign_keys_paths": L(T(S("en"), KPq("plain_key")), T(S("en"), KPq("grp", "a_one"))), "extensions": A("inherits")}
        v2 = ev2.run_fn(fn, [pv2.get(x, A(x)) for x in pn])
        if isinstance(v2, str):
            r.viol("R3:resolve_foreign_keys#undecided", "cannot be interpreted on concrete key paths (%s): not decided (fail closed)" % v2[:200], file=PM)
        elif sorted(map(repr, log2)) != sorted(map(repr, [A("plain"), A("the-other-plural"), A("the-plural-holding-the-form")])):
            r.viol("R3:resolve_foreign_keys#both-candidates", "recorded paths `plain_key` and `grp.a_one` (where `grp.a_one` is now another merged plural and the recorded form sits in the plural `grp.a`): resolved %s; "
                   "expected the plain key, and both the value now at `grp.a_one` and the plural `grp.a` - a reference left unresolved in a form panics code generation" % [_ab2.fmt(x) for x in log2], file=PM)
        else:
            r.inst("resolve_foreign_keys#both-candidates", "a recorded path shadowed by another merged plural: the value at the path and the plural holding the form are both resolved")
        if v == C("Ok", UNIT) and log == want:
            r.inst("resolve_foreign_keys", "for every recorded (locale, path): value.resolve_foreign_key(values, &locale, default_locale, &path)")
        else:
            r.viol("R3:resolve_foreign_keys#all-paths", "resolve_foreign_keys no longer resolves every recorded (locale, path) in its own locale: result %s, calls %s" % (v if isinstance(v, str) else absint.fmt(v), [[absint.fmt(x) for x in c] for c in log]), file=PM)
    return r


def r4_order(ctx, prog):
    r = Rule("C06.R4", "merge_plurals, then resolve_foreign_keys, then check_locales",
             "references to plural keys exist only after merging; reduce()/indexing in check_locales need resolved references", floor=3)
    b = prog.body("parse_locales::make_builder_keys")
    if b is None:
        r.missing("make_builder_keys")
        return r
    mp = M.call_blocks(b, r"LocalesOrNamespaces::merge_plurals$")
    rf = M.call_blocks(b, r"parse_locales::resolve_foreign_keys$")
    cl = M.call_blocks(b, r"parse_locales::check_locales$")
    if len(mp) == len(rf) == len(cl) == 1 and b.dominates(mp[0], rf[0]) and b.dominates(rf[0], cl[0]):
        r.inst("make_builder_keys", "merge_plurals (bb%d) dominates resolve_foreign_keys (bb%d) dominates check_locales (bb%d)" % (mp[0], rf[0], cl[0]))
    else:
        r.viol("R4:make_builder_keys#order", "the three passes are not in the order merge_plurals -> resolve_foreign_keys -> check_locales", file=b.file, line=b.line)
    t = b.blocks[rf[0]]["term"] if rf else None
    if t is not None:
        d = op_place(t["args"][1])
        if d is None or not M.derives_from_field(b, prog, d["l"], "cfg_file::ConfigFile", "default"):
            r.viol("R4:make_builder_keys#default", "resolve_foreign_keys is not given cfg_file.default as the default locale", file=b.file, line=t["line"])
        else:
            r.inst("make_builder_keys#default", "default locale = cfg_file.default")
    from rules import fkeval, absint as _absint
    try:
        # decided by evaluating get_value_at_path against is_possible_plural (the recorded path first, then exactly the merged key)
        fkeval.check_plural_path(ctx, r, "R4")
    except _absint.Unknown as u:
        r.viol("R4:get_value_at_path#undecided", "cannot be interpreted on the current code (%s): not decided on this tree (fail closed)" % str(u)[:300], file=PM)
    return r


def r5_inherits(ctx, prog):
    r = Rule("C06.R5", "a null target falls back along `inherits`",
             "C03 says a null value means `take the value of the first locale in the inherits chain that defines it`; a foreign "
             "key to such a key must render what the key renders", floor=1)
    b = prog.body("ParsedValue::resolve_foreign_key_inner")
    chk = prog.body("parse_locales::resolve_foreign_keys")
    mk = prog.body("parse_locales::make_builder_keys")
    # does anything derived from ConfigFile.extensions reach the resolver?
    reach = False
    if mk is not None:
        for i, t in mk.calls():
            if (callee_name(t) or "").endswith("parse_locales::resolve_foreign_keys"):
                for a in t["args"]:
                    p = op_place(a)
                    if p and M.derives_from_field(mk, prog, p["l"], "cfg_file::ConfigFile", "extensions"):
                        reach = True
    params = [b.local_name(i) for i in range(1, b.arg_count + 1)] if b else []
    r.inst("resolve_foreign_key_inner#fallback-source", "parameters %s; inherits table passed to the resolver: %s" % (params, reach))
    if not reach:
        r.viol("R5:resolve_foreign_key_inner#fallback-ignores-inherits", "the resolver only knows the default locale: with `fr-CA inherits fr`, `a: null` in fr-CA and `b: \"$t(a)\"`, b renders the default locale's text while a itself renders fr's", file=PV)
    return r


def r6_lookup(ctx, prog):
    r = Rule("C06.R6", "namespace dispatch of lookups; reference errors stay reachable",
             "`does not depend on namespaces` / `subkey paths`; unresolved, subkey and cyclic references must be rejected", floor=6)
    from rules import fkeval, absint as _absint
    try:
        fkeval.check_lookup(ctx, r, "R6")
    except _absint.Unknown as u:
        r.viol("R6:get_value_at#undecided", "the lookup cannot be interpreted on the current code (%s): not decided on this tree (fail closed)" % str(u)[:300], file=PL)
    fn = ctx.ast.fn(PV, "parse_key_path", impl_self="ParsedValue")
    if fn is None:
        r.missing("ParsedValue::parse_key_path")
    else:
        # evaluated: `ns:a.b.c` -> namespace ns, path [a, b, c] in order; no `:` -> no namespace; an invalid segment -> None
        from rules.absint import AEval as _AE, C as _C, CF as _CF, L as _L
        _S = lambda x: ("str", x)  # noqa: E731
        _K = lambda n: _CF("Key", name=_S(n))  # noqa: E731
        want = {"a": (None, ["a"]), "a.b.c": (None, ["a", "b", "c"]), "ns:a.b": ("ns", ["a", "b"]), "my_ns:k": ("my_ns", ["k"]), " a . b ": (None, ["a", "b"]), "a..b": None, "ns:": None, ":a": None, "": None, "a.b-c": None}
        _absint.set_program(ctx.ast)
        badp = None
        try:
            for text_, w in want.items():
                ev = _AE(funcs={})
                ev.path_builtins = {"Key::new": lambda a: _C("Some", _K(a[0][1].strip())) if a[0][0] == "str" and re.match(r"^[A-Za-z_][A-Za-z0-9_]*$", a[0][1].strip()) else _C("None")}
                got = ev.run_fn(fn, [_S(text_)])
                if isinstance(got, str):
                    raise _absint.Unknown(got)
                wv = _C("None") if w is None else _C("Some", _CF("KeyPath", namespace=_C("Some", _K(w[0])) if w[0] else _C("None"), path=_L(*[_K(x) for x in w[1]])))
                if got != wv and badp is None:
                    badp = "`$t(%s)` names %s, the documented syntax says %s" % (text_, _absint.fmt(got)[:160], _absint.fmt(wv)[:160])
            if badp:
                r.viol("R6:parse_key_path", badp, file=PV, line=fn.line)
            else:
                r.inst("parse_key_path", "%d spellings: `ns:a.b.c` -> namespace ns, path [a, b, c] in order; segments trimmed; an empty or invalid segment rejects the reference" % len(want))
        except _absint.Unknown as u:
            r.viol("R6:parse_key_path#undecided", "cannot be interpreted on the current code (%s): not decided on this tree (fail closed)" % str(u)[:200], file=PV, line=fn.line)
    # ... and a reference whose path is rejected is an *error*, in every build - not "no reference here" (which leaves `$t(1)` and every
    # later reference of the value in the text): find_foreign_key evaluated on `$t(1) and $t(x)`, `$t(my key)`, `$t(a..b)`
    ffk = ctx.ast.fn(PV, "find_foreign_key", impl_self="ParsedValue")
    if ffk is None:
        r.missing("ParsedValue::find_foreign_key")
    else:
        from rules.absint import AEval as _AE2, C as _C2, CF as _CF2, A as _A2
        _S2 = lambda x: ("str", x)  # noqa: E731
        bad_ = None
        try:
            for text_ in ("cost $t(1) and $t(x)", "$t(my key)", "$t(a..b)", "$t(ns:)"):
                ev = _AE2(funcs=_absint.file_funcs(ctx.ast, PV, impl_self="ParsedValue"))
                ev.macros = _absint.file_macros(ctx.ast, PV)
                ev.path_builtins = {"Key::new": lambda a: _C2("Some", _CF2("Key", name=_S2(a[0][1].strip()))) if a[0][0] == "str" and re.match(r"^[A-Za-z_][A-Za-z0-9_]*$", a[0][1].strip()) else _C2("None")}
                got = ev.run_fn(ffk, [_S2(text_), _A2("key_path"), _A2("locale"), _A2("fkp")])
                if isinstance(got, str):
                    raise _absint.Unknown(got)
                is_err = got[0] == "ctor" and got[1] == "Some" and got[2] and got[2][0][0] == "ctor" and got[2][0][1] == "Err"
                if not is_err and bad_ is None:
                    bad_ = "`%s`: find_foreign_key answers %s - the reference is neither resolved nor rejected, it stays in the text" % (text_, _absint.fmt(got)[:120])
            if bad_:
                r.viol("R6:find_foreign_key#invalid-path", bad_, file=PV, line=ffk.line)
            else:
                r.inst("find_foreign_key#invalid-path", "4 references with a path that is not made of keys: an error each (with Key::new validating identifiers, as in the macro build)")
        except _absint.Unknown as u:
            r.viol("R6:find_foreign_key#undecided", "cannot be interpreted on the current code (%s): not decided on this tree (fail closed)" % str(u)[:200], file=PV, line=ffk.line)
    for v in ("MissingForeignKey", "InvalidForeignKey", "RecursiveForeignKey", "InvalidForeignKeyArgs", "InvalidCountArg", "InvalidCountArgType", "CountArgOutsideRange"):
        sites = sorted({n for n, bb in prog.bodies.items() if bb.crate == "leptos_i18n_parser" and "fmt::" not in n and any(True for _ in bb.aggregates("error::Error", v))})
        if sites:
            r.inst("Error::" + v, "constructed in " + ", ".join(s.split("::")[-1] for s in sites))
        else:
            r.viol("D:Error::" + v, "Error::%s has no construction site left" % v, file=PV)
    return r


def run(ctx):
    prog = ctx.mir("main")
    # a literal `count` argument selects the branch at parse time: that selection must agree with what the referenced range
    # renders at run time for the same count (the do_match clauses of C04.R1, decided by rules/c04.py)
    from rules import c04
    from rules.common import borrow
    r7 = borrow(c04.r1_semantics(ctx), "C06.R7", "a literal count passed to a range reference selects the branch the range itself renders",
                "`$t(range, {\"count\": 1.0})` is resolved at parse time by Range::do_match; if its bound semantics differ from the generated "
                "run-time patterns the reference shows another branch than the key it refers to", only=r"do_match", floor=3)
    r0, ok, why = r0_substitution(ctx)
    import os
    # a number supplied as an argument becomes part of the surrounding text when the value is reduced: its text must be the one the
    # variable would render for the same number (Display: the float 2.0 is `2`) - the Literal::join / Display clauses of C01.R3
    from rules import c01
    r8 = borrow(c01.r3_join(ctx), "C06.R8", "a numeric argument is spliced in with the text the variable would render",
                "`each supplied argument replacing the variable of that name`: `$t(k, {\"x\": 2.0})` must read like `{{ x }}` rendered with x = 2.0; "
                "joining the number into the text with another formatting (Debug: `2.0`) shows a different text", only=r"Literal", floor=2)
    rest = [r2_naming(ctx), r3_locale_consistency(ctx, prog), r4_order(ctx, prog), r5_inherits(ctx, prog), r6_lookup(ctx, prog), r7, r8]
    if ok and not os.environ.get("VERIF_FORCE_FALLBACK"):
        return [r0] + rest
    if not ok and not r0.violations:
        r0.instances[:] = []
        r0.inst("evaluation not available", "fallback to the structural rule R1: %s" % str(why)[:200])
        r0.viol("R0:undecided", "the evaluation cannot interpret the current code (%s): the clauses it decides are NOT decided on this tree; the structural rules reported alongside only cover part of them (fail closed)" % str(why)[:300])
        r0.floor = 1
    return [r0, r1_traversals(ctx)] + rest


def r0_substitution(ctx):
    """abstract evaluation of populate / resolve_foreign_key_inner / resolve_foreign_key (rules/fkeval.py)"""
    from rules import fkeval, absint
    r = Rule("C06.R0", "references are pure substitution: populate, the resolution step and the traversal evaluated on every kind of value",
             "`$t(path, {args})` renders exactly what the referenced key renders, with each supplied argument replacing the variable of that "
             "name wherever that variable comes from (a literal count fixes the branch, a `{{ var }}` count renames the count variable) ... "
             "references that cannot be resolved, point at a subkey group, or are cyclic are rejected", floor=4)
    try:
        a = fkeval.check_populate(ctx, r)
        b = fkeval.check_inner(ctx, r)
        c = fkeval.check_traversal(ctx, r)
        d = fkeval.check_args(ctx, r)
    except absint.Unknown as u:
        return r, False, str(u)
    return r, a and b and c and d, "anchor missing"


MANIFEST_ENTRY = {
    "technique": "static analysis: abstract evaluation (rules/fkeval.py on rules/absint.py) of ParsedValue::populate with its real callees over every kind of value x argument set (oracle: the pure substitution of the statement), of the argument-object parser, of the resolution step resolve_foreign_key_inner over target kinds x inherits tables (chains, cycles, self reference, absent links; oracle: first locale of the chain that defines the target), and of the traversal resolve_foreign_key (every reference cell once, busy cell = cycle); abstract evaluation of the driver and of the naming helpers; MIR dominance ordering of the passes, who-may-construct unresolved references; the parse-time range matcher agrees with the generated patterns (shared with C04.R1); abstract evaluation of the key lookup (LocalesOrNamespaces / Locale::get_value_at on groups nested three deep, two locales, namespaces), of the extent of the argument object in parse_foreign_key_args, of get_value_at_path against is_possible_plural (merged plural key), and the Literal::join / Display clauses of C01.R3 with a float model",
    "level_text": "Finite abstract evaluation + structural: substitution, argument parsing, the resolution step and the traversal are interpreted on one value per constructor shape (and per position of a variable inside it) and compared with the statement; references are shown recorded at creation and all visited, and the pass order is decided by dominance. No project is loaded.",
    "level_note": "Trusted: RefCell borrow semantics for cycle detection (modelled). D11 repaired upstream (44c852c). Not decided: concrete rendered text. Known and undecided (DESIGN 11.17, hunts/C06): a formatter is lost when its variable is replaced by an argument (`$t(price, {\"n\": 1000000})` drops `number`).",
}
