"""C10 Results depend only on translation content, not on order, run or file format."""
import re

from report import Rule
from mirlib import callee_of, op_const
from rules.common import loading_bodies, root_fn
import panics

EXPLANATION = (
    "Static structural analysis of MIR facts and syntax facts; nothing is executed. Decided clauses: (R1) no body of the "
    "parser, the code-generation part of the macro or the build helper iterates a HashMap/HashSet (iter/keys/values/"
    "into_iter/drain/retain/extend-from, iterator adaptors over hash iterators, generic callees instantiated with a hash "
    "collection) - lookups are allowed; two consumer sites in the build helper that treat the result as a set are "
    "allow-listed with a reason. (R2) no ambient input (clock, RNG, environment other than CARGO_MANIFEST_DIR, process "
    "id, directory listing, thread identity) is read in the loading code. (R4) the three file-format front-ends hand "
    "the same seed to DeserializeSeed::deserialize and exactly one is selected; the shared Visitor implements the full "
    "set of scalar/sequence/map callbacks. (R5) no data structure of the parser stores keys in a hash collection other "
    "than the lookup-only StringIndexer.current. NOT decided: that serde_json / json5 / serde_yaml deliver the same "
    "events for the same logical content, numeric literal typing across formats, and the concrete generated text."
)
ASSUMPTIONS = [
    "BTreeMap/BTreeSet/Vec iteration is deterministic; HashMap/HashSet iteration is not (RandomState)",
    "serde front-ends are deterministic functions of the file bytes",
    "thread-local SKIP_ICU_CFG is set from the function argument at entry (SkipIcuCfgGuard), not ambient state",
]

HASH_ITER_METHODS = r"(iter|iter_mut|keys|values|values_mut|into_keys|into_values|drain|retain|extract_if|union|intersection|difference|symmetric_difference|into_iter)"
RX_HASH_ITER = [
    re.compile(r"std::collections::Hash(Map|Set)::<[^>]*(<[^>]*>[^>]*)*>::" + HASH_ITER_METHODS + r"$"),
    re.compile(r"std::collections::hash_(map|set)::(Iter|IterMut|IntoIter|Keys|Values|ValuesMut|IntoKeys|IntoValues|Drain|Union|Intersection|Difference|SymmetricDifference|ExtractIf)\b"),
    re.compile(r"^<&?(mut )?std::collections::Hash(Map|Set)<.*> as std::iter::IntoIterator>::into_iter$"),
]
RX_HASH_TYPE = re.compile(r"std::collections::Hash(Map|Set)<")
RX_ORDER_FREE_SET = re.compile(r"std::collections::(HashSet|hash_set::\w+)<(&?'?\w* ?)?(leptos_i18n_build::datakey::Options|icu_provider::(\w+::)*DataKey|icu_datagen::(\w+::)*DataKey)\b")
RX_OTHER_HASH = re.compile(r"std::collections::(Hash(Map|Set)<|hash_(map|set)::)")

# generic callees instantiated with a hash collection as a type argument (they may iterate it)
ALLOW_HASH_CONSUMERS = {
    ("leptos_i18n_build::TranslationsInfos::get_icu_keys", "leptos_i18n_build::datakey::get_keys"):
        "get_icu_keys returns the ICU data keys as an unordered collection; its consumer build_datagen_driver_with_data_keys collects them into a HashSet again, so the order is never observable in generated data",
    ("leptos_i18n_build::TranslationsInfos::build_datagen_driver_with_data_keys", "icu_datagen::DatagenDriver::with_keys"):
        "ICU4X's DatagenDriver::with_keys takes a set of keys (IntoIterator collected into its own HashSet)",
    ("leptos_i18n_build::TranslationsInfos::build_datagen_driver_with_data_keys", "std::iter::Iterator::collect"):
        "collecting the data keys into a HashSet<DataKey> (order-free) before handing them to ICU4X",
    ("leptos_i18n_build::TranslationsInfos::build_datagen_driver_with_data_keys", "std::iter::Extend::extend"):
        "extending that HashSet<DataKey> with caller supplied keys",
}

AMBIENT = [
    (re.compile(r"^std::env::(var|var_os|vars|vars_os|args|args_os|current_dir|current_exe|temp_dir|home_dir)$"), "environment"),
    (re.compile(r"^std::time::(SystemTime|Instant)::now$"), "clock"),
    (re.compile(r"^std::process::id$"), "process id"),
    (re.compile(r"^std::fs::read_dir$|^std::path::Path::read_dir$"), "directory listing order"),
    (re.compile(r"^std::thread::(current|spawn|sleep)$"), "thread identity/schedule"),
    (re.compile(r"(^|::)rand(om)?::|getrandom|RandomState::new|fastrand"), "random numbers"),
    (re.compile(r"^std::ptr::addr|as_ptr$"), "addresses"),
]


def names_of(term):
    c = op_const(term["func"])
    if not c or "fn" not in c:
        return []
    return [x for x in (c.get("resolved"), c["fn"], c.get("fn_full")) if x]


def r1_unordered(ctx, cfgs):
    r = Rule("C10.R1", "no iteration over HashMap/HashSet in loading code",
             "iteration order of a hash collection differs between runs (RandomState); anything derived from it "
             "(indices, generated code, diagnostics order) would make the outcome depend on the run", floor=400)
    for cfg in cfgs:
        prog = ctx.mir(cfg)
        n_calls = 0
        for b in loading_bodies(prog):
            for i, t in b.calls(cleanup=True):
                n_calls += 1
                names = names_of(t)
                if not names:
                    continue
                hit = None
                for n in names:
                    if any(rx.search(n) for rx in RX_HASH_ITER):
                        hit = n
                        break
                generic_hash = None
                full = op_const(t["func"]).get("fn_full", "")
                m = re.search(r"::<(.*)>$", full)
                if hit is None and RX_HASH_TYPE.search(full):
                    # hash collection appears as a generic argument of the callee or as the Self of a trait call
                    base = op_const(t["func"])["fn"]
                    lookups = re.compile(r"Hash(Map|Set)::<.*>::(new|with_capacity|get|get_mut|get_key_value|insert|contains|contains_key|remove|entry|clear|len|is_empty|reserve|shrink_to_fit|capacity|take|replace|get_or_insert_with)$")
                    if lookups.search(full) or re.search(r"as std::(default::Default|clone::Clone|fmt::Debug|cmp::PartialEq)>", full) or "drop_in_place" in full:
                        pass
                    else:
                        generic_hash = base
                if hit or generic_hash:
                    key = (root_fn(b.name), generic_hash or op_const(t["func"])["fn"])
                    why = ALLOW_HASH_CONSUMERS.get(key)
                    if not why and RX_ORDER_FREE_SET.search(full or "") and not RX_OTHER_HASH.search(RX_ORDER_FREE_SET.sub("", full or "")) and b.crate == "leptos_i18n_build":
                        # the set of ICU data options / data keys of the build helper: it ends in DatagenDriver::with_keys, which takes a
                        # set; C20 decides its content, no generated code or diagnostic depends on its order
                        r.inst("%s -> %s" % (b.name, (full or names[0])[:120]), "order-free by construction: a hash set of ICU data options / data keys (consumed as a set by icu_datagen)", cfg=cfg)
                        continue
                    site = "%s -> %s" % (b.name, full or names[0])
                    if why and not (hit and "hash_" in hit and key[1] not in ("std::iter::Iterator::collect", "std::iter::Extend::extend")):
                        r.inst(site, "allow-listed hash consumer: " + why, cfg=cfg)
                    else:
                        r.viol("R1:%s#%s" % key, "hash collection is iterated or handed to a generic consumer: %s (line %d) [cfg %s]" % (full or names[0], t["line"], cfg),
                               file=b.file, line=t["line"])
        r.inst("cfg:%s" % cfg, "%d call sites in %d loading bodies scanned for hash iteration" % (n_calls, len(loading_bodies(prog))), cfg=cfg)
        for b in loading_bodies(prog):
            r.inst(b.name, "body scanned", cfg=cfg)
    return r


def r2_ambient(ctx, cfgs):
    r = Rule("C10.R2", "no ambient inputs in loading code",
             "a clock, RNG, environment variable, process id or directory listing read while loading would make the "
             "result depend on something other than the configuration and files", floor=2)
    for cfg in cfgs:
        prog = ctx.mir(cfg)
        n = 0
        for b in loading_bodies(prog):
            for i, t in b.calls(cleanup=True):
                for name in names_of(t)[:2]:
                    for rx, what in AMBIENT:
                        if rx.search(name):
                            n += 1
                            if name == "std::env::var":
                                arg = panics.const_str_arg(b, t, 0)
                                if arg == "CARGO_MANIFEST_DIR" and b.name.endswith("parse_locales::get_manifest_dir"):
                                    r.inst(b.name, "env::var(\"CARGO_MANIFEST_DIR\"): the crate directory cargo passes to build scripts and proc macros - the documented location of the configuration", cfg=cfg)
                                    break
                            r.viol("R2:%s#%s" % (root_fn(b.name), name), "ambient input (%s) read in loading code: %s line %d" % (what, name, t["line"]), file=b.file, line=t["line"])
                            break
                    else:
                        continue
                    break
        r.inst("cfg:%s" % cfg, "scanned; %d ambient-API call(s) seen" % n, cfg=cfg)
    return r


def r4_frontends(ctx):
    r = Rule("C10.R4", "file-format front-ends are siblings over one visitor",
             "if one format passed a different seed, or the visitor lacked a callback one format uses, the same data "
             "would load differently (or fail) depending on the file format", floor=5)
    ast = ctx.ast
    from astlib import find_all, show, callee_path
    f = "leptos_i18n_parser/src/parse_locales/locale.rs"
    seeds = {}
    for name in ("de_inner_json", "de_inner_yaml", "de_inner_json5"):
        fn = ast.fn(f, name)
        if fn is None:
            r.missing("fn " + name)
            continue
        calls = [c for c in find_all(fn.body, "Call") if (callee_path(c) or "").endswith("DeserializeSeed::deserialize")]
        if len(calls) != 1:
            r.viol("R4:%s#deserialize" % name, "%s must call DeserializeSeed::deserialize exactly once (found %d)" % (name, len(calls)), file=fn.file, line=fn.line)
            continue
        a0 = show(calls[0]["args"][0])
        params = fn.params()
        seeds[name] = a0
        r.inst(name, "DeserializeSeed::deserialize(%s, ..)" % a0)
        if a0 != "seed" or "seed" not in params:
            r.viol("R4:%s#seed" % name, "%s does not pass its `seed` parameter unchanged to DeserializeSeed::deserialize (passes `%s`)" % (name, a0), file=fn.file, line=calls[0]["line"])
    fn = ast.fn(f, "de_inner")
    if fn is None:
        r.missing("fn de_inner")
    else:
        # evaluated (rules/absint.py): with exactly one file-format feature on, de_inner hands (locale_file, seed) unchanged
        # to that format's front-end and returns what it returns
        from rules import absint
        from rules.absint import AEval, A, B, C
        want = {"json_files": "de_inner_json", "yaml_files": "de_inner_yaml", "json5_files": "de_inner_json5"}
        for feat, front in want.items():
            calls = []
            ev = AEval(inputs=[(r'^cfg!feature="%s"$' % ft, B(ft == feat)) for ft in want], funcs={})
            ev.path_builtins = {nm: (lambda a, nm=nm: (calls.append((nm, tuple(a))), C("Ok", A("locale-from-" + nm)))[1]) for nm in want.values()}
            got = ev.run_fn(fn, [A("locale_file"), A("seed")])
            if isinstance(got, str):
                r.viol("R4:de_inner#" + feat, "de_inner cannot be evaluated with feature %s: %s" % (feat, got), file=fn.file, line=fn.line)
            elif calls != [(front, (A("locale_file"), A("seed")))] or got != C("Ok", A("locale-from-" + front)):
                r.viol("R4:de_inner#" + feat, "with feature %s de_inner calls %s and returns %s; expected %s(locale_file, seed) and its result" % (feat, [(c[0], [absint.fmt(x) for x in c[1]]) for c in calls], absint.fmt(got), front), file=fn.file, line=fn.line)
            else:
                r.inst("de_inner[%s]" % feat, "-> %s(locale_file, seed), result returned unchanged" % front)
    # visitor callback set
    need = {"visit_str", "visit_bool", "visit_i64", "visit_u64", "visit_f64", "visit_map", "visit_unit", "visit_seq"}
    have = {fn.name for fn in ast.fns if fn.file.endswith("parse_locales/parsed_value.rs") and fn.impl_self and fn.impl_self.startswith("ParsedValueSeed") and fn.impl_trait and "Visitor" in fn.impl_trait}
    r.inst("Visitor for ParsedValueSeed", "callbacks: " + ", ".join(sorted(have)))
    for m in sorted(need - have):
        r.viol("R4:visitor#" + m, "Visitor for ParsedValueSeed lacks %s: a format that delivers this event would be rejected while another accepts the same data" % m)
    # the JSON5 front-end is a third-party crate whose string decoding is part of "the same data gives the same text": the locked source is
    # read (py/depsrc.py) for the one expression known to be wrong in 0.4.x - the join of a `\\uD8xx\\uDCxx` surrogate pair
    try:
        import depsrc
        ver_, d_ = depsrc.crate_dir(ctx.repo, "json5")
        if d_ is not None:
            src_ = open(d_ + "/src/de.rs").read()
            m_ = re.search(r"let rc = ([^;]*0x1_?0000[^;]*);", src_)
            expr_ = re.sub(r"\s+", "", m_.group(1)) if m_ else None
            if expr_ is None:
                r.inst("json5 %s: surrogate pairs" % ver_, "the join expression of 0.4.x is not in this version's source (not inspected further)")
            elif re.match(r"^\(\(\(rc1-0xD800\)<<10\)\|\(rc2-0xDC00\)\)\+0x1_?0000$", expr_) or re.match(r"^0x1_?0000\+\(", expr_):
                r.inst("json5 %s: surrogate pairs" % ver_, "((hi - 0xD800) << 10 | (lo - 0xDC00)) + 0x10000")
            else:
                r.viol("R4:json5#surrogate-join", "json5 %s joins an escaped surrogate pair as `%s`: `+` binds tighter than `|`, so every escaped code point from U+20000 up loses its plane "
                       "(`\\uD842\\uDFB7` decodes to U+10BB7 instead of U+20BB7) - the same file read as JSON is correct" % (ver_, m_.group(1).strip()), file="Cargo.lock")
    except Exception:  # noqa: BLE001
        pass
    # serde_json's streaming deserializer stops after the first value: only `end()` makes what follows (a second object from a botched
    # merge, stray text) an error, as it is for the JSON5 and YAML loaders, which read the whole input - MIR: the call is on every path
    # from the deserialization to an Ok return
    try:
        prog = ctx.mir("main")
        import mustlib as M
        bj = prog.body("parse_locales::locale::de_inner_json")
        if bj is not None:
            ends = M.call_blocks(bj, r"serde_json::Deserializer::<.*>::end$|serde_json::de::Deserializer::<.*>::end$")
            des = M.call_blocks(bj, r"DeserializeSeed<'de>>::deserialize$")
            oks = M.ok_return_blocks(bj)
            rets = oks or [i_ for i_, t_ in bj.terms() if t_["k"] == "Return"]
            if ends and des and not any(bj.paths_avoiding(d_, rets, ends + M.err_return_blocks(bj)) for d_ in des):
                r.inst("de_inner_json#end", "the JSON loader checks that nothing follows the object (Deserializer::end on every successful path)")
            else:
                r.viol("R4:de_inner_json#trailing", "the JSON loader accepts a file with anything after its first value (no `Deserializer::end()` before the Ok return): the same bytes are an error "
                       "as JSON5 / YAML, and the keys of a second object are silently dropped", file=bj.file, line=bj.line)
    except Exception as ex_:  # noqa: BLE001
        r.viol("R4:de_inner_json#trailing", "could not be decided: %s" % str(ex_)[:120])
    return r


def r5_types(ctx, cfgs):
    r = Rule("C10.R5", "no key-holding structure uses a hash collection",
             "every keyed container of the parser is iterated somewhere (code generation, diagnostics, string indexing); "
             "a hash container would make that order differ between runs", floor=20)
    allow = {("leptos_i18n_parser::parse_locales::StringIndexer", "current"): "lookup-only (get/insert); indices come from acc.len()"}
    for cfg in cfgs:
        prog = ctx.mir(cfg)
        for name, adt in sorted(prog.adts.items()):
            if not adt["local"] or not name.startswith(("leptos_i18n_parser", "leptos_i18n_macro", "leptos_i18n_build")):
                continue
            for v in adt["variants"]:
                for f in v["fields"]:
                    if re.search(r"Hash(Map|Set)<", f["ty"]):
                        why = allow.get((name, f["name"]))
                        if why:
                            r.inst("%s.%s" % (name, f["name"]), "allow-listed: " + why, cfg=cfg)
                        else:
                            r.viol("R5:%s.%s" % (name, f["name"]), "field %s.%s has hash type %s" % (name, f["name"], f["ty"]))
            r.inst(name, "%d variant(s) checked" % len(adt["variants"]), cfg=cfg)
    return r


# containers whose iteration order decides indices, generated code or which diagnostic is reported first: they are
# filled while deserialising (i.e. in file order) and must therefore be sorted collections
SORTED_FIELDS = {
    ("leptos_i18n_parser::parse_locales::locale::Locale", "keys"): "BTreeMap",
    ("leptos_i18n_parser::parse_locales::locale::BuildersKeysInner", "0"): "BTreeMap",
    ("leptos_i18n_parser::parse_locales::locale::BuildersKeys", "keys"): "BTreeMap",
    ("leptos_i18n_parser::parse_locales::locale::InterpolationKeys", "components"): "BTreeSet",
    ("leptos_i18n_parser::parse_locales::locale::InterpolationKeys", "variables"): "BTreeMap",
    ("leptos_i18n_parser::parse_locales::locale::VarInfo", "formatters"): "BTreeSet",
    ("leptos_i18n_parser::parse_locales::locale::DefaultedLocales", "mapping"): "BTreeMap",
    ("leptos_i18n_parser::parse_locales::plurals::Plurals", "forms"): "BTreeMap",
    ("leptos_i18n_parser::parse_locales::cfg_file::ConfigFile", "extensions"): "BTreeMap",
    ("leptos_i18n_parser::parse_locales::ForeignKeysPaths", "0"): "BTreeSet",
    ("leptos_i18n_parser::parse_locales::parsed_value::ForeignKey", "1"): "BTreeMap",
}


def r6_sorted(ctx, cfgs):
    r = Rule("C10.R6", "collections filled in file order are sorted collections",
             "serde delivers map entries in file order; a Vec / insertion-ordered container filled from them and iterated later "
             "(resolution order of foreign keys, first error reported, string indices, generated arms) makes the outcome depend on "
             "the order of keys inside a file", floor=11)
    for cfg in cfgs:
        prog = ctx.mir(cfg)
        for (adt, field), want in sorted(SORTED_FIELDS.items()):
            a = prog.adts.get(adt)
            if a is None:
                r.viol("R6:%s.%s#missing" % (adt, field), "type %s not found (fail closed)" % adt)
                continue
            tys = [f["ty"] for v in a["variants"] for f in v["fields"] if f["name"] == field]
            if not tys:
                r.viol("R6:%s.%s#missing" % (adt, field), "field %s.%s not found (fail closed)" % (adt, field))
                continue
            bad = [t for t in tys if ("std::collections::%s<" % want) not in t and not t.endswith("locale::BuildersKeysInner")]
            if bad:
                r.viol("R6:%s.%s" % (adt, field), "%s.%s is `%s`, must be a %s: its content arrives in file order and is iterated later" % (adt.split("::")[-1], field, bad[0][:90], want))
            else:
                r.inst("%s.%s" % (adt.split("::")[-1], field), want, cfg=cfg)
    return r


def r7_key_order(ctx):
    """the serde visitors that read an object field by field: abstract evaluation (rules/absint.py) on every order of the
    same entries must give the same result"""
    import itertools
    from rules import absint
    from rules.absint import AEval, A, C, CF, L, T, UNIT
    r = Rule("C10.R7", "objects are read independently of the order of their keys",
             "`the same project gives the same code and diagnostics whatever the order of keys inside a file`: a visitor that pairs or "
             "consumes fields as they arrive makes `{value, count}` differ from `{count, value}`", floor=3)
    ast = ctx.ast
    PR_ = "leptos_i18n_parser/src/parse_locales/ranges.rs"
    PLc = "leptos_i18n_parser/src/parse_locales/locale.rs"
    CFGf = "leptos_i18n_parser/src/parse_locales/cfg_file.rs"
    S = lambda x: ("str", x)  # noqa: E731

    def harness(funcs, consts=None):
        def next_key(rv, a):
            ents = absint.fields_of(rv)["entries"][1]
            if not ents:
                return rv, C("Ok", C("None"))
            k, v = ents[0][1]
            return CF("Map", entries=L(*ents[1:]), pending=C("Some", v)), C("Ok", C("Some", k))

        def next_value(rv, a):
            fs = absint.fields_of(rv)
            if fs["pending"][1] != "Some":
                raise absint.Unknown("next_value without a pending key")
            return CF("Map", entries=fs["entries"], pending=C("None")), C("Ok", fs["pending"][2][0])
        ev = AEval(funcs=funcs, consts=consts or {})
        ev.mut_builtins = {"next_key": next_key, "next_value": next_value, "next_value_seed": next_value}
        ev.builtins = {"push_key": lambda rv, a: UNIT, "pop_key": lambda rv, a: C("None")}
        ev.error_ctor_names = ("missing_field", "duplicate_field", "custom", "invalid_length", "unknown_field")
        for pre in ("serde::de::Error::", "de::Error::", "Error::", "A::Error::"):
            for nm in ("missing_field", "duplicate_field", "custom", "invalid_length", "unknown_field"):
                ev.path_builtins[pre + nm] = lambda a, nm=nm: C(nm, *a[:1])
        return ev

    def mk_map(entries):
        return CF("Map", entries=L(*[T(k, v) for k, v in entries]), pending=C("None"))

    def norm(v):
        # maps are collections: compare their entries without order
        if isinstance(v, tuple) and v and v[0] == "list" and v[1] and all(x[0] == "tuple" and len(x[1]) == 2 for x in v[1]):
            return ("list", tuple(sorted((norm(x) for x in v[1]), key=repr)))
        if isinstance(v, tuple):
            return tuple(norm(x) for x in v)
        return v
    cases = []
    # 1. a range branch written as an object
    fr = [f for f in ast.fns_named(PR_, "visit_map") if f.impl_self and "RangeStructSeed" in f.impl_self]
    if not fr:
        r.missing("RangeStructSeed::visit_map")
    else:
        funcs = {f.name: f for f in ast.fns if f.file.endswith(PR_) and f.body is not None and "RangeStructSeed" in f.qual and "::visit_map::" in f.qual}
        sets = {"count+value": [(C("Range"), A("range 1..")), (C("Value"), A("text"))], "value only": [(C("Value"), A("text"))],
                "count only": [(C("Range"), A("range 1.."))], "count twice": [(C("Range"), A("r1")), (C("Value"), A("text")), (C("Range"), A("r2"))]}
        cases.append(("RangeStructSeed::visit_map", fr[0], funcs, {}, sets, lambda m: [CF("RangeStructSeed", **{"0": A("seed")}), m],
                      {"count+value": C("Ok", T(A("range 1.."), A("text"))), "value only": C("Ok", T(C("Fallback"), A("text")))}))
    # 2. the keys of a translation file / sub-key group
    fl = [f for f in ast.fns_named(PLc, "visit_map") if f.impl_self and "LocaleSeed" in f.impl_self]
    if not fl:
        r.missing("LocaleSeed::visit_map")
    else:
        Kk = lambda n_: CF("Key", name=S(n_))  # noqa: E731
        # (the same key twice - also as `"a"` and `" a"`, which Key::new trims to one key; the deserializers do not report repeated keys
        # to a visitor: whatever the visitor does with them must not depend on which comes first)
        sets = {"three keys": [(Kk("a"), A("va")), (Kk("b"), A("vb")), (Kk("c"), A("vc"))],
                "a key written twice": [(Kk("a"), A("v1")), (Kk("b"), A("vb")), (Kk("a"), A("v2"))]}
        cases.append(("LocaleSeed::visit_map", fl[0], {}, {}, sets,
                      lambda m: [CF("LocaleSeed", key_path=A("kp"), top_locale_name=S("en"), foreign_keys_paths=A("fkp"), name=S("en")), m],
                      {"three keys": C("Ok", L(T(Kk("a"), A("va")), T(Kk("b"), A("vb")), T(Kk("c"), A("vc"))))}))
    # 3. the configuration section
    fc = [f for f in ast.fns_named(CFGf, "visit_map") if f.impl_self and "CfgFileVisitor" in f.impl_self]
    if not fc:
        r.missing("CfgFileVisitor::visit_map")
    else:
        consts = {}
        for cname in ("DEFAULT", "LOCALES", "NAMESPACES", "LOCALES_DIR", "TRANSLATIONS_URI", "EXTENSIONS"):
            c = ast.const(CFGf, cname, "Field")
            if c is not None:
                consts["Field::" + cname] = S(c["expr"].get("str"))
        sets = {"default+locales+inherits+dir": [(C("Default"), S("en")), (C("Locales"), L(S("en"), S("fr"))), (C("Extensions"), L(T(S("fr"), S("en")))), (C("LocalesDir"), S("i18n"))]}
        cases.append(("CfgFileVisitor::visit_map", fc[0], absint.file_funcs(ast, CFGf, impl_self="CfgFileVisitor"), consts, sets, lambda m: [A("visitor"), m], {}))
    for label, fn, funcs, consts, sets, mkargs, wants in cases:
        ok = True
        n = 0
        for sname, ents in sets.items():
            seen = {}
            for perm in itertools.permutations(ents):
                ev = harness(funcs, consts)
                got = ev.run_fn(fn, mkargs(mk_map(list(perm))))
                if isinstance(got, str):
                    r.viol("R7:%s#eval" % label, "cannot be evaluated on %s: %s" % (sname, got), file=fn.file, line=fn.line)
                    ok = False
                    break
                n += 1
                seen.setdefault(repr(norm(got)), (perm, got))
            if not ok:
                break
            if len(seen) > 1:
                (p1, g1), (p2, g2) = list(seen.values())[:2]
                r.viol("R7:%s#order" % label, "%s: fields in the order %s give %s, in the order %s give %s" % (
                    sname, [absint.fmt(k) for k, _v in p1], absint.fmt(g1)[:120], [absint.fmt(k) for k, _v in p2], absint.fmt(g2)[:120]), file=fn.file, line=fn.line)
                ok = False
            elif sname in wants and norm(list(seen.values())[0][1]) != norm(wants[sname]):
                r.viol("R7:%s#result" % label, "%s gives %s, expected %s" % (sname, absint.fmt(list(seen.values())[0][1])[:160], absint.fmt(wants[sname])), file=fn.file, line=fn.line)
                ok = False
        if ok:
            r.inst(label, "%d orderings of %d field sets: one result per set" % (n, len(sets)))
    return r


def run(ctx):
    cfgs = ["main"] if ctx.tier == "quick" else ["main", "yaml", "json5", "bare"]
    # the formats deliver a string through different serde callbacks (serde_json / serde_yaml: visit_str, json5:
    # visit_string): the clause of C01.R0 that every string callback of the value visitor is the same parser
    from rules import c01
    from rules.common import borrow
    k0, _ok, _why = c01.r0_parse(ctx)
    r8 = borrow(k0, "C10.R8", "every string callback of the value visitor hands the text to the same parser",
                "`the same data written as JSON, JSON5 or YAML yields the same keys, diagnostics and rendered text`: a callback only one "
                "format uses (visit_string for json5) that treats some strings differently makes the result depend on the file format",
                only=r"ParsedValueSeed::visit_", floor=1)
    # a number written in a range reaches the numeric type as u64, i64 or f64 depending on the file format (serde_json: u64 for
    # non-negative integers, json5: i64, YAML: either): the 30 RangeNumber::from_* impls accept the same numbers whatever the form
    # (MIR summaries, rules/c04.py)
    from rules import c04
    from report import Rule as _Rule
    r9 = _Rule("C10.R9", "a number in a range is accepted alike whichever 64-bit form the file format hands over",
               "`the same diagnostics regardless of which file format the same data was written in`: the formats deliver the same number through "
               "different visitor callbacks; a conversion that is stricter for one of them rejects a declaration in JSON that loads in JSON5", floor=1)
    c04.number_forms(ctx.mir("main"), r9, "R9")
    return [r1_unordered(ctx, cfgs), r2_ambient(ctx, cfgs), r4_frontends(ctx), r5_types(ctx, cfgs), r6_sorted(ctx, cfgs[:1]), r7_key_order(ctx), r8, r9]


MANIFEST_ENTRY = {
    "technique": "static analysis: MIR call-site scan for hash-collection iteration and ambient-input APIs, ADT field-type scan, abstract evaluation (rules/absint.py) of the file-format dispatch (de_inner under each feature), of the field-keyed serde visitors on every order of the same fields, and of every string callback of the value visitor against the parser (the callbacks different formats use must be the same function: shared with C01.R0); MIR return summaries of the 30 RangeNumber::from_* impls (a number is accepted alike whichever 64-bit form the file format hands over)",
    "level_text": "Structural: the sources of nondeterminism that could reach generated code or diagnostics (unordered iteration, ambient inputs) are shown absent from every loading body by resolved-callee inspection, and the three format front-ends are shown to share one seed/visitor. Holds for all inputs; does not compare outputs.",
    "level_note": "Trusted: the list of iterating / ambient APIs in rules/c10.py; serde front-ends. Not decided: equality of events delivered by different formats for the same data. Known and undecided (DESIGN 11.17, hunts/C10): json5 0.4.1 decodes escaped code points >= U+20000 to the wrong plane and rejects U+2028; the same number literal (-0, 17-digit floats, > u64) differs between formats; the first error reported depends on key order.",
}
