"""C08.W compile-fail witnesses: rustc itself decides that omitting any argument of the cross-locale union does not
type-check (with a compiling twin for each family, so a witness cannot pass because of an unrelated error)."""
import os
import re
import shutil
import subprocess

import facts
from report import Rule

VERIF = os.path.dirname(os.path.dirname(os.path.abspath(__file__)))
SRC = os.path.join(VERIF, "witness")


def _labels(lib_rs):
    """doc-test start line -> (label, is_compile_fail)"""
    out = {}
    lines = lib_rs.splitlines()
    inside = False
    for i, l in enumerate(lines):
        m = re.match(r"^//! ```(.*)$", l)
        if not m:
            continue
        if not inside:
            label = lines[i - 1][4:].strip() if i > 0 else ""
            sec = ""
            for k in range(i, -1, -1):
                mm = re.match(r"^//! # (.*)$", lines[k])
                if mm:
                    sec = mm.group(1)
                    break
            out[i + 1] = ("%s: %s" % (sec, label.rstrip(":")), m.group(1).startswith("compile_fail"), m.group(1))
            inside = True
        else:
            inside = False
    return out


def rule(ctx):
    r = Rule("C08.W", "rustc rejects a call that omits any member of the cross-locale argument union",
             "`required arguments are the union over all locales`: the generated builder must make each of them mandatory at "
             "compile time, in both back-ends; a compiling twin shows the fixture itself is well-formed", floor=11)
    d = os.path.join(facts.CACHE, "witness", facts.tree_hash(ctx.repo))
    if os.path.exists(d):
        shutil.rmtree(d)
    os.makedirs(d)
    shutil.copytree(os.path.join(SRC, "src"), os.path.join(d, "src"))
    shutil.copytree(os.path.join(SRC, "locales"), os.path.join(d, "locales"))
    with open(os.path.join(SRC, "Cargo.toml.in")) as fh:
        toml = fh.read().replace("@REPO@", ctx.repo)
    with open(os.path.join(d, "Cargo.toml"), "w") as fh:
        fh.write(toml)
    shutil.copy(os.path.join(ctx.repo, "Cargo.lock"), os.path.join(d, "Cargo.lock"))
    env = dict(os.environ, CARGO_NET_OFFLINE="true", CARGO_TARGET_DIR=os.path.join(facts.CACHE, "target-witness"))
    with facts.Lock("witness.lock"):
        p = subprocess.run(["cargo", "+nightly", "test", "--doc", "--offline"], cwd=d, env=env,
                           stdout=subprocess.PIPE, stderr=subprocess.STDOUT, text=True)
    out = p.stdout
    with open(os.path.join(SRC, "src", "lib.rs")) as fh:
        labels = _labels(fh.read())
    seen = {}
    for m in re.finditer(r"(?m)^test src/lib\.rs - \(line (\d+)\)( - compile fail)? \.\.\. (ok|FAILED)$", out):
        seen[int(m.group(1))] = (bool(m.group(2)), m.group(3))
    if not seen and re.search(r"error: could not compile `leptos_i18n(_parser|_macro)?`", out):
        shutil.rmtree(d, ignore_errors=True)
        raise facts.BuildError("the tree does not compile in a normal (lint-enabled) build, witnesses not evaluated:\n" + out[-1500:])
    if not seen:
        r.viol("W:build", "the witness crate did not build against this tree (so no witness could be evaluated): %s" % out[-600:].replace("\n", " | "))
        shutil.rmtree(d, ignore_errors=True)
        return r
    for line, (label, cf, attr) in sorted(labels.items()):
        res = seen.get(line)
        if res is None:
            r.viol("W:%s#not-run" % label, "doc-test at line %d was not run" % line)
        elif res[1] == "ok":
            r.inst(label, ("does not compile (%s)" % attr) if cf else "compiles (twin)")
        elif cf:
            r.viol("W:%s" % label, "this call now compiles (or fails with another error than %s): the argument is no longer mandatory" % attr, file="witness/src/lib.rs", line=line)
        else:
            r.viol("W:%s" % label, "the compiling twin no longer compiles: the fixture or the macro interface changed, witnesses are void", file="witness/src/lib.rs", line=line)
    shutil.rmtree(d, ignore_errors=True)
    return r
