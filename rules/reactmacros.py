"""t_format! / t_plural! (leptos_i18n_macro/src/t_format, t_plural): the `*_inner` generators are interpreted abstractly
(rules/absint.py) and the generated code is read back.  In the reactive flavours (a view for t_format!, a context input for
t_plural!) the locale must be read from the context *inside* the returned `move ||` closure, so that the closure re-runs with
the locale of the moment; the caller's value and context expressions are evaluated once, outside.  Nothing is compiled or run."""
import re

from rules import absint
from rules.absint import AEval, C, CF, L, T, TOK, Unknown
from rules.gentext import tokenize, tree, text

TF = "leptos_i18n_macro/src/t_format/mod.rs"
TP = "leptos_i18n_macro/src/t_plural/mod.rs"


def _closure_bodies(items, out):
    """the brace groups that directly follow `move ||`"""
    i = 0
    while i < len(items):
        x = items[i]
        if x == "move" and i + 2 < len(items) and items[i + 1] == "||" and isinstance(items[i + 2], tuple) and items[i + 2][0] == "{":
            out.append(items[i + 2][1])
        if isinstance(x, tuple):
            _closure_bodies(x[1], out)
        i += 1


def _inspect(tok_text, reader, label):
    """(ok, why): where the locale is read in the generated block"""
    items = tree(tokenize(tok_text))
    whole = text(items)
    if reader not in whole:
        return False, "the locale is not read with `%s` at all: `%s`" % (reader, whole[:200])
    bodies = []
    _closure_bodies(items, bodies)
    inside = any(reader in text(b) for b in bodies)
    return inside, whole


def check(ctx, r, rid="R"):
    ast = ctx.ast
    absint.set_program(ast)
    tf = ast.fn(TF, "t_format_inner")
    tp = ast.fn(TP, "t_plural_inner")
    if tf is None or tp is None:
        r.missing("t_format_inner / t_plural_inner")
        return
    n = 0

    def mk():
        ev = AEval(funcs={})
        ev.cfg = lambda t: "not" not in t          # cfg!(not(feature = "plurals")) is false: the feature is on
        ev.path_builtins.update({"syn::Ident::new": lambda a: TOK(a[0][1]), "Ident::new": lambda a: TOK(a[0][1]), "Span::call_site": lambda a: absint.A("span")})
        ev.builtins.update({"var_to_view": lambda rv, a: TOK("VIEW ( %s , %s )" % (a[0][1], a[1][1])), "var_to_display": lambda rv, a: TOK("DISPLAY ( %s , %s )" % (a[0][1], a[1][1]))})
        return ev
    readers = {"Context": "leptos_i18n :: I18nContext :: get_locale ( _ctx )", "Untracked": "leptos_i18n :: I18nContext :: get_locale_untracked ( _ctx )", "Locale": None}
    # ---- t_format!
    for inp in ("Context", "Untracked", "Locale"):
        for out in ("View", "String", "Display"):
            v = mk().run_fn(tf, [CF("ParsedInput", context=TOK("CTX_EXPR"), value=TOK("VALUE_EXPR"), formatter=absint.A("formatter")), C(inp), C(out)])
            if isinstance(v, str) or v[0] != "tok":
                raise Unknown("t_format_inner (%s, %s): %s" % (inp, out, v if isinstance(v, str) else absint.fmt(v)[:80]))
            n += 1
            txt = v[1]
            items = tree(tokenize(txt))
            bodies = []
            _closure_bodies(items, bodies)
            whole = text(items)
            key = "t_format_inner#%s/%s" % (inp, out)
            if "let _value = VALUE_EXPR" not in whole or "let _ctx = CTX_EXPR" not in whole or any("VALUE_EXPR" in text(b) or "CTX_EXPR" in text(b) for b in bodies):
                r.viol("%s:%s#once" % (rid, key), "the caller's value / context expressions are not evaluated once, outside the closure: `%s`" % whole[:240], file=TF, line=tf.line)
                continue
            use = ("VIEW" if out == "View" else "DISPLAY") + " ( _value , _locale )"
            if use not in whole:
                r.viol("%s:%s#output" % (rid, key), "the formatted output `%s` is not generated: `%s`" % (use, whole[:240]), file=TF, line=tf.line)
                continue
            rd = readers[inp]
            if rd is None:
                ok = "let _locale = _ctx" in whole
                why = "the locale argument itself is the locale"
            elif out == "View":
                ok = len(bodies) == 1 and ("let _locale = " + rd) in text(bodies[0]) and use in text(bodies[0]) and whole.count(rd) == 1
                why = "the view is `move || { let _locale = <context>.get_locale..(); <output> }`: the locale is read when the closure runs"
            else:
                ok = ("let _locale = " + rd) in whole and not bodies
                why = "a string / display value: the locale is read once, now"
            if ok:
                r.inst(key, why)
            else:
                r.viol("%s:%s#locale-read" % (rid, key), "the locale is not read where it must be (%s): `%s`" % (why, whole[:300]), file=TF, line=tf.line)
    # ---- t_plural!
    forms = L(T(TOK("one"), TOK("{ ONE }")), T(TOK("few"), TOK("{ FEW }")))
    # without a `_` arm (every category listed by the caller) the generated match is still a well-formed match: arms separated by
    # commas, no stray one
    v0 = mk().run_fn(tp, [CF("ParsedInput", context=TOK("CTX_EXPR"), count=TOK("COUNT_EXPR"), forms=forms, fallback=C("None")), C("Locale"), TOK("RULE_TYPE")])
    if isinstance(v0, str) or v0[0] != "tok":
        raise Unknown("t_plural_inner (no fallback): %s" % (v0 if isinstance(v0, str) else absint.fmt(v0)[:80]))
    w0 = text(tree(tokenize(v0[1])))
    if not re.search(r"\{\s*one => \{ ONE \} , few => \{ FEW \} ,?\s*\}", w0):
        r.viol("%s:t_plural_inner#no-fallback" % rid, "without a `_` arm the generated match is `%s`: not `{ one => .., few => .. }` (a lone comma does not compile, so listing every category is impossible)" % w0[-200:], file=TP, line=tp.line)
    else:
        n += 1
    for inp in ("Context", "Untracked", "Locale"):
        v = mk().run_fn(tp, [CF("ParsedInput", context=TOK("CTX_EXPR"), count=TOK("COUNT_EXPR"), forms=forms, fallback=C("Some", T(TOK("{ OTHER }"), absint.A("span")))), C(inp), TOK("RULE_TYPE")])
        if isinstance(v, str) or v[0] != "tok":
            raise Unknown("t_plural_inner (%s): %s" % (inp, v if isinstance(v, str) else absint.fmt(v)[:80]))
        n += 1
        items = tree(tokenize(v[1]))
        bodies = []
        _closure_bodies(items, bodies)
        whole = text(items)
        key = "t_plural_inner#%s" % inp
        sel = "get_plural_category_for ( _locale , & _value , RULE_TYPE )"
        arms_ok = re.search(re.escape(sel) + r"\s*\{\s*one => \{ ONE \} , few => \{ FEW \} , _ => \{ OTHER \} ,?\s*\}", whole) is not None
        if not arms_ok:
            r.viol("%s:t_plural_inner#%s#arms" % (rid, inp), "the written forms are not matched in order with the fallback last: `%s`" % whole[:300], file=TP, line=tp.line)
            continue
        if "let _value = COUNT_EXPR" not in whole or "let _ctx = CTX_EXPR" not in whole or sel not in whole or any("COUNT_EXPR" in text(b) or "CTX_EXPR" in text(b) for b in bodies):
            r.viol("%s:%s#shape" % (rid, key), "count / context are not bound once outside, or the category is not selected with (_locale, &_value, rule type): `%s`" % whole[:300], file=TP, line=tp.line)
            continue
        rd = readers[inp]
        if rd is None:
            ok = "let _locale = _ctx" in whole
            why = "the locale argument itself is the locale"
        elif inp == "Context":
            ok = len(bodies) == 1 and ("let _locale = " + rd) in text(bodies[0]) and sel in text(bodies[0]) and whole.count(rd) == 1
            why = "`move || { let _locale = <context>.get_locale(); match category .. }`: the locale is read when the closure runs"
        else:
            ok = ("let _locale = " + rd) in whole and not bodies
            why = "untracked: read once, now"
        if ok:
            r.inst(key, why)
        else:
            r.viol("%s:%s#locale-read" % (rid, key), "the locale is not read where it must be (%s): `%s`" % (why, whole[:300]), file=TP, line=tp.line)
    return n
