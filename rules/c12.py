"""C12 Locale negotiation honours the user's order of preference."""
import re

from report import Rule
from mirlib import callee_name, op_const, op_place, backward_slice
import mustlib as M
from astlib import find_all, find_first, show, show_pat, method_chain
from rules.common import flat, flatp, has, same

EXPLANATION = (
    "Primary clause (R0): the negotiation functions are interpreted abstractly (rules/absint.py; nothing compiled or run) on every request list x supported list of a closed universe of tags and each outcome is compared with the property statement; the structural clauses below are used only when the code leaves the interpreter's fragment. Static structural analysis (MIR control/data-flow facts + syntax facts of leptos_i18n/src/langid.rs and "
    "locale_traits.rs); nothing executed. Decided clauses: (R1) the result vector of filter_matches is filled inside the loop "
    "over the requested languages, walked forward; any reordering operation on it (sort*, reverse, swap, rotate*) must sit "
    "inside that loop and be applied to the sub-slice that starts at the length the vector had when the current request "
    "began - so a match for a later-listed language can never move before a match for an earlier one. (R2) per request the "
    "exact pass (no side treated as a range) precedes the pass that treats the supported locale as a range, and within a "
    "request more specific matches sort first (stable sort). (R3) only elements of `available` are pushed; find_match is "
    "`first()` or the default locale; unparseable entries are dropped without disturbing the order; Locale::find_locale "
    "negotiates over Self::get_all(). (R4) the matching predicate is the conjunction over language, script, region and "
    "variants of `equal, or absent on the side treated as a range` - so `fr` matches a request for `fr-FR`, `zh-TW` one for "
    "`zh-Hant-TW`. NOT decided: icu's parsing of a concrete tag."
)
ASSUMPTIONS = ["slice::sort_by is stable", "Vec::retain visits elements in order"]

F = "leptos_i18n/src/langid.rs"
REORDER = re.compile(r"^core::slice::<impl \[T\]>::(sort|sort_by|sort_by_key|sort_unstable|sort_unstable_by|sort_unstable_by_key|sort_by_cached_key|reverse|swap|rotate_left|rotate_right|select_nth_unstable.*)$|^std::slice::<impl \[T\]>::(sort|sort_by|sort_by_key|sort_by_cached_key)$|^std::vec::Vec::<T, A>::(swap_remove|insert|dedup.*)$")


def r1_no_cross_request_reordering(ctx, prog):
    r = Rule("C12.R1", "matches of a later request never move before matches of an earlier request",
             "`a supported locale matching an earlier-listed language is never passed over for one that matches only a later-listed "
             "language`: any global reordering of the result breaks this whenever the later match is `more specific`", floor=4)
    b = prog.body("leptos_i18n::langid::filter_matches")
    if b is None:
        r.missing("langid::filter_matches")
        return r
    # the result vector: the local returned
    ret_local = None
    for i, j, s in b.assigns():
        if s["place"]["l"] == 0 and not s["place"]["p"] and s["rv"]["k"] == "Use":
            p = op_place(s["rv"]["ops"][0])
            if p:
                ret_local = p["l"]
    if ret_local is None:
        r.viol("R1:filter_matches#result", "cannot identify the result vector", file=b.file, line=b.line)
        return r
    name = b.local_name(ret_local)
    # the request loop
    nexts = [i for i, t in b.calls() if re.search(r"Iterator>::next$", callee_name(t) or "")]
    req_loop = None
    for nb in nexts:
        lp = M.loop_of(b, nb)
        if lp:
            req_loop = lp
    if req_loop is None:
        r.viol("R1:filter_matches#loop", "no loop over the requested languages", file=b.file, line=b.line)
        return r
    hdr, nodes = req_loop
    # forward iteration over `requested`
    fn = ctx.ast.fn(F, "filter_matches")
    loops = [l for l in find_all(fn.body, "ForLoop")] if fn else []
    if loops:
        base, ch = method_chain(loops[0]["iter"])
        meths = [m for m, _, _ in ch]
        if show(base) == "requested" and meths and meths[0] == "iter" and not (set(meths) & {"rev", "skip", "take", "filter", "step_by", "rposition"}):
            r.inst("filter_matches#request-order", "for req in requested.%s : forward, complete" % ".".join(meths))
        else:
            r.viol("R1:filter_matches#request-order", "requested languages are walked as `%s.%s`" % (show(base), ".".join(meths)), file=fn.file, line=loops[0]["line"])
    n_reorder = 0
    for i, t in b.calls():
        cn = callee_name(t) or ""
        if not REORDER.search(cn):
            continue
        recv = op_place(t["args"][0])
        ls, defs = backward_slice(b, recv["l"]) if recv else (set(), [])
        if ret_local not in ls:
            continue
        n_reorder += 1
        site = "filter_matches#%s@L%d" % (cn.split("::")[-1], t["line"])
        if i not in nodes:
            r.viol("R1:filter_matches#global-reorder", "`%s` reorders the whole result after all requests were processed (line %d): a match for a later-listed language can overtake one for an earlier-listed language" % (cn.split("::")[-1], t["line"]), file=b.file, line=t["line"])
            continue
        # restricted to the sub-slice appended during this iteration: receiver comes from index_mut(result, RangeFrom{start = len(result) taken in this iteration before the pushes})
        ok = False
        for (di, dj, ds) in defs:
            if dj == "term" and re.search(r"IndexMut<.*>>::index_mut$", callee_name(ds) or ""):
                rng = op_place(ds["args"][1])
                rls, rdefs = backward_slice(b, rng["l"])
                is_from = any(d[1] != "term" and d[2]["rv"]["k"] == "Aggregate" and d[2]["rv"].get("adt", "").endswith("RangeFrom") for d in rdefs)
                lens = [d for d in rdefs if d[1] == "term" and (callee_name(d[2]) or "").endswith("Vec::<T, A>::len")]
                len_ok = False
                for (li, lj, lt) in lens:
                    a = op_place(lt["args"][0])
                    als, _ = backward_slice(b, a["l"])
                    retains = [x for x, tt in b.calls() if (callee_name(tt) or "").endswith("Vec::<T, A>::retain") and x in nodes]
                    if ret_local in als and li in nodes and all(b.dominates(li, x) for x in retains) and retains:
                        len_ok = True
                if is_from and len_ok:
                    ok = True
        if ok:
            r.inst(site, "inside the request loop, on result[first_match..] with first_match = result.len() taken before this request's passes")
        else:
            r.viol("R1:filter_matches#unrestricted-reorder", "`%s` inside the request loop is not restricted to the matches of the current request (line %d)" % (cn.split("::")[-1], t["line"]), file=b.file, line=t["line"])
    r.inst("filter_matches#result", "result vector `%s`, %d reordering call(s) on it" % (name, n_reorder))
    # pushes happen in the closures of this function only
    fam = prog.family(b)
    pushes = [(bb.name, t["line"]) for bb in fam for i, t in bb.calls() if (callee_name(t) or "").endswith("Vec::<T, A>::push")]
    if pushes and all(nm != b.name for nm, _ in pushes):
        r.inst("filter_matches#pushes", "%d push site(s), all inside the retain closures of the request loop" % len(pushes))
    else:
        r.viol("R1:filter_matches#pushes", "the result is filled outside the per-request passes: %s" % pushes, file=b.file, line=b.line)
    return r


def r2_pass_order(ctx, prog):
    r = Rule("C12.R2", "exact pass before range pass; most specific first within a request",
             "`for one language an exact match beats a less specific one`", floor=3)
    b = prog.body("leptos_i18n::langid::filter_matches")
    if b is None:
        r.missing("filter_matches")
        return r
    retains = [(i, t) for i, t in b.calls() if (callee_name(t) or "").endswith("Vec::<T, A>::retain")]
    flags = []
    for (i, t) in retains:
        cl = op_place(t["args"][1])
        cdef = None
        for (di, dj, ds) in b.defs().get(cl["l"], []):
            if dj != "term" and ds["rv"]["k"] == "Aggregate" and ds["rv"].get("agg") == "Closure":
                cdef = ds["rv"]["def"]
        cb = prog.bodies.get(cdef)
        fl = None
        if cb is not None:
            for ci, ct in cb.calls():
                if (callee_name(ct) or "").endswith("langid::lang_id_matches"):
                    a2, a3 = op_const(ct["args"][2]), op_const(ct["args"][3])
                    fl = (a2.get("bool") if a2 else None, a3.get("bool") if a3 else None)
                    # first arg = the supported locale (closure parameter), second = the request (captured)
        flags.append((i, fl))
    if len(flags) == 2 and flags[0][1] == (False, False) and flags[1][1] == (True, False) and b.dominates(flags[0][0], flags[1][0]):
        r.inst("filter_matches#passes", "retain(exact: lang_id_matches(locale, req, false, false)) dominates retain(range: (true, false))")
    else:
        r.viol("R2:filter_matches#passes", "the two matching passes are %s (expected exact (false,false) then supported-as-range (true,false))" % [f for _, f in flags], file=b.file, line=b.line)
    fn = ctx.ast.fn(F, "filter_matches")
    t = flatp(show(fn.body)) if fn else ""
    if has(t, "letx_specificity=into_specificityx.as_ref;lety_specificity=into_specificityy.as_ref;x_specificity.cmp&y_specificity.reverse"):
        r.inst("filter_matches#specificity", "stable sort by descending specificity")
    else:
        r.viol("R2:filter_matches#specificity", "matches of one request are not ordered most-specific first", file=F)
    fn = ctx.ast.fn(F, "into_specificity")
    t = flatp(show(fn.body)) if fn else ""
    if has(t, "iflang.script.is_some{specificity+=1}") and has(t, "iflang.region.is_some{specificity+=1}") and has(t, "specificity+=lang.variants.len"):
        r.inst("into_specificity", "script + region + number of variants")
    else:
        r.viol("R2:into_specificity", "specificity is no longer script + region + variants", file=F)
    return r


def r3_provenance(ctx, prog):
    r = Rule("C12.R3", "only supported locales are returned; first match or default; lossy parsing keeps order",
             "`the chosen locale is always a supported one ... with no match the default locale ... unparseable entries are ignored`", floor=5)
    fn = ctx.ast.fn(F, "filter_matches")
    t = flatp(show(fn.body)) if fn else ""
    if has(t, "letmutavailable_locales:Vec<L>=available.to_vec;") and has(t, "available_locales.retain|locale|{iflang_id_matches&locale,&req,$self_as_range,false{match_found=true;supported_locales.push*locale;returnfalse}true}"):
        r.inst("filter_matches#push", "pushes `*locale`, an element of available.to_vec(), and removes it from the pool (no duplicates)")
    else:
        r.viol("R3:filter_matches#push", "the pushed value is not the matched element of `available`", file=F)
    fn = ctx.ast.fn(F, "find_match")
    t = flatp(show(fn.body)) if fn else ""
    if same(t, "{filter_matchesrequested,available.first.copied.unwrap_or_default}"):
        r.inst("find_match", "filter_matches(..).first().copied().unwrap_or_default()")
    else:
        r.viol("R3:find_match", "is `%s`" % t, file=F)
    fn = ctx.ast.fn(F, "convert_vec_str_to_langids_lossy")
    t = flatp(show(fn.body)) if fn else ""
    if same(t, "{input.into_iter.filter_map|t|LanguageIdentifier::try_from_locale_bytest.as_ref.trim_ascii.ok.collect}"):
        r.inst("convert_vec_str_to_langids_lossy", "order-preserving filter_map(parse.ok())")
    else:
        r.viol("R3:convert_vec_str_to_langids_lossy", "is `%s`" % t, file=F)
    lt = "leptos_i18n/src/locale_traits.rs"
    fn = ctx.ast.fn(lt, "find_locale")
    t = flatp(show(fn.body)) if fn else ""
    if same(t, "{letlangids=convert_vec_str_to_langids_lossyaccepted_languages;letl=find_match&langids,Self::get_all;Self::from_base_localel}"):
        r.inst("Locale::find_locale", "find_match(parsed accepted languages, Self::get_all())")
    else:
        r.viol("R3:Locale::find_locale", "is `%s`" % t, file=lt)
    fn = ctx.ast.fn(lt, "find_matchs")
    t = flatp(show(fn.body)) if fn else ""
    if has(t, "filter_matchesstd::slice::from_reflangid.as_ref,Self::get_all"):
        r.inst("Locale::find_matchs", "filter_matches(&[langid], Self::get_all())")
    else:
        r.viol("R3:Locale::find_matchs", "is `%s`" % t[:120], file=lt)
    return r


def r4_predicate(ctx):
    r = Rule("C12.R4", "matching predicate: per subtag `equal, or absent on the side treated as a range`",
             "`exactly, or as a less specific form of it such as fr for fr-FR`: less specific means some subtags are absent on the "
             "supported side - any subtag, not only trailing ones", floor=4)
    ast = ctx.ast
    want = {
        "lang_matches": "{self_as_range&&lhs.is_empty||other_as_range&&rhs.is_empty||lhs==rhs}",
        "subtag_matches": "{as_range1&&subtag1.is_none||as_range2&&subtag2.is_none||subtag1==subtag2}",
        "subtags_match": "{as_range1&&subtag1.is_empty||as_range2&&subtag2.is_empty||subtag1==subtag2}",
    }
    for name, w in want.items():
        fn = ast.fn(F, name)
        if fn is None:
            r.missing("langid::" + name)
            continue
        t = flatp(show(fn.body))
        if same(t, w):
            r.inst(name, w)
        else:
            r.viol("R4:" + name, "is `%s`, expected `%s`" % (t, w), file=fn.file, line=fn.line)
    fn = ast.fn(F, "lang_id_matches")
    if fn is None:
        r.missing("langid::lang_id_matches")
    else:
        t = flatp(show(fn.body))
        w = "lang_matches&lhs.language,&rhs.language,self_as_range,other_as_range&&subtag_matches&lhs.script,&rhs.script,self_as_range,other_as_range&&subtag_matches&lhs.region,&rhs.region,self_as_range,other_as_range&&subtags_match&lhs.variants,&rhs.variants,self_as_range,other_as_range"
        if has(t, w) and has(t, "letrhs=rhs.as_ref;letlhs=lhs.as_ref;"):
            r.inst("lang_id_matches", "language && script && region && variants, each with (self_as_range, other_as_range)")
        else:
            r.viol("R4:lang_id_matches", "the predicate is no longer the conjunction over language, script, region and variants: %s" % t[:200], file=fn.file, line=fn.line)
    return r


# ---------------------------------------------------------------------------------------------- evaluation (R0)

UNIVERSE = ["fr", "fr-FR", "fr-CA", "fr-Latn-FR", "en", "en-US", "ca-ES", "ca-ES-valencia"]
EXTRA_REQUESTS = ["de", "fr-Latn", "en-GB", "und", "und-FR"]       # `und`: no language given - it names no supported locale


def _parse_tag(tag):
    parts = tag.split("-")
    script = region = None
    variants = []
    for p in parts[1:]:
        if len(p) == 4 and p.isalpha():
            script = p
        elif len(p) == 2 or (len(p) == 3 and p.isdigit()):
            region = p
        else:
            variants.append(p)
    return (parts[0], script, region, tuple(variants))


def _lid(tag):
    from rules.absint import C, CF, L
    lang, script, region, variants = _parse_tag(tag)
    S = lambda x: ("str", x)  # noqa: E731
    if lang == "und":
        lang = ""          # icu's Language::UND is the empty language (`is_empty()`)
    return CF("LanguageIdentifier", language=S(lang), script=C("Some", S(script)) if script else C("None"),
              region=C("Some", S(region)) if region else C("None"), variants=L(*[S(v) for v in variants]))


def _matches(avail, req):
    """the statement's notion: `exactly, or as a less specific form of it such as fr for fr-FR`"""
    a, q = _parse_tag(avail), _parse_tag(req)
    return a[0] == q[0] and (a[1] is None or a[1] == q[1]) and (a[2] is None or a[2] == q[2]) and (not a[3] or a[3] == q[3])


def r0_negotiation(ctx):
    """abstract evaluation (rules/absint.py) of find_match / filter_matches / Locale::find_locale / find_matchs on every
    request list and supported set over a closed universe of language / script / region / variant combinations; the
    expected outcome is computed from the property statement, not from the code"""
    import itertools
    from rules import absint
    from rules.absint import AEval, C, L
    r = Rule("C12.R0", "negotiation outcome over a closed universe of tags equals what the statement demands",
             "`a supported locale matching an earlier-listed language (exactly, or as a less specific form of it) is never passed "
             "over for one that matches only a later-listed language; for one language an exact match beats a less specific one; "
             "with no match the default locale`", floor=4)
    ast = ctx.ast
    funcs = absint.file_funcs(ast, F)
    LT = "leptos_i18n/src/locale_traits.rs"
    for n in ("find_match", "filter_matches", "convert_vec_str_to_langids_lossy"):
        if n not in funcs:
            r.missing("langid::" + n)
            return r, False, 'anchor missing'
    fl, fms = ast.fn(LT, "find_locale"), ast.fn(LT, "find_matchs")
    if fl is None or fms is None:
        r.missing("Locale::find_locale / find_matchs")
        return r, False, 'anchor missing'
    lids = {t: _lid(t) for t in UNIVERSE + EXTRA_REQUESTS}
    back = {v: k for k, v in lids.items()}
    thorough = ctx.tier == "thorough"
    # (thorough: every ordered pair, and every 3-subset in both orders - all 336 ordered triples cost an hour without deciding more)
    av_sets = [c for k in (1, 2) for c in itertools.permutations(UNIVERSE, k)] + [x for c in itertools.combinations(UNIVERSE, 3) for x in (c, tuple(reversed(c)))] if thorough else \
              [c for k in (1, 2) for c in itertools.permutations(UNIVERSE, k)] + [tuple(UNIVERSE), tuple(reversed(UNIVERSE))]
    reqs_all = UNIVERSE + EXTRA_REQUESTS
    req_lists = [c for k in (1, 2) for c in itertools.product(reqs_all, repeat=k)]
    if thorough:
        req_lists += [c for c in itertools.product(reqs_all, repeat=3) if len(set(c)) == 3 and c[0] in ("de", "fr-Latn") and "und" not in c and "und-FR" not in c]
    n_cases = 0
    bad = {}
    unknown = None

    def note(kind, msg):
        bad.setdefault(kind, msg)
    for avail in av_sets:
        av = L(*[lids[t] for t in avail])
        for req in req_lists:
            rq = L(*[lids[t] for t in req])
            ev = AEval(funcs=funcs)
            best = ev.run_fn(funcs["find_match"], [rq, av])
            lst = AEval(funcs=funcs).run_fn(funcs["filter_matches"], [rq, av])
            if isinstance(best, str) or isinstance(lst, str) or lst[0] != "list":
                unknown = best if isinstance(best, str) else (lst if isinstance(lst, str) else "filter_matches does not return a list")
                break
            n_cases += 1
            first = next((i for i, q in enumerate(req) if any(_matches(a, q) for a in avail)), None)
            case = "requested %s, supported %s" % (list(req), list(avail))
            got = "<default>" if best == absint.DEFAULT else back.get(best, absint.fmt(best))
            if first is None:
                if best != absint.DEFAULT:
                    note("no-match-default", "%s: nothing matches, yet `%s` is chosen instead of the default locale" % (case, got))
                if lst[1]:
                    note("no-match-default", "%s: nothing matches, yet filter_matches returns %s" % (case, [back.get(x, "?") for x in lst[1]]))
                continue
            if best == absint.DEFAULT:
                note("match-lost", "%s: `%s` is matched by a supported locale, yet the default locale is returned" % (case, req[first]))
                continue
            if got not in avail:
                note("not-supported", "%s: the chosen locale `%s` is not a supported one" % (case, got))
                continue
            if not _matches(got, req[first]):
                note("preference-order", "%s: `%s` is chosen although a supported locale matches the earlier-listed `%s`" % (case, got, req[first]))
            elif req[first] in avail and got != req[first]:
                note("exact-first", "%s: `%s` is chosen although `%s` itself is supported" % (case, got, req[first]))
            # the whole list: supported locales only, no duplicates, grouped by the first request they match, in request order
            names = [back.get(x) for x in lst[1]]
            if any(n is None or n not in avail for n in names) or len(set(names)) != len(names):
                note("list-members", "%s: filter_matches returns %s" % (case, names))
            else:
                idx = [next((i for i, q in enumerate(req) if _matches(n, q)), None) for n in names]
                if None in idx or idx != sorted(idx):
                    note("list-order", "%s: filter_matches returns %s - a match for a later request precedes one for an earlier request (or a non-match is listed)" % (case, names))
                if names and names[0] != got:
                    note("first-is-best", "%s: find_match returns `%s` but filter_matches starts with `%s`" % (case, got, names[0]))
        if unknown:
            break
    if unknown:
        return r, False, unknown
    for kind, msg in sorted(bad.items()):
        r.viol("R0:find_match#" + kind, msg, file=F, line=funcs["find_match"].line)
    if not bad:
        r.inst("find_match / filter_matches", "%d (request list, supported set) cases over %d tags: supported-or-default, earlier request wins, exact beats less specific, list grouped in request order" % (n_cases, len(reqs_all)))

    # the public entry points: Locale::find_locale (bytes -> lossy parse -> find_match over get_all) and find_matchs
    # (a model of icu's parser on the spellings used below: `-` or `_` as separator, any letter case, numeric regions and
    # digit-bearing variants are language identifiers; everything else in the lists below is not)
    for t in ("es", "es-419", "de-1996", "en-001", "ja", "ko", "zh", "pt", "it", "nl", "sv", "pl", "ru"):
        lids[t] = _lid(t)
        back[lids[t]] = t

    def canon(text):
        parts = text.replace("_", "-").split("-")
        out = [parts[0].lower()]
        for p_ in parts[1:]:
            out.append(p_.title() if len(p_) == 4 and p_.isalpha() else (p_.upper() if len(p_) == 2 else p_.lower()))
        return "-".join(out)

    def _text(v):
        if v[0] == "list" and all(x[0] == "int" for x in v[1]):
            v = ("str", bytes(x[1] for x in v[1]).decode("utf-8", "replace"))
        return v[1] if v[0] == "str" else None

    def try_from_bytes(args):
        # icu_locid's LanguageIdentifier::try_from_bytes (modelled): the whole text is a language identifier - no white space, no extension
        t_ = _text(args[0])
        if t_ is not None and canon(t_) in lids and re.match(r"^[A-Za-z]{2,3}([-_][A-Za-z0-9]{2,8})*$", t_):
            return C("Ok", lids[canon(t_)])
        return C("Err", absint.A("ParserError"))

    def _head(t_):
        parts = re.split(r"[-_]", t_)
        cut = next((i_ for i_, p_ in enumerate(parts) if len(p_) == 1), None)
        if cut is None:
            return t_, True
        ext = parts[cut:]
        ok_ext = len(ext) >= 2 and all((len(p_) == 1 and k_ + 1 < len(ext) and len(ext[k_ + 1]) > 1) or 2 <= len(p_) <= 8 or (ext[0].lower() == "x" and 1 <= len(p_) <= 8) for k_, p_ in enumerate(ext))
        return "-".join(parts[:cut]), ok_ext and cut > 0

    def try_from_locale_bytes(args):
        # ... try_from_locale_bytes (modelled): a full locale tag, of which the extensions / private-use part is dropped; no white space
        t_ = _text(args[0])
        if t_ is None:
            return C("Err", absint.A("ParserError"))
        h_, okx = _head(t_)
        if okx and canon(h_) in lids and re.match(r"^[A-Za-z]{2,3}([-_][A-Za-z0-9]{2,8})*$", h_) and re.match(r"^[A-Za-z0-9_-]+$", t_):
            return C("Ok", lids[canon(h_)])
        return C("Err", absint.A("ParserError"))

    def lang_of(text):
        # the statement's reading of one entry of the user's list: a language tag, possibly padded with white space (the `Accept-Language`
        # header allows it around list elements), possibly carrying extensions; what is negotiated is its language identifier
        t_ = text.strip(" \t\n\x0c\r")
        if not re.match(r"^[A-Za-z0-9_-]+$", t_ or "?!"):
            return None
        h_, okx = _head(t_)
        if okx and canon(h_) in lids and re.match(r"^[A-Za-z]{2,3}([-_][A-Za-z0-9]{2,8})*$", h_):
            return canon(h_)
        return None
    S = lambda x: ("str", x)  # noqa: E731
    funcs2 = dict(funcs)
    n2 = 0
    bad2 = {}
    for avail in (("en", "fr", "fr-FR"), ("fr-CA", "en-US", "ca-ES"), tuple(UNIVERSE), ("en", "es", "fr", "de", "de-1996")):
        for acc in (["%%bad", "fr-FR", "en"], ["de", "", "fr-CA", "en"], ["not a tag"], [], ["en-GB", "??", "ca-ES-valencia"], ["es-419", "fr"], ["de-1996", "fr"], ["fr_FR", "en"],
                    ["EN-us", "fr"], ["q=0.8", "*", "en-001", "fr"], ["x", "fr-ca"],
                    # as a server receives them from `Accept-Language: es, fr;q=0.9, de` (split at `,`, weights cut off): padded with white space
                    ["es", " fr", " de"], [" fr-CA ", "en"], ["\tde\t", " en"],
                    # tags with unicode / private-use extensions: their language identifier is what counts
                    ["fr-FR-u-ca-gregory", "de"], ["de-1996-u-co-phonebk"], ["fr-x-foo", "de"], ["en-US-t-m0-names", "fr"],
                    # a long header: every entry counts, the only supported language may come last
                    ["ja", "ko", "zh", "es-419", "pt", "it", "nl", "sv", "pl", "ru", "fr"], ["ja", "ko", "zh", "pt", "it", "nl", "sv", "pl", "ru", "%%", "", "x", "ja", "ko", "zh", "pt", "it", "fr-CA", "en"]):
            ev = AEval(funcs=funcs2, builtins={"get_all": lambda rv, a, avail=avail: L(*[lids[t] for t in avail]), "from_base_locale": lambda rv, a: a[0] if a else rv})
            ev.path_builtins = {"LanguageIdentifier::try_from_bytes": try_from_bytes, "LanguageIdentifier::try_from_locale_bytes": try_from_locale_bytes,
                                "Self::get_all": lambda a, avail=avail: L(*[lids[t] for t in avail]),
                                "Self::from_base_locale": lambda a: a[0], "L::get_all": lambda a, avail=avail: L(*[lids[t] for t in avail])}
            got = ev.run_fn(fl, [L(*[S(x) for x in acc])])
            if isinstance(got, str):
                return r, False, got
            good = [lang_of(x) for x in acc if lang_of(x) is not None]
            want = AEval(funcs=funcs).run_fn(funcs["find_match"], [L(*[lids[t] for t in good]), L(*[lids[t] for t in avail])])
            n2 += 1
            if got != want:
                bad2.setdefault("find_locale", "accepted %s, supported %s: find_locale gives %s, negotiation over the language identifiers of the entries (white space and extensions aside) %s gives %s" % (
                    acc, list(avail), back.get(got, absint.fmt(got)), good, back.get(want, absint.fmt(want) if not isinstance(want, str) else want)))
        for q in ("fr-FR", "de", "ca-ES-valencia"):
            ev = AEval(funcs=funcs2, builtins={"from_base_locale": lambda rv, a: a[0] if a else rv})
            ev.path_builtins = {"Self::get_all": lambda a, avail=avail: L(*[lids[t] for t in avail]), "Self::from_base_locale": lambda a: a[0],
                                "std::slice::from_ref": lambda a: L(a[0]), "slice::from_ref": lambda a: L(a[0]), "core::slice::from_ref": lambda a: L(a[0])}
            got = ev.run_fn(fms, [lids[q]])
            if isinstance(got, str):
                return r, False, got
            want = AEval(funcs=funcs).run_fn(funcs["filter_matches"], [L(lids[q]), L(*[lids[t] for t in avail])])
            n2 += 1
            if got != want:
                bad2.setdefault("find_matchs", "langid %s, supported %s: find_matchs gives %s, filter_matches gives %s" % (q, list(avail), absint.fmt(got), absint.fmt(want) if not isinstance(want, str) else want))
    for kind, msg in sorted(bad2.items()):
        r.viol("R0:Locale::" + kind, msg, file=LT)
    if not bad2:
        r.inst("Locale::find_locale", "unparseable entries dropped in place, negotiation over Self::get_all(), default when nothing matches")
        r.inst("Locale::find_matchs", "filter_matches(langid, Self::get_all())")
        r.inst("convert_vec_str_to_langids_lossy", "keeps the order of the parseable entries (%d entry-point cases)" % n2)
    return r, True, None


def run(ctx):
    res = r0_negotiation(ctx)
    r0, ok = res[0], res[1]
    import os
    # `the chosen locale is always a supported one ... with no match the default locale is returned`: what the negotiation is handed as
    # the supported locales (get_all + as_icu_locale of the generated enum) and what `L::default()` is (the first variant, the configured
    # default put first by the configuration loader) - the clauses of C13.R0 / C19.R0, decided by rules/c13.py and rules/c19.py
    from rules import c13
    r5 = c13.supported_and_default(ctx, "C12.R5", "the supported locales negotiated over are the configured ones as written, the default is the configured default",
                                   "`the chosen locale is always a supported one; an exact match beats a less specific one; with no match the default locale is returned`: the negotiation "
                                   "compares ICU locales handed out by the generated enum - a constant built from another spelling of the configured name (canonicalised, truncated) "
                                   "loses the exact match; a configuration loader that leaves another locale first makes that one the `default`")
    if ok and not os.environ.get("VERIF_FORCE_FALLBACK"):
        return [r0, r5]
    # the negotiation code could not be evaluated abstractly (a construct outside rules/absint.py): fall back to the
    # structural clauses on the MIR / syntax of the same functions
    why = res[2] if len(res) > 2 else "anchor missing"
    prog = ctx.mir("main")
    rules = [r1_no_cross_request_reordering(ctx, prog), r2_pass_order(ctx, prog), r3_provenance(ctx, prog), r4_predicate(ctx)]
    if not ok and not r0.violations:
        r0.inst("evaluation not available", "fallback to structural rules R1-R4: %s" % str(why)[:120])
        r0.viol("R0:undecided", "the evaluation cannot interpret the current code (%s): the clauses it decides are NOT decided on this tree; the structural rules reported alongside only cover part of them (fail closed)" % str(why)[:300])
        r0.floor = 1
    return [r0] + rules + [r5]


MANIFEST_ENTRY = {
    "technique": "static analysis: abstract evaluation (rules/absint.py) of find_match / filter_matches / Locale::find_locale / find_matchs / convert_vec_str_to_langids_lossy over all request lists x supported lists of a closed universe of 11 tags (language / script / region / variant combinations) and, at the string level, over spellings with numeric regions, digit-bearing variants, `_` separators, mixed case and unparseable leftovers (icu's parser modelled), oracle computed from the property statement; structural MIR / syn rules alongside when the code leaves the evaluator's fragment (then the check fails closed); C12.R5: the supported locales and the default the negotiation is handed are the configured ones (variants in configured order with #[default] first, as_icu_locale = locale!(own name), get_all; the configuration loader's default-first clause) - shared with C13.R0 / C19.R0",
    "level_text": "Finite abstract evaluation: the negotiation code only compares subtags for equality and emptiness, so a universe with every combination of present / absent / equal / different subtags exercises every decision; the outcome of each case is compared with what the statement demands (supported-or-default, earlier request wins, exact beats less specific, list grouped in request order). ICU's tag parsing is not evaluated.",
    "level_note": "Trusted: stable sort, retain order, icu tag parsing. Not decided: matching of a concrete pair of tags. Known and undecided (hunts/C12): `q` weights of Accept-Language are cut off by leptos-use before negotiation; `sl-rozaj-biske` does not fall back to `sl-rozaj`.",
}
