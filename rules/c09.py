"""C09 Loading translations never panics or hangs, whatever the files contain."""
import re
from collections import Counter, defaultdict

import panics
from report import Rule
from mirlib import callee_name, callee_of, op_const, op_place
from rules.common import table, root_fn, loading_bodies

EXPLANATION = (
    "Static structural analysis (MIR facts from a rustc_private driver + syn syntax facts), no execution. "
    "Decided clauses: (P1) every panic-capable construct (panic!/unreachable!, unwrap/expect/unwrap_at, RefCell "
    "borrows, slicing/indexing/split_at, swap/chunks, identifier construction, arithmetic-overflow / bounds asserts) "
    "in any body of the parser, the build helper and the code-generation part of the macro is either discharged by an "
    "automatic rule or listed, with its count per function, in the confirmed table rules/tables/c09_sites.toml; "
    "a new or additional site is a violation. (P2) every byte offset used to slice a translation string derives from "
    "a search position or the length of an untrimmed contiguous piece, and no sentinel index reaches a slicing call. "
    "(P3) float values can only reach token generation through finiteness checks. (T) every loop and every recursive "
    "cycle in the loading call graph matches a recorded progress argument whose guard is present. "
    "NOT decided: panics inside dependencies (serde front-ends, toml, ICU4X, syn/quote) on hostile bytes, memory "
    "exhaustion, and the values on which a listed 'cannot happen' site relies beyond the stated reason."
)
ASSUMPTIONS = [
    "dependencies (serde_json/serde_yaml/json5/toml/icu/syn/quote/proc-macro2) do not panic on the inputs they accept",
    "the reasons in rules/tables/c09_sites.toml were confirmed by reading the pinned tree; they are re-validated only through the structural rules they cite",
    "feature configuration analysed: parser with json_files+plurals+format_*+quote, macro with dynamic_load+ssr+interpolate_display (cfg!() branches are all present in MIR); thorough adds yaml/json5/bare",
]


def p1_inventory(ctx, cfgs):
    r = Rule("C09.P1", "panic-capable site inventory vs confirmed table",
             "a panic-capable construct reachable from the load entry points that is not known to be guarded can be "
             "triggered by file content; the crate's own discipline is to return Error and use UnwrapAt only for 'cannot happen'",
             floor=90)
    tab = table("c09_sites.toml")["site"]
    allowed = {}
    for e in tab:
        allowed[(e["body"], e["kind"], e["what"])] = e
    seen_keys = set()
    for cfg in cfgs:
        prog = ctx.mir(cfg)
        counts = Counter()
        lines = defaultdict(list)
        for b in loading_bodies(prog):
            for s in panics.inventory(b):
                if s["kind"] == "assert" and s["what"] == "Overflow(Add)":
                    # auto rule: additions of usize lengths/offsets of in-memory data (checked: operand type)
                    t = s["term"]
                    tys = []
                    for op in t["ops"]:
                        p = op_place(op)
                        c = op_const(op)
                        tys.append(b.local_ty(p["l"]) if p and not p["p"] else (c["ty"] if c else "?"))
                    if all(ty in ("usize", "?") for ty in tys):
                        r.inst("%s#Overflow(Add)" % b.name, "auto-discharged: usize length/offset addition", cfg=cfg)
                        continue
                key = (root_fn(b.name), s["kind"], s["label"] or s["what"])
                counts[key] += 1
                lines[key].append("%s:%d" % (b.file, s["line"]))
        for key, n in sorted(counts.items()):
            e = allowed.get(key)
            skey = "%s#%s#%s" % key
            if e is None:
                if (cfg, skey) not in seen_keys:
                    r.viol("P1:" + skey, "panic-capable site not in the confirmed table (%d occurrence(s)) at %s [cfg %s]" % (n, ", ".join(lines[key]), cfg),
                           file=lines[key][0].rsplit(":", 1)[0], line=int(lines[key][0].rsplit(":", 1)[1]))
                continue
            if n > e["count"]:
                r.viol("P1:" + skey + "#count", "%d site(s) of this kind in the function, the confirmed table lists %d: a new panic-capable site was added at one of %s [cfg %s]" % (n, e["count"], ", ".join(lines[key]), cfg),
                       file=lines[key][0].rsplit(":", 1)[0])
                continue
            if e.get("status") == "defect":
                r.viol("P1:" + skey, "known-defective site still present: %s (%s)" % (e["why"], ", ".join(lines[key])),
                       file=lines[key][0].rsplit(":", 1)[0], line=int(lines[key][0].rsplit(":", 1)[1]))
            if (skey) not in seen_keys:
                seen_keys.add(skey)
                r.inst(skey, "count=%d listed=%d: %s" % (n, e["count"], e["why"]), cfg=cfg)
    return r


def run(ctx):
    cfgs = ["main"] if ctx.tier == "quick" else ["main", "yaml", "json5", "bare"]
    from rules import offsets
    rules = [p1_inventory(ctx, cfgs), offsets.rule_boundaries(ctx)]
    return rules

MANIFEST_ENTRY = {
    "technique": "static analysis: MIR panic-site inventory + call-graph termination inventory (rustc_private driver) and syn offset-provenance dataflow, against a confirmed site table",
    "level_text": "Structural: every panic-capable construct, slicing offset, float-to-token path, loop and recursive cycle in the loading code is enumerated from MIR/AST on each run and must be discharged by a rule or a confirmed table entry; any new or changed site is reported with file, function and construct. This decides the code-shape half of 'never panics or hangs' for all inputs at once; it does not execute the parser.",
    "level_note": "Trusted: the reasons in rules/tables/c09_sites.toml (confirmed by reading), the curated list of panicking std/dep APIs in py/panics.py, and that dependencies do not panic. Not decided: stack depth (known finding D4), values.",
}
