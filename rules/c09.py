"""C09 Loading translations never panics or hangs, whatever the files contain."""
import re
import json
from collections import Counter, defaultdict

import panics
from report import Rule
from mirlib import callee_name, callee_of, op_const, op_place
from rules.common import table, root_fn, loading_bodies

EXPLANATION = (
    "Static structural analysis (MIR facts from a rustc_private driver + syn syntax facts), no execution. "
    "Decided clauses: (P1) every panic-capable construct (panic!/unreachable!, unwrap/expect/unwrap_at, RefCell "
    "borrows, slicing/indexing/split_at, swap/chunks, identifier construction, arithmetic-overflow / bounds asserts) "
    "in any body of the parser, the build helper and the code-generation part of the macro is either discharged by an "
    "automatic rule or listed, with its count per function, in the confirmed table rules/tables/c09_sites.toml; "
    "a new or additional site is a violation. (P2) every byte offset used to slice a translation string derives from "
    "a search position or the length of an untrimmed contiguous piece, and no sentinel index reaches a slicing call. "
    "(P3) float values can only reach token generation through finiteness checks. (T) every loop and every recursive "
    "cycle in the loading call graph matches a recorded progress argument whose guard is present. "
    "NOT decided: panics inside dependencies (serde front-ends, toml, ICU4X, syn/quote) on hostile bytes, memory "
    "exhaustion, and the values on which a listed 'cannot happen' site relies beyond the stated reason."
)
ASSUMPTIONS = [
    "dependencies (serde_json/serde_yaml/json5/toml/icu/syn/quote/proc-macro2) do not panic on the inputs they accept",
    "the reasons in rules/tables/c09_sites.toml were confirmed by reading the pinned tree; they are re-validated only through the structural rules they cite",
    "feature configuration analysed: parser with json_files+plurals+format_*+quote, macro with dynamic_load+ssr+interpolate_display (cfg!() branches are all present in MIR); thorough adds yaml/json5/bare",
]


_IDENT_TYPES = re.compile(r"^&*(mut )?(usize|u8|u16|u32|u64|u128|isize|i8|i16|i32|i64|i128|bool|proc_macro2::Ident|syn::Ident|(leptos_i18n_parser::utils::)?Key|(std::rc::)?Rc<(leptos_i18n_parser::utils::)?Key>)$")
_NUM_TYPES = re.compile(r"^&*(mut )?(usize|u8|u16|u32|u64|u128|isize|i8|i16|i32|i64|i128|bool)$")


PROG_FOR_IDENT = []      # the program being inventoried (set by p1_inventory), for caller look-ups


def _const_strs(body, local, depth):
    """(string constants that can flow into `local`, whether anything else can): follows moves / borrows / derefs and tuple fields
    inside the body and, for a parameter of a private function, the arguments of every caller"""
    consts, other = [], False
    seen = set()
    work = [(local, None)]
    params = set()
    while work:
        l, fld = work.pop()
        if (l, fld) in seen:
            continue
        seen.add((l, fld))
        if 1 <= l <= body.arg_count:
            params.add(l)
            continue
        ds = body.defs().get(l, [])
        if not ds:
            other = True
        for (_i, j_, d_) in ds:
            if j_ == "term":
                if re.search(r"Deref>::deref$|::as_str$|AsRef<.*>>::as_ref$", callee_name(d_) or "") and d_["args"]:
                    p0 = op_place(d_["args"][0])
                    if p0 is not None:
                        work.append((p0["l"], None))
                    continue
                other = True
                continue
            rv = d_["rv"]
            if rv["k"] == "Aggregate" and rv.get("agg") == "Tuple" and fld is not None and fld < len(rv.get("ops", [])):
                ops = [rv["ops"][fld]]
            elif rv["k"] in ("Use", "Cast", "CopyForDeref"):
                ops = rv.get("ops", [])
            elif rv["k"] == "Ref":
                pl = rv["place"]
                f2 = next((int(x[1:]) for x in pl["p"] if x.startswith(".") and x[1:].isdigit()), None)
                work.append((pl["l"], f2 if f2 is not None else fld))
                continue
            else:
                other = True
                continue
            for o2 in ops:
                c2 = op_const(o2)
                if c2 and "str" in c2:
                    consts.append(c2["str"])
                elif c2 is not None:
                    other = True
                else:
                    p2 = op_place(o2)
                    if p2 is None:
                        other = True
                    else:
                        f2 = next((int(x[1:]) for x in p2["p"] if x.startswith(".") and x[1:].isdigit()), None)
                        work.append((p2["l"], f2 if f2 is not None else fld))
    for l_ in params:
        cs = list(PROG_FOR_IDENT[0].callers_of(re.escape(body.name) + "$")) if PROG_FOR_IDENT and not body.is_pub and depth > 0 else []
        if not cs:
            other = True
        for (cb, _ci, ct) in cs:
            ca = ct["args"][l_ - 1] if l_ - 1 < len(ct["args"]) else None
            cc = op_const(ca) if ca is not None else None
            if cc and "str" in cc:
                consts.append(cc["str"])
                continue
            pl2 = op_place(ca) if ca is not None else None
            if pl2 is None:
                other = True
                continue
            c3, o3 = _const_strs(cb, pl2["l"], depth - 1)
            consts += c3
            other = other or o3 or not c3
    return consts, other


def _ident_always_valid(ast, b, site):
    """a `format_ident!` whose result is an identifier whatever the run-time values: the template consists of identifier
    characters and placeholders, starts with a letter / underscore (or with a placeholder filled by an identifier), and every
    interpolated value is an integer, an Ident or a parser Key (validated as an identifier by Key::new) - never text.
    Returns (template, reason) or None."""
    from astlib import find_all
    line = site["line"]
    tys = []
    from mirlib import backward_slice as _bs
    for blk in b.blocks:
        for st in blk["stmts"]:
            if st.get("k") == "Assign" and st.get("line") == line and st["rv"].get("k") == "Aggregate" and st["rv"].get("adt") == "quote::__private::IdentFragmentAdapter" and not st["place"]["p"]:
                m = re.match(r"^quote::__private::IdentFragmentAdapter<(.*)>$", b.local_ty(st["place"]["l"]))
                ty = m.group(1) if m else "?"
                if re.match(r"^&*str$", ty):
                    # text: fine when every value that can flow here is a string *constant* of identifier characters (e.g. a name picked
                    # by a match over literals, or a literal passed by every caller of this private helper) - nothing computed, nothing
                    # from the input
                    consts, other = [], False
                    for o in st["rv"].get("ops", []):
                        c0 = op_const(o)
                        if c0 and "str" in c0:
                            consts.append(c0["str"])
                        pl = op_place(o)
                        if pl is not None:
                            c1, o1 = _const_strs(b, pl["l"], 2)
                            consts += c1
                            other = other or o1
                    if consts and not other and all(re.match(r"^[A-Za-z0-9_]+$", c_) for c_ in consts):
                        ty = "usize"              # treated like a number: identifier characters only
                tys.append(ty)
    macros = []
    for f in ast.fns:
        if f.file == b.file and f.body is not None and not f.is_test():
            for mnode in find_all(f.body, "Macro"):
                if mnode.get("path") == "format_ident" and mnode.get("line") == line and mnode.get("args") and mnode["args"][0].get("k") == "Lit":
                    macros.append(mnode)
    if len({id(x) for x in macros}) < 1 or len({m["args"][0].get("str") for m in macros}) != 1:
        return None
    tmpl = macros[0]["args"][0].get("str") or ""
    nph = len(re.findall(r"\{[^}]*\}", tmpl))
    if nph != len(tys) or not all(_IDENT_TYPES.match(t) for t in tys):
        return None
    rest = re.sub(r"\{[^}]*\}", "", tmpl)
    if not re.match(r"^[A-Za-z0-9_]*$", rest) or not re.search(r"[A-Za-z_]", rest):
        return None
    if not (re.match(r"^[A-Za-z_]", tmpl) or (tmpl.startswith("{") and tys and not _NUM_TYPES.match(tys[0]))):
        return None
    return tmpl, "template `%s` with %s: an identifier for every value" % (tmpl, ", ".join(tys) or "no arguments")


def _len_after_push(b, site):
    """`len - 1` where `len` is the result of Vec::len called in the block that directly follows a Vec::push on the same
    vector place (no other statement in between can shrink it)"""
    from mirlib import backward_slice
    t = site["term"]
    ops = t.get("ops") or []
    if len(ops) != 2:
        return False
    c = op_const(ops[1])
    p = op_place(ops[0])
    if not c or str(c.get("int")) != "1" or not p or p["p"]:
        return False
    # the block that computes the length
    len_blocks = [i for i, tt in b.calls() if (callee_name(tt) or "").endswith("Vec::<T, A>::len") or (callee_name(tt) or "").endswith("Vec::<T>::len")]
    for lb in len_blocks:
        tt = b.blocks[lb]["term"]
        if (tt.get("dest") or {}).get("l") != p["l"] and not _copies_to(b, (tt.get("dest") or {}).get("l"), p["l"]):
            continue
        if tt.get("target") != site["block"] and site["block"] not in b.succ(lb):
            continue
        vec_roots = _place_roots(b, tt["args"][0])
        for pb in b.preds().get(lb, []):
            pt = b.blocks[pb]["term"]
            if pt["k"] == "Call" and re.search(r"Vec::<T(, A)?>::push$", callee_name(pt) or "") and _place_roots(b, pt["args"][0]) == vec_roots and vec_roots:
                return True
    return False


def _copies_to(b, src, dst):
    if src is None:
        return False
    for _i, _j, s in b.assigns():
        if s["place"]["l"] == dst and not s["place"]["p"] and s["rv"]["k"] == "Use":
            q = op_place(s["rv"]["ops"][0])
            if q and q["l"] == src and not q["p"]:
                return True
    return False


def _place_roots(b, op):
    """(root local, projection text) of the place a reference operand points to, following one level of `&mut` temporaries"""
    q = op_place(op)
    if q is None:
        return None
    for _i, _j, s in b.assigns():
        if s["place"]["l"] == q["l"] and not s["place"]["p"] and s["rv"]["k"] == "Ref" and s["rv"].get("place"):
            pl = s["rv"]["place"]
            return (pl["l"], tuple(pl["p"]))
    return (q["l"], tuple(q["p"]))


def p1_inventory(ctx, cfgs):
    r = Rule("C09.P1", "panic-capable site inventory vs confirmed table",
             "a panic-capable construct reachable from the load entry points that is not known to be guarded can be "
             "triggered by file content; the crate's own discipline is to return Error and use UnwrapAt only for 'cannot happen'",
             floor=80)
    tab = table("c09_sites.toml")["site"]
    allowed = {}
    for e in tab:
        allowed[(e["body"], e["kind"], e["what"])] = e
    seen_keys = set()
    for cfg in cfgs:
        prog = ctx.mir(cfg)
        PROG_FOR_IDENT[:] = [prog]
        counts = Counter()
        lines = defaultdict(list)
        for b in loading_bodies(prog):
            for s in panics.inventory(b):
                if s["kind"] == "assert" and s["what"] == "Overflow(Add)":
                    # auto rule: additions of usize lengths/offsets of in-memory data (checked: operand type)
                    t = s["term"]
                    tys = []
                    for op in t["ops"]:
                        p = op_place(op)
                        c = op_const(op)
                        tys.append(b.local_ty(p["l"]) if p and not p["p"] else (c["ty"] if c else "?"))
                    if all(ty in ("usize", "?") for ty in tys):
                        r.inst("%s#Overflow(Add)" % b.name, "auto-discharged: usize length/offset addition", cfg=cfg)
                        continue
                if s["kind"] == "assert" and s["what"] == "Overflow(Sub)" and _len_after_push(b, s):
                    r.inst("%s#Overflow(Sub)@len-after-push" % b.name, "auto-discharged: `v.len() - 1` computed immediately after `v.push(..)` on the same vector (the length is at least 1)", cfg=cfg)
                    continue
                if s["kind"] == "ident-new" and s["what"] == "format_ident!":
                    why = _ident_always_valid(ctx.ast, b, s)
                    if why:
                        r.inst("%s#format_ident!@%s" % (root_fn(b.name), why[0]), "auto-discharged: " + why[1], cfg=cfg)
                        continue
                if s["kind"] == "ident-new" and re.search(r"Ident::new$", s["what"] or "") and s["term"].get("args"):
                    # Ident::new(text, span) panics on text that is not an identifier: fine when only string *constants* that are
                    # identifiers can flow into the first argument (a literal, or a name picked by a match over literals)
                    a0_ = s["term"]["args"][0]
                    c0_ = op_const(a0_)
                    consts_, other_ = ([c0_["str"]], False) if c0_ and "str" in c0_ else (_const_strs(b, op_place(a0_)["l"], 2) if op_place(a0_) is not None else ([], True))
                    if consts_ and not other_ and all(re.match(r"^[A-Za-z_][A-Za-z0-9_]*$", c_) for c_ in consts_):
                        r.inst("%s#Ident::new@%s" % (root_fn(b.name), "|".join(sorted(set(consts_)))[:60]), "auto-discharged: the text is one of the identifier constants %s" % sorted(set(consts_))[:6], cfg=cfg)
                        continue
                key = (root_fn(b.name), s["kind"], s["label"] or s["what"])
                counts[key] += 1
                lines[key].append("%s:%d" % (b.file, s["line"]))
        # a site that moved into a private helper with a single caller is still its caller's site
        callers = defaultdict(set)
        for name, tgts in prog.edges().items():
            for t in tgts:
                if t in prog.bodies and root_fn(t) != root_fn(name):
                    callers[root_fn(t)].add(root_fn(name))
        merged = Counter()
        mlines = defaultdict(list)
        for key, n in counts.items():
            k2 = key
            hops = 0
            while k2 not in allowed and hops < 3 and len(callers.get(k2[0], ())) == 1 and not prog.bodies[k2[0]].is_pub if k2[0] in prog.bodies else False:
                k2 = (next(iter(callers[k2[0]])), k2[1], k2[2])
                hops += 1
            if k2 not in allowed:
                k2 = key
            merged[k2] += n
            mlines[k2] += lines[key]
        counts, lines = merged, mlines
        for key, n in sorted(counts.items()):
            e = allowed.get(key)
            skey = "%s#%s#%s" % key
            if e is None:
                if (cfg, skey) not in seen_keys:
                    r.viol("P1:" + skey, "panic-capable site not in the confirmed table (%d occurrence(s)) at %s [cfg %s]" % (n, ", ".join(lines[key]), cfg),
                           file=lines[key][0].rsplit(":", 1)[0], line=int(lines[key][0].rsplit(":", 1)[1]))
                continue
            if n > e["count"]:
                r.viol("P1:" + skey + "#count", "%d site(s) of this kind in the function, the confirmed table lists %d: a new panic-capable site was added at one of %s [cfg %s]" % (n, e["count"], ", ".join(lines[key]), cfg),
                       file=lines[key][0].rsplit(":", 1)[0])
                continue
            if e.get("status") == "defect":
                r.viol("P1:" + skey, "known-defective site still present: %s (%s)" % (e["why"], ", ".join(lines[key])),
                       file=lines[key][0].rsplit(":", 1)[0], line=int(lines[key][0].rsplit(":", 1)[1]))
            if e.get("requires_call"):
                # the reason given for this site only holds while a named call receives a named enum variant: look at the MIR
                import mustlib as _M
                okv = []
                for bb in prog.bodies.values():
                    if root_fn(bb.name) != key[0]:
                        continue
                    for ci in _M.call_blocks(bb, e["requires_call"]):
                        vs = set()
                        for a in bb.blocks[ci]["term"]["args"]:
                            pl = op_place(a)
                            for d in (bb.defs().get(pl["l"], []) if pl and not pl["p"] else []):
                                rv = d[2].get("rv", {}) if d[1] != "term" else {}
                                if rv.get("k") == "Aggregate" and rv.get("agg") == "Adt":
                                    vs.add("%s::%s" % (rv.get("adt"), rv.get("variant")))
                        okv.append(e["requires_variant"] in vs)
                if not okv or not all(okv):
                    r.viol("P1:" + skey + "#precondition", "the site is only safe while `%s` is called with %s (%s); on this tree %s" % (
                        e["requires_call"].rstrip("$"), e["requires_variant"], e["why"], "the call was not found" if not okv else "it is called with another variant"),
                        file=lines[key][0].rsplit(":", 1)[0], line=int(lines[key][0].rsplit(":", 1)[1]))
                    continue
            if (skey) not in seen_keys:
                seen_keys.add(skey)
                r.inst(skey, "count=%d listed=%d: %s" % (n, e["count"], e["why"]), cfg=cfg)
    return r


def r1_unrenderable(ctx, prog):
    import mustlib as M
    from astlib import show
    from rules.common import flatp, has
    r = Rule("C09.R1", "values the generators cannot render never reach a rendered position",
             "flatten()/EitherOfWrapper::new() end in unreachable!() for null values and empty branch lists; the parser must "
             "reject (or reroute) every input that would put one there", floor=4)
    b = prog.body("<leptos_i18n_parser::parse_locales::parsed_value::ParsedValueSeed<'_> as serde::de::Visitor<'de>>::visit_unit")
    if b is None:
        r.missing("ParsedValueSeed::visit_unit")
    else:
        dflt = M.agg_blocks(b, "parsed_value::ParsedValue", "Default")
        sws = []
        for i, sw in b.terms("SwitchInt"):
            p = op_place(sw["discr"])
            if p is None:
                continue
            for (di, dj, ds) in b.defs().get(p["l"], []):
                if dj != "term" and ds["rv"]["k"] == "Use":
                    src = op_place(ds["rv"]["ops"][0])
                    if src and src["l"] == 1 and any(e.startswith(".") and M.field_name(prog, "leptos_i18n_parser::parse_locales::parsed_value::ParsedValueSeed", int(e[1:])) == "in_range" for e in src["p"]):
                        sws.append((i, sw))
        ok = False
        for (i, sw) in sws:
            zero = [t for v, t in sw["targets"] if v == "0"]
            if zero and dflt and all(b.dominates(zero[0], d) for d in dflt) and not b.paths_avoiding(sw["otherwise"], dflt, [zero[0]]):
                ok = True
        if ok:
            r.inst("ParsedValueSeed::visit_unit", "Ok(Default) only on the `!self.in_range` side: a range branch cannot be null")
        else:
            r.viol("R1:visit_unit#in_range", "a null inside a range is accepted as ParsedValue::Default: code generation would reach unreachable!(\"defaulted value should never have been rendered\")", file=b.file, line=b.line)
    # a null value is never a plural form: is_possible_plural evaluated on a value of every kind (rules/absint.py)
    fn = ctx.ast.fn("leptos_i18n_parser/src/parse_locales/locale.rs", "is_possible_plural")
    if fn is None:
        r.missing("Locale::is_possible_plural")
    else:
        from rules import absint as _ab
        fpl = dict(_ab.file_funcs(ctx.ast, "leptos_i18n_parser/src/parse_locales/plurals.rs"))
        fpl.update(_ab.file_funcs(ctx.ast, "leptos_i18n_parser/src/parse_locales/locale.rs", "Locale"))
        got = _ab.AEval(funcs=fpl).run_fn(fn, [_ab.CF("Key", name=("str", "k_one")), _ab.C("Default")])
        ctl = _ab.AEval(funcs=fpl).run_fn(fn, [_ab.CF("Key", name=("str", "k_one")), _ab.C("Literal", _ab.A("s"))])
        if got == _ab.C("None") and not isinstance(ctl, str) and ctl[0] == "ctor" and ctl[1] == "Some":
            r.inst("is_possible_plural", "a null value is never a plural form (`k_one: null` -> not a candidate; `k_one: \"..\"` -> candidate)")
        else:
            r.viol("R1:is_possible_plural#null-form", "a null value can be merged as a plural form (is_possible_plural(`k_one`, null) = %s): code generation would reach unreachable!()" % (got if isinstance(got, str) else _ab.fmt(got)), file="leptos_i18n_parser/src/parse_locales/locale.rs")
    # nulls and subkeys inside a bloc are dropped by reduce_into: decided by the evaluation of C01.R3 (rules/c01.py) on a bloc that
    # holds every kind of value
    from rules import c01
    k3 = c01.r3_join(ctx)
    if any("reduce_into" in v.key for v in k3.violations):
        r.viol("R1:reduce_into#drops", "nulls / subkeys are no longer dropped from blocs: %s" % [v.msg[:160] for v in k3.violations if "reduce_into" in v.key][:1], file="leptos_i18n_parser/src/parse_locales/parsed_value.rs")
    elif any(i["site"] == "reduce_into" for i in k3.instances):
        r.inst("reduce_into", "nulls and subkeys inside a bloc are dropped (evaluated on a bloc holding every kind of value)")
    else:
        r.viol("R1:reduce_into#drops", "reduce_into could not be evaluated", file="leptos_i18n_parser/src/parse_locales/parsed_value.rs")
    b2 = prog.body("ranges::Ranges::from_serde_seq")
    if b2 is not None and M.call_blocks(b2, r"ranges::Ranges::is_empty$") and M.must_pass(b2, M.call_blocks(b2, r"ranges::Ranges::is_empty$"), M.ok_return_blocks(b2)):
        r.inst("Ranges::from_serde_seq", "a range without branches is rejected (EitherOfWrapper::new(0) unreachable)")
    else:
        r.viol("R1:from_serde_seq#empty", "a typed range without branches is accepted: code generation would reach unreachable!(\"0 locales ?\")", file="leptos_i18n_parser/src/parse_locales/ranges.rs")
    # macro: identifiers are built from the locale names (`<NAME>_LANGID`): the names are validated as language identifiers *before* that,
    # so that a name such as `r#en` is an InvalidLocale error and not a panic in format_ident!
    bce = prog.body("leptos_i18n_macro::load_locales::create_locales_enum")
    if bce is None:
        r.missing("create_locales_enum")
    else:
        fam_ce = prog.family(bce)
        val_ = [(bb_, i_) for bb_ in fam_ce for i_ in M.call_blocks(bb_, r"core::str::<impl str>::parse$") if "LanguageIdentifier" in ((bb_.blocks[i_]["term"]["func"].get("const") or {}).get("fn_full", ""))]
        idc_ = {bb_.name for bb_ in fam_ce if bb_ is not bce and M.call_blocks(bb_, r"quote::__private::mk_ident$|proc_macro2::Ident::new$")}
        clos_ = {bb_.name for bb_, _ in val_}

        def agg_lines(names_):
            return [st_.get("line") or 0 for _i, _j, st_ in bce.assigns() if st_["rv"]["k"] == "Aggregate" and st_["rv"].get("agg") == "Closure" and st_["rv"].get("def") in names_]
        vl_, il_ = agg_lines(clos_), agg_lines(idc_)
        if not vl_:
            # the validation may sit in a private helper: then the helper's call is where it runs
            for ci_, t_ in bce.calls():
                hb_ = prog.bodies.get(callee_name(t_) or "")
                if hb_ is not None and hb_.crate == "leptos_i18n_macro" and not hb_.is_pub and any(
                        "LanguageIdentifier" in ((x_.blocks[j_]["term"]["func"].get("const") or {}).get("fn_full", "")) for x_ in prog.family(hb_) for j_ in M.call_blocks(x_, r"core::str::<impl str>::parse$")):
                    vl_.append(t_.get("line") or 0)
        # (source order of the two closures in the function body: the validating iterator is collected with `?` where it is written)
        okv_ = bool(vl_) and (not il_ or min(vl_) < min(il_))
        if okv_:
            r.inst("create_locales_enum#names-validated-first", "locale names are parsed as language identifiers before any identifier is built from them")
        else:
            r.viol("R1:create_locales_enum#names-validated-first", "identifiers are built from the locale names before the names are validated as language identifiers: a name that is not one "
                   "(`r#en`) panics in format_ident! instead of being reported as InvalidLocale", file=bce.file, line=bce.line)
    # build helper: locale names validated before use
    b3 = prog.body("leptos_i18n_build::TranslationsInfos::parse_inner")
    if b3 is None:
        r.missing("TranslationsInfos::parse_inner")
    else:
        oks = M.ok_return_blocks(b3)
        parses = M.call_blocks(b3, r"core::str::<impl str>::parse$")
        vb, via = b3, None
        if not parses:
            # the validation may sit in a private helper parse_inner calls: then the helper has the loop, and parse_inner must run it
            # before its Ok return and look at its result (`?` or a match)
            for ci_, t_ in b3.calls():
                hb_ = prog.bodies.get(callee_name(t_) or "")
                if hb_ is not None and hb_.name.startswith("leptos_i18n_build::") and not hb_.is_pub and M.call_blocks(hb_, r"core::str::<impl str>::parse$"):
                    vb, via = hb_, ci_
                    break
        b3_oks = oks
        if via is not None:
            dest_ = b3.blocks[via]["term"]["dest"]["l"]
            cps_ = set(M.copies_of(b3, dest_)) | {dest_}
            looked = any((op_place(a_) or {}).get("l") in cps_ for _i2, t2 in b3.calls() if re.search(r"Try>::branch$", callee_name(t2) or "") for a_ in t2["args"]) \
                or bool(M.discr_switches(b3, lambda pl_: pl_["l"] in cps_))
            if not (b3_oks and b3.dominates(via, b3_oks[0]) and looked):
                r.viol("R1:parse_inner#validate-locales", "the helper that validates the locale names (%s) does not run before every Ok return of parse_inner, or its result is not looked at" % vb.name.split("::")[-1], file=b3.file, line=b3.line)
            parses = M.call_blocks(vb, r"core::str::<impl str>::parse$")
            oks = M.ok_return_blocks(vb)
        b3 = vb
        errs = M.agg_blocks(b3, "error::Error", "InvalidLocale")
        lp = M.loop_of(b3, parses[0]) if parses else None
        # the type the names are validated as is the type they are later parsed-and-unwrapped as (get_locales_langids and its closures)
        def _parsed_types(body_names):
            out = set()
            for bn in body_names:
                bb_ = prog.bodies[bn]
                for ci in M.call_blocks(bb_, r"core::str::<impl str>::parse$|::from_str$|::try_from_bytes$|::try_from_str$"):
                    full = (bb_.blocks[ci]["term"]["func"].get("const") or {}).get("fn_full", "")
                    m_ = re.search(r"parse::<(.+)>$", full) or re.search(r"^<?([\w:]+?)(?: as [^>]+>)?::(?:from_str|try_from_bytes|try_from_str)$", full)
                    out.add(m_.group(1) if m_ else full)
            return out
        validated = _parsed_types([b3.name])          # (b3: parse_inner, or the private helper holding the validation)
        users = [n_ for n_ in prog.bodies if root_fn(n_) == "leptos_i18n_build::TranslationsInfos::get_locales_langids" or n_.startswith("leptos_i18n_build::TranslationsInfos::get_locales_langids::")]
        # (a private helper it hands the names to counts as part of it)
        for n_ in list(users):
            for _i, t_ in prog.bodies[n_].calls():
                cn_ = callee_name(t_) or ""
                hb_ = prog.bodies.get(cn_)
                if hb_ is not None and cn_.startswith("leptos_i18n_build::") and not hb_.is_pub and cn_ not in users:
                    users.append(cn_)
        used = _parsed_types(users)
        if users and not used:
            r.viol("R1:get_locales_langids#parse", "get_locales_langids no longer parses the locale names with a call the rule recognises: cannot relate it to the validation in parse_inner", file=b3.file)
        elif used - validated:
            r.viol("R1:parse_inner#validated-type", "parse_inner validates the locale names as %s, get_locales_langids parses them as %s and unwraps: a name the validation accepts and the later parse "
                   "rejects (e.g. one with a -u- extension) panics" % (sorted(validated), sorted(used)), file=b3.file, line=b3.line)
        elif oks and parses and errs and lp and b3.dominates(lp[0], oks[0]) and not b3.paths_avoiding(errs[0], oks, []):
            r.inst("TranslationsInfos::parse_inner (C09.B1)", "every locale name is parsed as a LanguageIdentifier before Ok; failure -> InvalidLocale; get_locales_langids unwraps a parse of the same type (%s)" % sorted(used))
        else:
            r.viol("R1:parse_inner#validate-locales", "locale names are not validated as language identifiers before TranslationsInfos is returned: get_locales_langids would panic", file=b3.file, line=b3.line)
    return r


def p3_floats(ctx, prog):
    import mustlib as M
    r = Rule("C09.P3", "only finite floats can reach token generation",
             "proc_macro2 asserts `f.is_finite()` when a float becomes a literal token: NaN / infinities accepted by the parser make "
             "load_locales! panic", floor=5)
    allowed_unchecked = {
        "<leptos_i18n_parser::parse_locales::parsed_value::LiteralVisitor as serde::de::Visitor<'_>>::visit_f64":
            "LiteralVisitor only deserialises foreign-key arguments through serde_json, which cannot produce non-finite numbers",
    }
    n = 0
    for name, b in sorted(prog.bodies.items()):
        if b.crate != "leptos_i18n_parser" or "Clone>::clone" in name or "PartialEq>::" in name or "Debug>::fmt" in name:
            continue
        for i, j, s in b.aggregates("parsed_value::Literal", "Float"):
            n += 1
            if name in allowed_unchecked:
                r.inst(name + "#Literal::Float", "allow-listed: " + allowed_unchecked[name])
                continue
            fin = M.call_blocks(b, r"^f64::<impl f64>::is_finite$|::is_finite$")
            ok = False
            for c in fin:
                rsw = M.result_switch(b, c)
                if rsw and b.dominates(rsw[1], i) and not b.paths_avoiding(rsw[2], [i], [rsw[1]]):
                    ok = True
            if ok:
                r.inst(name + "#Literal::Float", "constructed only on the true side of is_finite()")
            else:
                r.viol("P3:%s#Literal::Float" % name, "a float literal is constructed without a finiteness check (YAML `.inf` / `.nan` would reach the token generator)", file=b.file, line=s["line"])
    fam = prog.bodies_matching(r"ranges::Range::<T>::new(::\{closure#\d+\})*$")
    calls = [t for bb in fam for i, t in bb.calls() if (op_const(t["func"]) or {}).get("fn", "").endswith("RangeNumber::is_finite")]
    if calls:
        r.inst("Range::new parse", "parsed bounds are filtered with RangeNumber::is_finite")
    else:
        r.viol("P3:Range::new#is_finite", "range bounds parsed from text (`\"inf\"`, `\"NaN\"`, `\"1e999\"`) are not checked for finiteness", file="leptos_i18n_parser/src/parse_locales/ranges.rs")
    b = prog.body("<leptos_i18n_parser::parse_locales::ranges::RangeSeed<T> as serde::de::Visitor<'de>>::visit_f64")
    if b is None:
        r.missing("RangeSeed::visit_f64")
    else:
        okc = [t for bb in prog.family(b) for i, t in bb.calls() if (op_const(t["func"]) or {}).get("fn", "").endswith("RangeNumber::is_finite")]
        src = M.call_blocks(b, r"f64::<impl f64>::is_finite$|^core::f64::<impl f64>::is_finite$|::is_finite$")
        if okc and src:
            r.inst("RangeSeed::visit_f64", "the f64 and its conversion to the range type are both checked with is_finite")
        else:
            r.viol("P3:RangeSeed::visit_f64", "numeric range bounds are not checked for finiteness (before and after conversion to f32)", file=b.file, line=b.line)
    for ty in ("f32", "f64"):
        cands = prog.bodies_matching(r"RangeNumber for %s>::is_finite$" % ty)
        bb = cands[0] if cands else None
        if bb is None:
            r.missing("<%s as RangeNumber>::is_finite" % ty)
        elif M.call_blocks(bb, r"::is_finite$"):
            r.inst("<%s as RangeNumber>::is_finite" % ty, "delegates to %s::is_finite" % ty)
        else:
            r.viol("P3:<%s as RangeNumber>::is_finite" % ty, "does not test finiteness", file=bb.file, line=bb.line)
    if n < 2:
        r.viol("P3:sites", "only %d Literal::Float construction sites found" % n)
    return r


def _cha_only_cycle(prog, comp):
    """the cycle exists only because an unresolved trait-method call on a type parameter was approximated by all impls"""
    from mirlib import callee_of
    comp = set(comp)
    items = set()
    for n in comp:
        m = re.match(r"^<.* as ([\w:]+)(?:<.*>)?>::(\w+)$", n)
        if not m:
            return False
        items.add((m.group(1), m.group(2)))
    if len(items) != 1:
        return False
    for n in comp:
        b = prog.bodies[n]
        for i, t in b.calls(cleanup=True):
            f, rr = callee_of(t)
            if f is None:
                continue
            if (rr or f) in comp:
                return False
    return True


def t_termination(ctx, cfgs):
    import mustlib as M
    from rules.common import table
    r = Rule("C09.T", "every loop and every recursive cycle of the loading code has a recorded progress argument",
             "`never ... loops forever or overflows the stack`: a new loop without a consumable iterator, or a new recursive cycle, "
             "needs its own termination argument", floor=150)
    tab = table("c09_recursion.toml")["scc"]
    known = {tuple(sorted(e["members"])): e for e in tab}
    loop_table = {
        "leptos_i18n_parser::parse_locales::locale::DefaultedLocales::default_of_inner":
            "while let Some(next) = mapping.get(cur): `cur` is inserted in `visited` every iteration and the loop returns when `next` was visited, so it runs at most |mapping|+1 times (shape checked by C03.R3)",
        "leptos_i18n_parser::parse_locales::parsed_value::ParsedValue::find_valid_component":
            "skip_sum grows by at least 2 bytes per non-exiting iteration and the search returns None when no `<..>` is left (delta proved positive by the symbolic offset analysis, C09.P2)",
    }
    # the chain walk of the foreign-key resolver: decided, not recorded - C06.R0 interprets the resolution step on every shape of
    # `inherits` table (chain, cycle, self reference, absent links) with a 64-iteration fuel and reports a walk that does not end
    try:
        from rules import c06
        k0, ok0, _why = c06.r0_substitution(ctx)
        if ok0 and not [v for v in k0.violations if "resolve_foreign_key_inner" in v.key]:
            loop_table["leptos_i18n_parser::parse_locales::parsed_value::ParsedValue::resolve_foreign_key_inner"] = (
                "chain walk over `inherits`: every iteration returns, breaks, or moves to a locale not visited before (else to the default locale, where a null "
                "or absent target is an error) - evaluated by C06.R0 on chains, cycles, self references and absent links: every walk ends")
    except Exception:  # noqa: BLE001
        pass
    # the sub-key recursion through serde (LocaleSeed::visit_map <-> ParsedValueSeed::visit_map, invisible to the call graph: it goes through the
    # deserializer): serde_json and serde_yaml refuse more than 128 levels themselves, the json5 crate has no limit - so with `json5_files` the
    # nesting depth of a file is bounded only if the visitors bound it
    try:
        cargo_ = ctx.read("leptos_i18n_parser/Cargo.toml")
        vm_ = [f for f in ctx.ast.fns if f.file.endswith("parse_locales/parsed_value.rs") and f.name == "visit_map" and "ParsedValueSeed" in (f.impl_self or "") and f.body is not None]
        if "json5" in cargo_ and vm_:
            from astlib import show as _show
            body_ = _show(vm_[0].body)
            if re.search(r"key_path\.(path\.)?len\(\)|depth|recursion", body_):
                r.inst("ParsedValueSeed::visit_map#nesting", "the visitor bounds the nesting depth itself (json5 has no recursion limit)", cfg="json5")
            else:
                r.viol("T:json5-nesting", "with the `json5_files` feature a file of deeply nested sub-keys recurses LocaleSeed::visit_map <-> ParsedValueSeed::visit_map without bound: the json5 crate has no "
                       "recursion limit (serde_json / serde_yaml stop at 128) and the visitors add none", file=vm_[0].file, line=vm_[0].line)
    except Exception:  # noqa: BLE001
        pass
    nxt = re.compile(r"::next$|::next_key$|::next_key_seed$|::next_element_seed$|::next_element$|::next_value|::next_entry")
    for cfg in cfgs:
        prog = ctx.mir(cfg)
        lb = loading_bodies(prog)
        names = {b.name for b in lb}
        for comp in prog.sccs(names):
            roots = tuple(sorted({root_fn(c) for c in comp}))
            e = known.get(roots)
            if e is None:
                # a listed cycle that gained private helpers (an extracted function called only from inside the cycle) is the same
                # cycle with the same progress argument; so is one that lost such a helper
                for kroots, ke in known.items():
                    extra = set(roots) - set(kroots)
                    lost = set(kroots) - set(roots)
                    if not (set(roots) & set(kroots)) or (extra and lost):
                        continue
                    if lost and not extra:
                        if all(x not in prog.bodies for x in lost):
                            e = ke
                            break
                        continue
                    callers = {}
                    for nm, tgts in prog.edges().items():
                        for t_ in tgts:
                            callers.setdefault(root_fn(t_), set()).add(root_fn(nm))
                    if all((x in prog.bodies and not prog.bodies[x].is_pub and callers.get(x, set()) <= set(roots)) for x in extra):
                        e = ke
                        break
            if e is None and _cha_only_cycle(prog, comp):
                r.inst("cycle " + " / ".join(x.split("::")[-1] for x in roots)[:100], "artifact of the class-hierarchy approximation: impls of one trait method for generic types that only call it on their type parameters (no member calls another member directly); each real instantiation recurses into a strictly smaller type", cfg=cfg)
            elif e is None:
                # tolerate a listed cycle that merely gained/lost closures or helper members: same root set required
                r.viol("T:scc:" + "+".join(x.split("::")[-1] for x in roots)[:120], "recursive cycle without recorded termination argument: %s [cfg %s]" % (", ".join(roots), cfg), file=prog.bodies[comp[0]].file, line=prog.bodies[comp[0]].line)
            elif e["status"] == "finding":
                r.viol("T:scc-unbounded:" + roots[0].split("::")[-1], "recursion depth is not bounded by the code: %s" % e["why"], file=prog.bodies[comp[0]].file)
                r.inst("cycle " + " / ".join(x.split("::")[-1] for x in roots)[:100], e["why"][:160], cfg=cfg)
            else:
                r.inst("cycle " + " / ".join(x.split("::")[-1] for x in roots)[:100], e["why"][:160], cfg=cfg)
        for b in lb:
            for (hdr, nodes, srcs) in M.loops(b):
                nexts = [i for i in nodes if b.blocks[i]["term"]["k"] == "Call" and nxt.search(callee_name(b.blocks[i]["term"]) or "")]
                site = "%s#loop@L%s" % (b.name, b.blocks[hdr]["term"].get("line"))
                if nexts:
                    # the iterator's None side must leave the loop
                    exits = False
                    for nb in nexts:
                        dest = b.blocks[nb]["term"]["dest"]["l"]
                        for (si, sw, pl) in M.discr_switches(b, lambda pl, dest=dest: pl["l"] == dest):
                            tg = [t for v, t in sw["targets"]] + [sw["otherwise"]]
                            if any(t not in nodes for t in tg):
                                exits = True
                        # `?`-wrapped iterators (serde): the Option is unwrapped from a Result first
                        if not exits:
                            for i in nodes:
                                if b.blocks[i]["term"]["k"] == "SwitchInt" and any(t not in nodes for t in b.succ(i)):
                                    exits = True
                    if exits:
                        r.inst(site, "consumes an iterator (%s) and leaves when it is exhausted" % (callee_name(b.blocks[nexts[0]]["term"]) or "")[-60:], cfg=cfg)
                    else:
                        r.viol("T:loop:%s" % root_fn(b.name), "loop advances an iterator but never leaves on exhaustion", file=b.file, line=b.blocks[hdr]["term"].get("line"))
                elif root_fn(b.name) in loop_table:
                    r.inst(site, loop_table[root_fn(b.name)][:200], cfg=cfg)
                elif (M.owner_of(prog, b.name) or True) and len(prog._callers.get(root_fn(b.name), ())) == 1 and next(iter(prog._callers[root_fn(b.name)])) in loop_table \
                        and not getattr(prog.bodies.get(root_fn(b.name)), "is_pub", True):
                    # the loop moved into a private helper called only from the function whose loop is discharged: same loop, same argument
                    own_ = next(iter(prog._callers[root_fn(b.name)]))
                    r.inst(site, ("(extracted from %s) " % own_.split("::")[-1] + loop_table[own_])[:200], cfg=cfg)
                else:
                    r.viol("T:loop:%s" % root_fn(b.name), "loop without a consumable iterator and without recorded progress argument (line %s) [cfg %s]" % (b.blocks[hdr]["term"].get("line"), cfg), file=b.file, line=b.blocks[hdr]["term"].get("line"))
    return r


def run(ctx):
    cfgs = ["main"] if ctx.tier == "quick" else ["main", "yaml", "json5", "bare"]
    from rules import offsets
    prog = ctx.mir("main")
    rules = [p1_inventory(ctx, cfgs), offsets.rule_boundaries(ctx), p3_floats(ctx, prog), r1_unrenderable(ctx, prog), t_termination(ctx, cfgs)]
    # the table discharges `unwrap_at("resolve_foreign_keys_1")` with "the recorded path is found again, directly or at the merged
    # plural key": that the retry asks for exactly the key merge_plurals merged the form under is decided by evaluating both
    # functions on the same key spellings (rules/fkeval.py, shared with C06.R4)
    # ... and that the recorded path still leads to the value it was recorded for: a later key of the same file spelled the same (`"a"` twice,
    # or `"a"` and `" a"`) must not replace the subtree - the duplicate-key clause of C10.R7 (any policy other than an error depends on the
    # order of the keys, which is what that rule evaluates)
    from rules import c10 as _c10
    from rules.common import borrow as _borrow
    p5 = _borrow(_c10.r7_key_order(ctx), "C09.P5", "a key written twice in a file cannot remove the subtree a reference path was recorded in",
                 "`never panics`: get_value_at_path(..).unwrap_at(\"resolve_foreign_keys_1\") is reached with every path recorded while the file was read; a second key with "
                 "the same (trimmed) name that silently replaces the first leaves a recorded path pointing at nothing", only=r"LocaleSeed", floor=1)
    from rules import fkeval, absint as _absint
    p4 = Rule("C09.P4", "the reason a table entry gives for a site is itself checked: recorded reference paths are found after plurals merge",
              "`never panics`: get_value_at_path(..).unwrap_at(\"resolve_foreign_keys_1\") is safe only while the key it retries at is the one "
              "is_possible_plural / merge_plurals used; a different way of stripping the suffix (e.g. for a base key that itself ends in `_ordinal`) "
              "turns a loadable file into a panic", floor=1)
    try:
        fkeval.check_plural_path(ctx, p4, "P4")
    except _absint.Unknown as u:
        p4.viol("P4:undecided", "cannot be interpreted on the current code (%s): not decided on this tree (fail closed)" % str(u)[:300])
    rules.append(p4)
    rules.append(p5)
    # ... and that a recorded path shadowed by another merged plural still gets the form's reference resolved (C06.R3's clause; an unresolved
    # reference reaches `unreachable!("called reduce_into on unresolved foreign key")` in code generation)
    from rules import c06 as _c06b
    _fn3 = [getattr(_c06b, n_) for n_ in dir(_c06b) if n_.startswith("r3_")][0]
    rules.append(_borrow(_fn3(ctx, prog), "C09.P6", "every recorded reference is resolved, also when another merged plural took its form's name",
                         "`never panics`: a `$t(..)` left unresolved in a plural form reaches unreachable!() in reduce_into", only=r"both-candidates", floor=1))
    return rules

MANIFEST_ENTRY = {
    "technique": "static analysis: MIR panic-site inventory + call-graph termination inventory (rustc_private driver) and syn offset-provenance dataflow, against a confirmed site table; table entries may name a checkable precondition (the FloatPrecision variant passed to FixedDecimal::try_from_f64, read from MIR); abstract evaluation of get_value_at_path against is_possible_plural for the `resolve_foreign_keys_1` site; format_ident! sites whose text arguments can only be identifier-character string constants (field-sensitive provenance through private callers) are discharged automatically; C09.R1: the type the build helper validates locale names as equals the type later parsed-and-unwrapped (generic argument of the resolved str::parse callee), validation followed into a private helper; Ident::new on identifier constants auto-discharged (field-sensitive constant provenance)",
    "level_text": "Structural: every panic-capable construct, slicing offset, float-to-token path, loop and recursive cycle in the loading code is enumerated from MIR/AST on each run and must be discharged by a rule or a confirmed table entry; any new or changed site is reported with file, function and construct. This decides the code-shape half of 'never panics or hangs' for all inputs at once; it does not execute the parser.",
    "level_note": "Trusted: the reasons in rules/tables/c09_sites.toml (confirmed by reading), the curated list of panicking std/dep APIs in py/panics.py, and that dependencies do not panic. Not decided: stack depth (known finding D4), values. Known and undecided beyond the recorded recursion findings (DESIGN 11.17, hunts/C09): ~2000 placeholders in one value, a chain of ~2000 references or 2000 nested sub-keys in JSON5 overflow the stack; `kN: \"$t(kN+1)$t(kN+1)\"` is exponential.",
}
