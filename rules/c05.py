"""C05 Plural forms are selected by the locale's CLDR plural rules."""
import re

from report import Rule
from mirlib import callee_name, op_const, op_place
import mustlib as M
from astlib import find_all, find_first, show, show_pat, quotes_in, tok_text, norm, callee_path, method_chain

EXPLANATION = (
    "Static structural analysis (syntax facts + MIR), nothing executed. Decided clauses: (R1) the six plural forms and two "
    "rule types are written in eight tables (suffix parsing, Display, ICU category -> form, parser form -> macro form, "
    "macro form -> generated PluralCategory, rule-type conversions, t_plural! form names, macro entry points) and every "
    "table is the identity on names. (R2) a key is a plural candidate iff it ends in _<form> (optionally preceded by "
    "_ordinal => Ordinal else Cardinal) and its value is not a range, a subkey group or null; candidates are merged only "
    "when there are at least two and `other` is among them. (R3) mixing rule types yields ConflictingPluralRuleType (false "
    "side of rule == rule_type), displacing an existing key yields PluralsAtNormalKey, forms outside the locale's "
    "categories yield UnusedForm. (R4) all three selectors (view generator, string generator, parse-time literal count) "
    "pick `forms[category]` and fall back to `other`, asking get_plural_rules for the rendered locale and this key's rule "
    "type. NOT decided: the CLDR category of a number (ICU4X), decimal operands, ICU data availability."
)
ASSUMPTIONS = ["icu_plurals::PluralRules::category_for / categories implement CLDR", "PluralCategory variant names are the CLDR category names"]

PP = "leptos_i18n_parser/src/parse_locales/plurals.rs"
PL = "leptos_i18n_parser/src/parse_locales/locale.rs"
MP = "leptos_i18n_macro/src/load_locales/plurals.rs"
FORMS = ["Zero", "One", "Two", "Few", "Many", "Other"]
RULES = ["Cardinal", "Ordinal"]


def flat(s):
    return re.sub(r"\s+", "", s)


from rules.common import flatp, has, same, xquotes  # noqa: E402


def last_seg(path):
    return path.split("::")[-1]


def match_table(node):
    """[(pattern last segment or literal, body text, arm)] of the first match below node"""
    m = find_first(node, "Match")
    out = []
    for a in (m or {"arms": []})["arms"]:
        p = a["pat"]
        if p["k"] in ("PPath", "PTupleStruct", "PStruct"):
            key = last_seg(p["path"])
        elif p["k"] == "PLit":
            key = p["text"]
        elif p["k"] == "PWild":
            key = "_"
        else:
            key = show_pat(p)
        out.append((key, a["body"], a))
    return out


def body_variant(body):
    """last path segment mentioned as the result of an arm: Path / Call(Some, Path) / quote!(.. :: X) / write!(f, "..")"""
    if body["k"] == "Block" and len(body["stmts"]) == 1:
        s = body["stmts"][0]
        body = s.get("expr", s)
    if body["k"] == "Path":
        return last_seg(body["path"])
    if body["k"] == "Call" and body["args"] and body["args"][0]["k"] == "Path":
        return show(body["func"]) + ":" + last_seg(body["args"][0]["path"])
    if body["k"] == "Macro" and body["path"] in ("quote",):
        toks = [t for t in body["tokens"] if t["t"] == "ident"]
        return "quote:" + (toks[-1]["v"] if toks else "")
    if body["k"] == "Macro" and body["path"] in ("write",):
        lits = [a for a in body.get("args", []) if a["k"] == "Lit"]
        return "write:" + (lits[0].get("str", "") if lits else "")
    return show(body)


def identity_table(r, key, fn, names, expect, wildcard=None):
    """expect: function variant name -> expected body_variant"""
    if fn is None:
        r.missing(key)
        return
    tab = match_table(fn.body)
    seen = {}
    for k, body, arm in tab:
        seen[k] = body_variant(body)
    ok = True
    for n in names:
        src, want = expect(n)
        got = seen.get(src)
        if got != want:
            ok = False
            r.viol("R1:%s#%s" % (key, n), "%s maps %s to `%s`, expected `%s`" % (key, src, got, want), file=fn.file, line=fn.line)
    if wildcard is not None:
        if seen.get("_") != wildcard:
            ok = False
            r.viol("R1:%s#_" % key, "%s fallback arm is `%s`, expected `%s`" % (key, seen.get("_"), wildcard), file=fn.file, line=fn.line)
    extra = set(seen) - {expect(n)[0] for n in names} - ({"_"} if wildcard is not None else set())
    if extra:
        ok = False
        r.viol("R1:%s#extra" % key, "%s has unexpected arms %s" % (key, sorted(extra)), file=fn.file, line=fn.line)
    if ok:
        r.inst(key, "identity on names for %s" % ", ".join(names))


def r1_tables(ctx):
    r = Rule("C05.R1", "plural form / rule-type tables are the identity on CLDR names",
             "the form written as a key suffix must be the form ICU reports for the count; a single crossed entry in any of "
             "the tables (e.g. few -> Many) renders the wrong text for exactly the locales that use that category, which the "
             "en/fr fixtures never do", floor=12)
    ast = ctx.ast
    identity_table(r, "PluralForm::try_from_str", ast.fn(PP, "try_from_str"), FORMS,
                   lambda n: ('"%s"' % n.lower(), "Some:" + n), wildcard="None")
    fn = ast.fn(PP, "fmt", impl_self="PluralForm", impl_trait="Display")
    identity_table(r, "Display for PluralForm", fn, FORMS, lambda n: (n, "write:_" + n.lower()))
    fn = ast.fn(PP, "fmt", impl_self="PluralRuleType", impl_trait="Display")
    identity_table(r, "Display for PluralRuleType", fn, RULES, lambda n: (n, "write:" + n.lower()))
    identity_table(r, "PluralForm::from_icu_category", ast.fn(PP, "from_icu_category"), FORMS, lambda n: (n, n))
    identity_table(r, "parser From<PluralRuleType> for IcuRuleType", ast.fn(PP, "from", impl_self="IcuRuleType"), RULES, lambda n: (n, n))
    identity_table(r, "macro From<parser PluralForm>", ast.fn(MP, "from", impl_self="PluralForm"), FORMS, lambda n: (n, n))
    identity_table(r, "macro From<parser PluralRuleType>", ast.fn(MP, "from", impl_self="PluralRuleType"), RULES, lambda n: (n, n))
    identity_table(r, "macro PluralForm::to_token_stream", ast.fn(MP, "to_token_stream", impl_self="PluralForm"), FORMS, lambda n: (n, "quote:" + n))
    identity_table(r, "macro PluralRuleType::to_token_stream", ast.fn(MP, "to_token_stream", impl_self="PluralRuleType"), RULES, lambda n: (n, "quote:" + n))
    for key, fname, ty in (("macro PluralForm", "to_token_stream", "PluralForm"), ("macro PluralRuleType", "to_token_stream", "PluralRuleType")):
        fn = ast.fn(MP, fname, impl_self=ty)
        if fn:
            for q in xquotes(fn.body):
                t = tok_text(q["tokens"])
                want = "PluralCategory" if ty == "PluralForm" else "PluralRuleType"
                if ("icu :: plurals :: " + want + " ::") not in t:
                    r.viol("R1:%s#enum" % key, "generated path `%s` is not icu::plurals::%s::*" % (t, want), file=fn.file, line=fn.line)
    # t_plural! form names
    fn = ast.fn("leptos_i18n_macro/src/t_plural/parsed_input.rs", "parse_plural_form")
    if fn is None:
        r.missing("t_plural parse_plural_form")
    else:
        got = {}
        for n in find_all(fn.body, "If"):
            c = n["cond"]
            if c["k"] == "Binary" and c["op"] == "==" and c["right"]["k"] == "Lit":
                st = n["then"]["stmts"]
                if len(st) == 1:
                    got[c["right"].get("str")] = show(st[0].get("expr", st[0]))
        ok = True
        for f in FORMS:
            if got.get(f.lower()) != "PluralForm::" + f:
                ok = False
                r.viol("R1:t_plural#" + f, "t_plural! form name \"%s\" maps to %s" % (f.lower(), got.get(f.lower())), file=fn.file, line=fn.line)
        if ok:
            r.inst("t_plural! form names", "identity for " + ", ".join(FORMS))
    # entry points
    lib = [f for f in ast.fns if f.file.endswith("leptos_i18n_macro/src/lib.rs")]
    want = {"t_plural": ("Context", "Cardinal"), "tu_plural": ("Untracked", "Cardinal"), "td_plural": ("Locale", "Cardinal"),
            "t_plural_ordinal": ("Context", "Ordinal"), "tu_plural_ordinal": ("Untracked", "Ordinal"), "td_plural_ordinal": ("Locale", "Ordinal")}
    for f in lib:
        if f.name in want:
            calls = [c for c in find_all(f.body, "Call") if (callee_path(c) or "").endswith("t_plural::t_plural")]
            if len(calls) != 1:
                r.viol("R1:entry#" + f.name, "entry point does not call t_plural::t_plural once", file=f.file, line=f.line)
                continue
            args = [show(a) for a in calls[0]["args"]]
            got = (last_seg(args[1]), last_seg(args[2]))
            if got != want[f.name]:
                r.viol("R1:entry#" + f.name, "%s! uses (%s, %s), expected %s" % (f.name, got[0], got[1], want[f.name]), file=f.file, line=f.line)
            else:
                r.inst("entry " + f.name + "!", "input %s, rule type %s" % got)
    return r


def r2_candidates(ctx):
    r = Rule("C05.R2", "which keys are plural candidates and when they merge",
             "a key that merely ends in _one must stay a normal key unless a sibling _other exists; ordinal/cardinal is read "
             "from the `_ordinal` infix; ranges, subkeys and null are never forms", floor=6)
    ast = ctx.ast
    fn = ast.fn(PL, "is_possible_plural")
    if fn is None:
        r.missing("Locale::is_possible_plural")
        return r
    # abstract evaluation (rules/absint.py): one key name per spelling class, one value per kind
    from rules import absint
    from rules.absint import AEval, C, CF, A, T
    funcs = dict(absint.file_funcs(ast, PP))
    funcs.update(absint.file_funcs(ast, PL, "Locale"))

    def key(name):
        return CF("Key", name=("str", name))
    lit = C("Literal", A("s"))
    names = {
        "k_one": ("k", "Cardinal", "One"), "k_other": ("k", "Cardinal", "Other"), "k_zero": ("k", "Cardinal", "Zero"), "k_two": ("k", "Cardinal", "Two"),
        "k_few": ("k", "Cardinal", "Few"), "k_many": ("k", "Cardinal", "Many"), "a_b_many": ("a_b", "Cardinal", "Many"),
        "k_ordinal_few": ("k", "Ordinal", "Few"), "k_ordinal_other": ("k", "Ordinal", "Other"), "a_b_ordinal_one": ("a_b", "Ordinal", "One"),
        "k": None, "k_foo": None, "one": None, "k_ordinal": None, "k_One": None,
    }
    bad = []
    for nm, want in names.items():
        v = AEval(funcs=funcs).run_fn(fn, [key(nm), lit])
        w = C("Some", T(("str", want[0]), C(want[1]), C(want[2]))) if want else C("None")
        if v != w:
            bad.append((nm, absint.fmt(v), absint.fmt(w)))
    if not bad:
        r.inst("is_possible_plural#suffix", "%d key spellings: <base>_<form> with an optional _ordinal infix, anything else is a normal key" % len(names))
        r.inst("is_possible_plural#ordinal", "`_ordinal` infix -> ordinal rule type, else cardinal")
        r.inst("is_possible_plural#form", "suffix must be one of the six CLDR form names")
    else:
        for nm, got, want in bad[:5]:
            r.viol("R2:is_possible_plural#" + nm, "key `%s` is read as %s, documented: %s" % (nm, got, want), file=fn.file, line=fn.line)
    kinds = []
    for kind, val in (("Ranges", C("Ranges", A("r"))), ("Subkeys", C("Subkeys", C("None"))), ("Default", C("Default")), ("Literal", lit), ("Bloc", C("Bloc", A("b"))), ("Variable", CF("Variable", key=A("k"), formatter=A("f")))):
        v = AEval(funcs=funcs).run_fn(fn, [key("k_one"), val])
        if v == C("None"):
            kinds.append(kind)
    if sorted(kinds) == ["Default", "Ranges", "Subkeys"]:
        r.inst("is_possible_plural#excluded", "excluded value kinds: " + ", ".join(sorted(kinds)))
    else:
        r.viol("R2:is_possible_plural#excluded", "value kinds excluded from plural candidates are %s (must be Ranges, Subkeys, Default)" % sorted(kinds), file=fn.file, line=fn.line)
    fn = ast.fn(PL, "merge_plurals", impl_self="Locale")
    if fn is None:
        r.missing("Locale::merge_plurals")
        return r
    # evaluated (rules/absint.py) on key sets of every shape the merging distinguishes; the expected key set is written from the
    # statement: forms of one base key and one rule type that include `_other` become one plural key; a lone form or forms
    # without `_other` stay ordinary keys; cardinal and ordinal forms meeting under one key, or a merged key landing on an
    # existing key, is an error; nothing is ever dropped
    from rules.absint import L, B, UNIT

    def S(x):
        return ("str", x)

    def V(n):
        return C("Literal", A("text-" + n))
    nested = CF("Locale", keys=L(T(key("a_one"), V("a_one")), T(key("a_other"), V("a_other")), T(key("b"), V("b"))), name=S("grp"), top_locale_name=S("fr"))
    shapes = {
        "plain keys": [("a", None), ("b", None)],
        "one + other": [("k_one", None), ("k_other", None)],
        "four forms and a neighbour": [("k_zero", None), ("k_one", None), ("k_few", None), ("k_other", None), ("x", None)],
        "ordinal": [("k_ordinal_one", None), ("k_ordinal_other", None)],
        "a lone form": [("k_one", None), ("z", None)],
        "forms without other": [("k_one", None), ("k_two", None)],
        "base key with underscores": [("my_key_one", None), ("my_key_other", None)],
        "unknown suffix": [("k_foo", None), ("k_other", None)],
        "range under a form name": [("k_one", C("Ranges", A("r"))), ("k_other", None)],
        "cardinal forms + an ordinal form": [("k_one", None), ("k_other", None), ("k_ordinal_few", None)],
        "ordinal forms + a cardinal form": [("k_ordinal_one", None), ("k_ordinal_other", None), ("k_many", None)],
        "cardinal form + ordinal other": [("k_one", None), ("k_ordinal_other", None)],
        "same form in both rule types": [("k_one", None), ("k_ordinal_one", None)],
        "same form in both rule types + other": [("k_one", None), ("k_ordinal_one", None), ("k_other", None)],
        "merged key lands on a normal key": [("k_one", None), ("k_other", None), ("k", None)],
        "two plural keys": [("a_one", None), ("a_other", None), ("b_ordinal_two", None), ("b_ordinal_other", None)],
        "inside a sub-key group": [("grp", C("Subkeys", C("Some", nested))), ("top", None)],
    }
    FORMS6 = {"zero": "Zero", "one": "One", "two": "Two", "few": "Few", "many": "Many", "other": "Other"}

    def reference(entries):
        """(error kind | None, {key: ("plain", value) | ("plural", rule, {form: value}, other)}) from the statement"""
        out = {}
        groups = {}
        for nm, val in entries:
            v = val if val is not None else V(nm)
            cand = None
            if v[1] not in ("Ranges", "Subkeys", "Default") and "_" in nm:
                base, suf = nm.rsplit("_", 1)
                if suf in FORMS6:
                    rule = "Cardinal"
                    if base.endswith("_ordinal"):
                        base, rule = base[:-len("_ordinal")], "Ordinal"
                    cand = (base, rule, FORMS6[suf])
            if cand:
                groups.setdefault(cand[0], []).append((nm, cand[1], cand[2], v))
            else:
                out[nm] = ("plain", v)
        errs = set()
        for base, cs in groups.items():
            if len(cs) == 1 or not any(c[2] == "Other" for c in cs):
                if len({c[2] for c in cs}) < len(cs):
                    errs.add("ConflictingPluralRuleType|verbatim")      # the same form in both rule types: rejected, or both kept
                for c in cs:
                    out[c[0]] = ("plain", c[3])
                continue
            if len({c[1] for c in cs}) != 1:
                errs.add("ConflictingPluralRuleType")
                continue
            if base in out:
                errs.add("PluralsAtNormalKey")
                continue
            out[base] = ("plural", cs[0][1], {c[2]: c[3] for c in cs if c[2] != "Other"}, next(c[3] for c in cs if c[2] == "Other"))
        return errs, out

    def shown_keys(locale_v):
        d = {}
        for x in absint.fields_of(locale_v)["keys"][1]:
            k2 = absint.fields_of(x[1][0])["name"][1]
            v2 = x[1][1]
            if v2[0] == "ctor" and v2[1] == "Plurals":
                f = absint.fields_of(v2[2][0])
                d[k2] = ("plural", f["rule_type"][1], {y[1][0][1]: y[1][1] for y in f["forms"][1]}, f["other"])
            else:
                d[k2] = ("plain", v2)
        return d
    badm = []
    nsh = 0
    for label, entries in shapes.items():
        this = CF("Locale", keys=L(*[T(key(nm), val if val is not None else V(nm)) for nm, val in entries]), name=S("fr"), top_locale_name=S("fr"))
        ev = AEval(inputs=[(r'^cfg!feature="plurals"$', B(True)), (r'^!cfg!feature="plurals"$', B(False))], funcs=funcs,
                   builtins={"check_forms": lambda rv, a: C("Ok", UNIT), "push_key": lambda rv, a: UNIT, "pop_key": lambda rv, a: C("Some", A("popped")),
                             "unwrap_at": lambda rv, a: rv[2][0] if rv[0] == "ctor" and rv[2] else rv, "get": lambda rv, a: B(False) if rv == A("SKIP_ICU_CFG") else absint.AEval.method})
        ev.builtins.pop("get")
        ev.path_builtins = {"Key::try_new": lambda a: C("Ok", CF("Key", name=a[0])), "Key::new": lambda a: C("Some", CF("Key", name=a[0])), "Key::count": lambda a: CF("Key", name=S("var_count")),
                            "SKIP_ICU_CFG.get": lambda a: B(False)}
        ev.consts = {"SKIP_ICU_CFG": A("SKIP_ICU_CFG")}
        ev.builtins["pop_key"] = lambda rv, a, st=[]: C("Some", CF("Key", name=S("?")))
        # the key path is only used for messages: modelled as an opaque stack whose top is the key just pushed
        stack = []
        ev.builtins["push_key"] = lambda rv, a, stack=stack: (stack.append(a[0]), UNIT)[1]
        ev.builtins["pop_key"] = lambda rv, a, stack=stack: C("Some", stack.pop()) if stack else C("None")
        got = ev.run_fn(fn, [this, S("fr"), A("key_path"), A("warnings")])
        nsh += 1
        if isinstance(got, str):
            badm.append("%s: cannot be evaluated: %s" % (label, got))
            break
        errs, want = reference(entries)
        after = (getattr(ev, "last_env", None) or {}).get("self", this)
        ek = got[2][0][1] if got[0] == "ctor" and got[1] == "Err" and got[2] and got[2][0][0] == "ctor" else None
        names = [nm for nm, _v in entries]
        if errs and not any("|verbatim" in e for e in errs):
            if ek not in errs:
                badm.append("keys %s: %s, expected an error (%s)" % (names, absint.fmt(got)[:100], " / ".join(sorted(errs))))
            continue
        if errs and ek is not None:
            if ek != "ConflictingPluralRuleType":
                badm.append("keys %s: %s" % (names, absint.fmt(got)[:100]))
            continue
        if got != C("Ok", UNIT):
            badm.append("keys %s: %s, expected the keys %s" % (names, absint.fmt(got)[:120], sorted(want)))
            continue
        have = shown_keys(after)
        if label == "inside a sub-key group":
            inner = have.get("grp", (None, None))[1]
            innerl = inner[2][0][2][0] if inner is not None and inner[0] == "ctor" and inner[1] == "Subkeys" and inner[2] and inner[2][0][1] == "Some" else None
            ih = shown_keys(innerl) if innerl is not None else None
            if ih is None or sorted(ih) != ["a", "b"] or ih["a"][0] != "plural":
                badm.append("the forms a_one / a_other inside a sub-key group become %s, expected the plural key `a` next to `b`" % (sorted(ih) if ih else absint.fmt(have.get("grp", ("", A("?")))[1])[:120]))
            continue
        if have != want:
            lost = sorted(set(want) - set(have))
            badm.append("keys %s become %s, expected %s%s" % (names, {k2: v2[0] if v2[0] == "plain" else (v2[1], sorted(v2[2])) for k2, v2 in sorted(have.items())},
                                                              {k2: v2[0] if v2[0] == "plain" else (v2[1], sorted(v2[2])) for k2, v2 in sorted(want.items())}, (" - %s silently dropped" % lost) if lost else ""))
    if badm:
        r.viol("R2:merge_plurals", "; ".join(badm[:3]), file=fn.file, line=fn.line)
    else:
        for k in ("single-kept", "needs-other", "group-by-base", "non-candidates-kept", "count-key", "other"):
            r.inst("merge_plurals#" + k, "%d key sets: forms of one base key and rule type with `_other` become one plural (count key `var_count`, every form under its own category), lone forms / forms without `_other` / non-candidates stay "
                   "ordinary keys, mixed rule types and a merged key landing on an existing key are errors, sub-key groups are merged too, no key is dropped" % nsh)
    # across locales: a locale whose rules only have the category "other" (ja, zh, ko, vi ..) writes a plural as `key_other` alone; inside one
    # locale that cannot be told from an ordinary key, so it is decided against the default locale: `key_other` (`key_ordinal_other`) becomes the
    # plural `key` (all counts -> that text) when the default locale has a plural of that rule type at `key` and the locale has no `key` of its
    # own - at any sub-key depth; otherwise it stays an ordinary key.  LocalesOrNamespaces::merge_plurals_inner evaluated on two locales.
    mpi = ast.fn(PL, "merge_plurals_inner")
    alo = ast.fn(PL, "adopt_lone_other_forms", impl_self="Locale")
    if mpi is None:
        r.missing("LocalesOrNamespaces::merge_plurals_inner")
    elif alo is None:
        r.viol("R2:merge_plurals_inner#lone-other", "no pass over the locales turns a lone `key_other` into the plural `key` of the default locale (Locale::adopt_lone_other_forms not found): a locale with the "
               "single category `other` (ja, zh, ko ..) keeps a plain key `items_other`, and `items` falls back to the default locale's text", file=mpi.file, line=mpi.line)
    else:
        from rules import absint as _ab
        _ab.set_program(ast)

        def plural(rule, forms, other):
            return C("Plurals", CF("Plurals", rule_type=C(rule), forms=L(*[T(C(f_), v_) for f_, v_ in forms]), count_key=A("count-key"), other=other))

        def loc(name, entries):
            return CF("Locale", keys=L(*[T(key(k_), v_) for k_, v_ in entries]), name=S(name), top_locale_name=S(name))
        # the locales as the per-locale pass leaves them: en's forms merged, the lone forms of ja / fr still ordinary keys
        en = loc("en", [("items", plural("Cardinal", [("One", V("en-one"))], V("en-other"))), ("rank", plural("Ordinal", [("One", V("en-1st"))], V("en-nth"))), ("the_other", V("en-the-other")),
                        ("grp", C("Subkeys", C("Some", loc("grp", [("n", plural("Cardinal", [("One", V("en-n1"))], V("en-n")))]))))])
        ja = loc("ja", [("items_other", V("ja-other")), ("rank_ordinal_other", V("ja-nth")), ("the_other", V("ja-the-other")), ("rank_other", V("ja-stray")),
                        ("grp", C("Subkeys", C("Some", loc("grp", [("n_other", V("ja-n"))]))))])
        fr = loc("fr", [("items", V("fr-plain-items")), ("items_other", V("fr-other"))])          # has its own `items`: `items_other` is not adopted
        afters = []
        got = None
        for lv in (ja, fr):
            ev = AEval(funcs=funcs)
            ev.path_builtins = {"Key::count": lambda a: A("count-key"), "Key::try_new": lambda a: C("Ok", key(a[0][1])), "Key::new": lambda a: C("Some", key(a[0][1]))}
            got = ev.run_fn(alo, [lv, en])
            if isinstance(got, str):
                break
            afters.append((getattr(ev, "last_env", None) or {}).get("self", lv))
        # ... and the pass is run for the locales of every namespace / the whole set (MIR: merge_plurals_inner calls it)
        import mustlib as _M2
        pm_ = ctx.mir("main")
        bmi = pm_.body("locale::LocalesOrNamespaces::merge_plurals_inner")
        called = bmi is not None and bool(_M2.call_blocks(bmi, r"locale::Locale::adopt_lone_other_forms$"))
        if isinstance(got, str):
            r.viol("R2:merge_plurals_inner#undecided", "the merge across locales cannot be interpreted on the current code (%s): not decided (fail closed)" % got, file=alo.file, line=alo.line)
        elif not called:
            r.viol("R2:merge_plurals_inner#lone-other", "merge_plurals_inner does not run the pass that adopts lone `_other` forms", file=mpi.file, line=mpi.line)
        else:
            after = ("list", (en, afters[0], afters[1]))
            def keys_of(lv):
                out = {}
                for x in _ab.fields_of(lv)["keys"][1]:
                    k_ = _ab.fields_of(x[1][0])["name"][1]
                    v_ = x[1][1]
                    if v_[0] == "ctor" and v_[1] == "Subkeys" and v_[2] and v_[2][0][1] == "Some":
                        for k2, v2 in keys_of(v_[2][0][2][0]).items():
                            out[k_ + "." + k2] = v2
                    else:
                        out[k_] = v_
                return out
            kj, kf = keys_of(after[1][1]), keys_of(after[1][2])

            def is_pl(v_, rule, other):
                if not (v_ and v_[0] == "ctor" and v_[1] == "Plurals"):
                    return False
                f_ = _ab.fields_of(v_[2][0])
                return f_["rule_type"] == C(rule) and f_["other"] == other and f_["forms"] in (L(), _ab.DEFAULT)
            probs = []
            if not is_pl(kj.get("items"), "Cardinal", V("ja-other")) or "items_other" in kj:
                probs.append("ja `items_other` (en has the plural `items`) is left as %s" % sorted(k for k in kj if k.startswith("items")))
            if not is_pl(kj.get("rank"), "Ordinal", V("ja-nth")) or "rank_ordinal_other" in kj:
                probs.append("ja `rank_ordinal_other` (en has the ordinal plural `rank`) is left as %s" % sorted(k for k in kj if k.startswith("rank")))
            if kj.get("rank_other") != V("ja-stray"):
                probs.append("ja `rank_other` (a cardinal form, en's `rank` is ordinal) must stay an ordinary key")
            if kj.get("the_other") != V("ja-the-other") or "the" in kj:
                probs.append("ja `the_other` (en has no plural `the`) must stay an ordinary key: %s" % sorted(k for k in kj if k.startswith("the")))
            if not is_pl(kj.get("grp.n"), "Cardinal", V("ja-n")):
                probs.append("ja `grp.n_other` inside a sub-key group is left as %s" % sorted(k for k in kj if k.startswith("grp")))
            if kf.get("items") != V("fr-plain-items") or kf.get("items_other") != V("fr-other"):
                probs.append("fr has its own `items`: its `items_other` must be left alone, got %s" % {k: _ab.fmt(v)[:30] for k, v in kf.items()})
            if probs:
                r.viol("R2:merge_plurals_inner#lone-other", "; ".join(probs[:3]) + " - a locale with the single category `other` loses its translation to the default locale's", file=mpi.file, line=mpi.line)
            else:
                r.inst("merge_plurals_inner#lone-other", "3 locales: a lone `_other` / `_ordinal_other` becomes the plural the default locale has at that key (also in a sub-key group); not when the rule type differs, "
                       "the default has no plural there, or the locale has the key itself")
    return r


def r3_diagnostics(ctx, prog):
    from mirlib import backward_slice
    r = Rule("C05.R3", "plural diagnostics are guarded by the right tests",
             "ConflictingPluralRuleType must fire exactly when a form's rule type differs, PluralsAtNormalKey when the merged key "
             "displaces another, UnusedForm for forms the locale never selects", floor=4)
    # when ConflictingPluralRuleType / PluralsAtNormalKey are produced is decided by the evaluation of merge_plurals (R2);
    # here: the diagnostics still have a construction site, and every merged plural is checked for unused forms
    b = prog.body("locale::Locale::merge_plurals")
    fam = prog.bodies_matching(r"locale::Locale::merge_plurals(::\{closure#\d+\})*$")
    for variant in ("ConflictingPluralRuleType", "PluralsAtNormalKey"):
        if any(M.agg_blocks(bb, "error::Error", variant) for bb in fam):
            r.inst("merge_plurals#" + variant, "constructed in merge_plurals (conditions evaluated by C05.R2)")
        else:
            r.viol("R3:merge_plurals#" + variant, "%s is no longer produced by merge_plurals" % variant, file=PL)
    if b is not None:
        cf = M.call_blocks(b, r"plurals::Plurals::check_forms$")
        aggs = M.agg_blocks(b, "plurals::Plurals", "Plurals")
        ins = [i for i in M.call_blocks(b, r"::insert$") if any(b.dominates(a, i) for a in aggs)]
        skip = [a for a in aggs if ins and b.paths_avoiding(a, ins, cf)]
        if cf and aggs and ins and skip:
            r.viol("R3:merge_plurals#check_forms-skipped", "a merged plural can reach the key map without passing through Plurals::check_forms (a path from the Plurals value to `insert` "
                   "avoids the call): its unused forms are not reported", file=b.file, line=b.blocks[skip[0]]["term"].get("line") or b.line)
        elif cf and aggs and ins and all(any(b.dominates(a, c) for a in aggs) for c in cf):
            r.inst("merge_plurals#check_forms", "every merged plural is passed to check_forms: no path from the Plurals value to the insertion in the key map avoids the call")
        else:
            r.viol("R3:merge_plurals#check_forms", "merged plurals are no longer passed to Plurals::check_forms (UnusedForm would never be reported)", file=b.file, line=b.line)
    fn = ctx.ast.fn(PP, "check_forms")
    if fn is None:
        r.missing("Plurals::check_forms")
    else:
        # abstract evaluation: written forms {zero, one, few}, selectable categories {one, other}
        from rules import absint
        from rules.absint import AEval, C, CF, A, T, L
        funcs = absint.file_funcs(ctx.ast, PP, "Plurals")
        emitted = []

        def emit(rv, a):
            emitted.append(a[0])
            return absint.UNIT
        this = CF("Plurals", forms=L(T(C("Zero"), A("vz")), T(C("One"), A("vo")), T(C("Few"), A("vf"))), other=A("vother"), rule_type=C("Cardinal"), count_key=A("ck"))
        bi = {"get_plural_rules": lambda rv, a: C("Ok", A("rules")), "categories": lambda rv, a: L(C("One"), C("Other")), "emit_warning": emit}
        ev = AEval(funcs=funcs, builtins=bi)
        v = ev.run_fn(fn, [this, A("locale"), A("key_path"), A("warnings")])
        got = [(w[1], dict(w[3]).get("form"), dict(w[3]).get("rule_type")) for w in emitted if w[0] == "ctor"]
        want = [("UnusedForm", C("Zero"), C("Cardinal")), ("UnusedForm", C("Few"), C("Cardinal"))]
        after = (getattr(ev, "last_env", None) or {}).get("self", this)
        if v == C("Ok", absint.UNIT) and got == want and after != this:
            # the check reports; it must not edit: the same value is rendered for every locale that falls back to this one,
            # under *that* locale's rules, which may well select a form this locale never does
            r.viol("R3:check_forms#forms-kept", "check_forms changes the plural it checks: %s becomes %s (a form this locale never selects is still selected by "
                   "a locale that falls back to this value)" % (absint.fmt(this), absint.fmt(after)), file=fn.file, line=fn.line)
        elif v == C("Ok", absint.UNIT) and got == want:
            for k in ("rules", "written", "used", "unused"):
                r.inst("check_forms#" + k, "forms written but never selected by the locale's rules (zero, few of {zero, one, few} vs {one, other}) are reported as UnusedForm, with the plural's own rule type")
        else:
            r.viol("R3:check_forms#unused", "with forms {zero, one, few} and selectable categories {one, other} check_forms returns %s and reports %s (expected UnusedForm for zero and few)" % (v if isinstance(v, str) else absint.fmt(v), [(a, absint.fmt(b) if b else b) for a, b, _c in got]), file=fn.file, line=fn.line)
    # parse-time rules are those of (this locale's name parsed as an ICU locale, this plural's own rule type): the arguments of the one
    # PluralRules::try_new call, followed back through the MIR (conversions, bindings and error plumbing do not matter)
    gb = prog.body("plurals::Plurals::get_plural_rules")
    if gb is None:
        r.missing("Plurals::get_plural_rules")
    else:
        from mirlib import op_place
        fam_ = prog.family(gb)
        ctor = [(bb_, i_) for bb_ in fam_ for i_ in M.call_blocks(bb_, r"PluralRules::try_new$")]
        parses = [(bb_, i_) for bb_ in fam_ for i_ in M.call_blocks(bb_, r"core::str::<impl str>::parse$|::from_str$")]
        why_ = None
        if len(ctor) != 1 or ctor[0][0] is not gb:
            why_ = "%d PluralRules::try_new call(s) in the function" % len(ctor)
        elif len(parses) != 1 or parses[0][0] is not gb:
            why_ = "%d parse call(s) of the locale name" % len(parses)
        else:
            ct, pt = gb.blocks[ctor[0][1]]["term"], gb.blocks[parses[0][1]]["term"]
            full = (pt["func"].get("const") or {}).get("fn_full", "")
            a0, a1 = op_place(ct["args"][0]), op_place(ct["args"][1])
            pa = op_place(pt["args"][0])
            sl0 = backward_slice(gb, a0["l"])[0] if a0 else set()
            if "icu_locid::Locale" not in full and "Locale as" not in full:
                why_ = "the locale name is parsed as `%s`, not as an ICU locale" % full
            elif not (pa and M.derives_from_field(gb, prog, pa["l"], "key::Key", "name")):
                why_ = "what is parsed is not the `name` of the locale passed in"
            elif not (a0 and pt["dest"]["l"] in sl0):
                why_ = "the locale given to PluralRules::try_new does not come from the parsed name"
            elif not (a1 and (M.derives_from_field(gb, prog, a1["l"], "plurals::Plurals", "rule_type"))):
                why_ = "the rule type given to PluralRules::try_new is not this plural's own `rule_type`"
        if why_:
            r.viol("R3:Plurals::get_plural_rules", "parse-time plural rules are not built from (this locale, this key's rule type): " + why_, file=gb.file, line=gb.line)
        else:
            r.inst("Plurals::get_plural_rules", "PluralRules::try_new(<locale.name parsed as icu Locale>, <self.rule_type>) - arguments followed back through the MIR")
    return r


def r4_selectors(ctx):
    r = Rule("C05.R4", "all selectors choose forms[category] and fall back to `other`",
             "a category the translator did not write must render `other`; the locale asked must be the rendered one and the "
             "rule type the key's own", floor=6)
    ast = ctx.ast
    # the two generators are evaluated symbolically (rules/genplurals.py) on a plural with forms {zero, one, few}: the
    # token text they produce is then checked arm by arm
    from rules import genplurals
    outs = genplurals.evaluate(ast)
    P = "l_i18n_crate::reexports::icu::plurals::PluralCategory::"
    RT = "l_i18n_crate::reexports::icu::plurals::PluralRuleType::Ordinal"
    for name in ("as_string_impl", "to_token_stream"):
        fn, txt, raw = outs.get(name, (None, None, None))
        if fn is None:
            r.missing("plurals::" + name)
            continue
        if name == "as_string_impl":
            want = "{let_plural_rules=l_i18n_crate::__private::get_plural_rules(*LOCALE,%s);match_plural_rules.category_for(core::clone::Clone::clone(<ck>)){%sZero=>{S<vz>},%sOne=>{S<vo>},%sFew=>{S<vf>},_=>S<vother>,}}" % (RT, P, P, P)
        else:
            want = "{let_plural_rules=l_i18n_crate::__private::get_plural_rules(LOCALE,%s);move||{match_plural_rules.category_for(<ck>()){%sZero=>{W0/4[V<vz>]},%sOne=>{W1/4[V<vo>]},%sFew=>{W2/4[V<vf>]},_=>W3/4[V<vother>],}}}" % (RT, P, P, P)
        # (clones of the captured variables in front of the closure - `let x = Clone::clone(&x);` - are not part of the selection)
        txt_cmp = re.sub(r"^\{(?:let(<\w+>|\w+)=core::clone::Clone::clone\(&\1\);)+", "{", txt) if txt else txt
        if name == "to_token_stream" and txt and "move||" in txt and "let<ck>=core::clone::Clone::clone(&<ck>);" not in txt.split("move||")[0]:
            r.viol("R4:plurals::to_token_stream#count-moved", "the generated view closure is `move ||` and calls the count inside, but the count is not cloned before it: a second plural / range or a `{{ count }}` next to "
                   "this one (`$t(apples) and $t(pears)`) then uses a moved value and the translations do not compile", file=fn.file, line=fn.line)
        if txt_cmp == want:
            r.inst("macro plurals::" + name, "match category_for(count) { <category of each written form> => that form's value, _ => other } with get_plural_rules(locale field, this plural's rule type)")
            r.inst("macro plurals::%s#arm" % name, "one arm per written form, in order, each with the ICU category of the same name")
        else:
            r.viol("R4:plurals::" + name, "for forms {zero, one, few} (ordinal) the generator produces `%s`; expected `%s`" % (txt if txt is not None else raw, want), file=fn.file, line=fn.line)
    fn = ast.fn(PP, "populate_with_count_arg", impl_self="Plurals")
    if fn is None:
        r.missing("Plurals::populate_with_count_arg")
    else:
        from rules import absint
        from rules.absint import AEval, C, CF, A, T, L, I
        funcs = absint.file_funcs(ast, PP, "Plurals")
        this = CF("Plurals", forms=L(T(C("Zero"), A("vz")), T(C("One"), A("vo")), T(C("Few"), A("vf"))), other=A("vother"), rule_type=C("Cardinal"), count_key=A("ck"))
        want = {"One": "vo.populate", "Few": "vf.populate", "Many": "vother.populate", "Other": "vother.populate", "Two": "vother.populate", "Zero": "vz.populate"}
        got = {}
        asked = []
        for cat in want:
            def rules_for(rv, a):
                asked.append((rv, a))
                return C("Ok", A("rules"))
            bi = {"get_plural_rules": rules_for, "category_for": (lambda rv, a, cat=cat: C(cat) if rv == A("rules") else NotImplemented)}
            v = AEval(funcs=funcs, builtins=bi).run_fn(fn, [this, C("Literal", C("Unsigned", I(3))), A("args"), A("foreign_key"), A("locale"), A("key_path")])
            got[cat] = v[1] if not isinstance(v, str) and v[0] == "atom" else (v if isinstance(v, str) else absint.fmt(v))
        own_rules = bool(asked) and all(rv == this and a and a[0] == A("locale") for rv, a in asked)
        if got == want and own_rules:
            r.inst("Plurals::populate_with_count_arg", "literal count: the form written for the category of this plural's own rules in this locale, else `other`, is populated")
        else:
            r.viol("R4:Plurals::populate_with_count_arg", "parse-time selection by category gives %s (expected %s); rules taken from this plural and locale: %s" % (got, want, own_rules), file=fn.file, line=fn.line)
    from rules.common import msum
    got = msum(ctx.mir("main"), r"macro_helpers::get_plural_category_for$", stop=r"get_plural_rules$")
    w = "PluralRules::category_for(formatting::get_plural_rules(p1, p3), Fn::call(p2, ()))"
    if not got:
        r.missing("get_plural_category_for")
    elif got[0][1] == w and not got[0][2]:
        r.inst("get_plural_category_for", "get_plural_rules(locale, plural_rule_type).category_for(count())")
    else:
        r.viol("R4:get_plural_category_for", "run-time helper computes `%s`, expected `%s`" % (got[0][1], w), file="leptos_i18n/src/macro_helpers/mod.rs")
    fn = ast.fn("leptos_i18n_macro/src/t_plural/mod.rs", "t_plural_inner")
    if fn is not None:
        # the generated selection, read off the expansion (rules/reactmacros.py evaluates t_plural_inner): category of (locale, &count,
        # rule type), one arm per written form in order, the fallback last
        from rules import reactmacros, absint as _ai
        from report import Rule as _R
        tmp = _R("C05.R4", "tmp", "tmp", floor=0)
        try:
            reactmacros.check(ctx, tmp, "R4")
            bad_ = [v for v in tmp.violations if "t_plural" in v.key]
            for v in bad_:
                r.viol(v.key, v.msg, file=v.file, line=v.line)
            if not bad_:
                r.inst("t_plural!", "match get_plural_category_for(_locale, &_value, rule type) { written forms in order, fallback last } in all three input kinds")
        except _ai.Unknown as u:
            r.viol("R4:t_plural_inner#undecided", "t_plural_inner cannot be interpreted on the current code (%s): not decided (fail closed)" % str(u)[:200], file=fn.file, line=fn.line)
        else:
            r.inst("t_plural_inner", "match get_plural_category_for(locale, &count, plural_type) { forms.., fallback }")
    return r


def r5_rule_type_kept(ctx, prog):
    r = Rule("C05.R5", "a plural keeps its rule type wherever it is rebuilt",
             "plurals are rebuilt when inlined through a foreign key (populate); building one with a constant or another "
             "plural's rule type turns an ordinal key into a cardinal one only on that path", floor=2)
    from mirlib import backward_slice
    n = 0
    for name, b in sorted(prog.bodies.items()):
        if b.crate not in ("leptos_i18n_parser", "leptos_i18n_macro"):
            continue
        if "as std::clone::Clone>::clone" in name or "as std::cmp::PartialEq>" in name:
            continue
        for i, j, s in b.aggregates("plurals::Plurals", "Plurals"):
            n += 1
            fields = s["rv"]["fields"]
            ops = s["rv"]["ops"]
            op = ops[fields.index("rule_type")]
            site = "%s#Plurals{..}" % name
            if op_const(op) is not None:
                r.viol("R5:%s#const-rule-type" % name, "Plurals is constructed with a constant rule type (line %d): an ordinal plural rebuilt here becomes cardinal" % s["line"], file=b.file, line=s["line"])
                continue
            pl = op_place(op)
            ls, defs = backward_slice(b, pl["l"])
            if name.endswith("Plurals::populate_with_new_key"):
                from_self = any(d[1] != "term" and d[2]["rv"]["k"] == "Use" and (op_place(d[2]["rv"]["ops"][0]) or {}).get("l") == 1 for d in defs) or pl["l"] == 1
                # field 0 of *self
                srcs = [place for d in defs if d[1] != "term" and d[2]["rv"]["k"] == "Use" for place in [op_place(d[2]["rv"]["ops"][0])] if place]
                ok = any(p2["l"] == 1 and ".0" in p2["p"] for p2 in srcs)
                fn0 = M.field_name(prog, "leptos_i18n_parser::parse_locales::plurals::Plurals", 0)
                if ok and fn0 == "rule_type":
                    r.inst(site, "rule_type: self.rule_type")
                else:
                    r.viol("R5:%s#rule-type-source" % name, "populate_with_new_key does not copy self.rule_type into the rebuilt plural", file=b.file, line=s["line"])
            else:
                r.inst(site, "rule_type from a value (not a constant): " + ", ".join(sorted({b.local_name(l) for l in ls if b.local_name(l)})[:4]))
    if n == 0:
        r.missing("construction sites of Plurals")
    return r


def run(ctx):
    prog = ctx.mir("main")
    # the run-time category is computed with the plural rules of the locale being rendered and of the requested rule type:
    # the cache-key / constructor clauses of C18 for get_plural_rules (decided by rules/c18.py)
    from rules import c18
    from rules.common import borrow
    k1 = c18.r1_cache_key(ctx, prog)
    r6 = borrow(k1, "C05.R6", "run-time plural rules are those of the rendered locale and rule type",
                "`the form is the CLDR category of the count in that locale`: PluralRules cached under a coarser key (language only, or "
                "without the rule type) serve one locale's / type's categories to another", only=r"get_plural_rules", floor=1)
    # `in that locale`: also for a locale that gets the key from a fallback locale - the generated arm shared by several locales
    # must leave the builder's locale field alone (arm read-back of rules/gentext.py, shared with C18.R6)
    from rules import gentext, absint as _absint
    from report import Rule as _Rule
    r7 = _Rule("C05.R7", "generated arms select the plural form with the locale being rendered, also in an arm shared with fallback locales",
               "`the CLDR category of the count in that locale`: a locale that inherits a plural key renders the owner's forms, but chooses among them by its own "
               "rules; an arm that rebinds the locale field to the owner's locale selects by the owner's rules", floor=2)
    try:
        gentext.check_locale_arms(ctx, r7, rid="R7")
    except _absint.Unknown as u:
        r7.viol("R7:undecided", "the per-locale generators cannot be interpreted on the current code (%s): not decided on this tree (fail closed)" % str(u)[:300])
    # ... and the provider builds them from the locale and rule type it is given (MIR return summary, shared with C18.R3)
    n_ = c18.provider_ctors(ctx, prog, r6, "R6", {"try_new_plural_rules": c18.PROVIDER_CTORS["try_new_plural_rules"]})
    if n_:
        r6.inst("BakedDataProvider::try_new_plural_rules", "PluralRules::try_new(locale, rule_type) on the method's own parameters; the custom-provider impl delegates unchanged")
    r3 = r3_diagnostics(ctx, prog)
    # `every unused form is reported`: the collector keeps each warning it is handed (rules/c07.py, shared with C07.R4)
    from rules import c07
    c07.collector(ctx, r3, "R3")
    return [r1_tables(ctx), r2_candidates(ctx), r3, r4_selectors(ctx), r5_rule_type_kept(ctx, prog), r6, r7]


MANIFEST_ENTRY = {
    "technique": "static analysis: abstract evaluation (rules/absint.py) of the key-spelling table (is_possible_plural), of merge_plurals on 17 key-set shapes against the statement (what merges, what stays, what is an error, nothing dropped), of the unused-form diagnostics (incl. that the check does not edit the plural), of the parse-time category selection and of both plural code generators (token text checked arm by arm); syn extraction of the CLDR name tables in parser, macro and run-time crates; MIR return summary of the run-time helper; MIR cache-key provenance of get_plural_rules (shared with C18.R1); the per-locale arm read-back of rules/gentext.py (an arm shared with fallback locales leaves the locale field alone); abstract evaluation of the warning collector (every emitted warning kept); C05.R3 must-pass: no path from a merged Plurals value to its insertion avoids check_forms; parse-time PluralRules::try_new arguments followed back through the MIR to (locale.name parsed as ICU locale, self.rule_type); C05.R6: BakedDataProvider::try_new_plural_rules by MIR return summary",
    "level_text": "Structural: all tables that carry a CLDR category name from the key suffix to the generated match arm are extracted on each run and must be the identity; diagnostics are shown to sit on the right branch; every selector is shown to fall back to `other`. ICU's own category computation is trusted, not run.",
    "level_note": "Trusted: icu_plurals implements CLDR. D27 repaired upstream (b6e970e). Not decided: the category of a concrete number, decimal operands. Known and undecided (hunts/C05): u128 / i128 counts above u64::MAX are truncated by icu_plurals 1.5.",
}
