"""C05 Plural forms are selected by the locale's CLDR plural rules."""
import re

from report import Rule
from mirlib import callee_name, op_const, op_place
import mustlib as M
from astlib import find_all, find_first, show, show_pat, quotes_in, tok_text, norm, callee_path, method_chain

EXPLANATION = (
    "Static structural analysis (syntax facts + MIR), nothing executed. Decided clauses: (R1) the six plural forms and two "
    "rule types are written in eight tables (suffix parsing, Display, ICU category -> form, parser form -> macro form, "
    "macro form -> generated PluralCategory, rule-type conversions, t_plural! form names, macro entry points) and every "
    "table is the identity on names. (R2) a key is a plural candidate iff it ends in _<form> (optionally preceded by "
    "_ordinal => Ordinal else Cardinal) and its value is not a range, a subkey group or null; candidates are merged only "
    "when there are at least two and `other` is among them. (R3) mixing rule types yields ConflictingPluralRuleType (false "
    "side of rule == rule_type), displacing an existing key yields PluralsAtNormalKey, forms outside the locale's "
    "categories yield UnusedForm. (R4) all three selectors (view generator, string generator, parse-time literal count) "
    "pick `forms[category]` and fall back to `other`, asking get_plural_rules for the rendered locale and this key's rule "
    "type. NOT decided: the CLDR category of a number (ICU4X), decimal operands, ICU data availability."
)
ASSUMPTIONS = ["icu_plurals::PluralRules::category_for / categories implement CLDR", "PluralCategory variant names are the CLDR category names"]

PP = "leptos_i18n_parser/src/parse_locales/plurals.rs"
PL = "leptos_i18n_parser/src/parse_locales/locale.rs"
MP = "leptos_i18n_macro/src/load_locales/plurals.rs"
FORMS = ["Zero", "One", "Two", "Few", "Many", "Other"]
RULES = ["Cardinal", "Ordinal"]


def flat(s):
    return re.sub(r"\s+", "", s)


from rules.common import flatp, has, same, xquotes  # noqa: E402


def last_seg(path):
    return path.split("::")[-1]


def match_table(node):
    """[(pattern last segment or literal, body text, arm)] of the first match below node"""
    m = find_first(node, "Match")
    out = []
    for a in (m or {"arms": []})["arms"]:
        p = a["pat"]
        if p["k"] in ("PPath", "PTupleStruct", "PStruct"):
            key = last_seg(p["path"])
        elif p["k"] == "PLit":
            key = p["text"]
        elif p["k"] == "PWild":
            key = "_"
        else:
            key = show_pat(p)
        out.append((key, a["body"], a))
    return out


def body_variant(body):
    """last path segment mentioned as the result of an arm: Path / Call(Some, Path) / quote!(.. :: X) / write!(f, "..")"""
    if body["k"] == "Block" and len(body["stmts"]) == 1:
        s = body["stmts"][0]
        body = s.get("expr", s)
    if body["k"] == "Path":
        return last_seg(body["path"])
    if body["k"] == "Call" and body["args"] and body["args"][0]["k"] == "Path":
        return show(body["func"]) + ":" + last_seg(body["args"][0]["path"])
    if body["k"] == "Macro" and body["path"] in ("quote",):
        toks = [t for t in body["tokens"] if t["t"] == "ident"]
        return "quote:" + (toks[-1]["v"] if toks else "")
    if body["k"] == "Macro" and body["path"] in ("write",):
        lits = [a for a in body.get("args", []) if a["k"] == "Lit"]
        return "write:" + (lits[0].get("str", "") if lits else "")
    return show(body)


def identity_table(r, key, fn, names, expect, wildcard=None):
    """expect: function variant name -> expected body_variant"""
    if fn is None:
        r.missing(key)
        return
    tab = match_table(fn.body)
    seen = {}
    for k, body, arm in tab:
        seen[k] = body_variant(body)
    ok = True
    for n in names:
        src, want = expect(n)
        got = seen.get(src)
        if got != want:
            ok = False
            r.viol("R1:%s#%s" % (key, n), "%s maps %s to `%s`, expected `%s`" % (key, src, got, want), file=fn.file, line=fn.line)
    if wildcard is not None:
        if seen.get("_") != wildcard:
            ok = False
            r.viol("R1:%s#_" % key, "%s fallback arm is `%s`, expected `%s`" % (key, seen.get("_"), wildcard), file=fn.file, line=fn.line)
    extra = set(seen) - {expect(n)[0] for n in names} - ({"_"} if wildcard is not None else set())
    if extra:
        ok = False
        r.viol("R1:%s#extra" % key, "%s has unexpected arms %s" % (key, sorted(extra)), file=fn.file, line=fn.line)
    if ok:
        r.inst(key, "identity on names for %s" % ", ".join(names))


def r1_tables(ctx):
    r = Rule("C05.R1", "plural form / rule-type tables are the identity on CLDR names",
             "the form written as a key suffix must be the form ICU reports for the count; a single crossed entry in any of "
             "the tables (e.g. few -> Many) renders the wrong text for exactly the locales that use that category, which the "
             "en/fr fixtures never do", floor=12)
    ast = ctx.ast
    identity_table(r, "PluralForm::try_from_str", ast.fn(PP, "try_from_str"), FORMS,
                   lambda n: ('"%s"' % n.lower(), "Some:" + n), wildcard="None")
    fn = ast.fn(PP, "fmt", impl_self="PluralForm", impl_trait="Display")
    identity_table(r, "Display for PluralForm", fn, FORMS, lambda n: (n, "write:_" + n.lower()))
    fn = ast.fn(PP, "fmt", impl_self="PluralRuleType", impl_trait="Display")
    identity_table(r, "Display for PluralRuleType", fn, RULES, lambda n: (n, "write:" + n.lower()))
    identity_table(r, "PluralForm::from_icu_category", ast.fn(PP, "from_icu_category"), FORMS, lambda n: (n, n))
    identity_table(r, "parser From<PluralRuleType> for IcuRuleType", ast.fn(PP, "from", impl_self="IcuRuleType"), RULES, lambda n: (n, n))
    identity_table(r, "macro From<parser PluralForm>", ast.fn(MP, "from", impl_self="PluralForm"), FORMS, lambda n: (n, n))
    identity_table(r, "macro From<parser PluralRuleType>", ast.fn(MP, "from", impl_self="PluralRuleType"), RULES, lambda n: (n, n))
    identity_table(r, "macro PluralForm::to_token_stream", ast.fn(MP, "to_token_stream", impl_self="PluralForm"), FORMS, lambda n: (n, "quote:" + n))
    identity_table(r, "macro PluralRuleType::to_token_stream", ast.fn(MP, "to_token_stream", impl_self="PluralRuleType"), RULES, lambda n: (n, "quote:" + n))
    for key, fname, ty in (("macro PluralForm", "to_token_stream", "PluralForm"), ("macro PluralRuleType", "to_token_stream", "PluralRuleType")):
        fn = ast.fn(MP, fname, impl_self=ty)
        if fn:
            for q in xquotes(fn.body):
                t = tok_text(q["tokens"])
                want = "PluralCategory" if ty == "PluralForm" else "PluralRuleType"
                if ("icu :: plurals :: " + want + " ::") not in t:
                    r.viol("R1:%s#enum" % key, "generated path `%s` is not icu::plurals::%s::*" % (t, want), file=fn.file, line=fn.line)
    # t_plural! form names
    fn = ast.fn("leptos_i18n_macro/src/t_plural/parsed_input.rs", "parse_plural_form")
    if fn is None:
        r.missing("t_plural parse_plural_form")
    else:
        got = {}
        for n in find_all(fn.body, "If"):
            c = n["cond"]
            if c["k"] == "Binary" and c["op"] == "==" and c["right"]["k"] == "Lit":
                st = n["then"]["stmts"]
                if len(st) == 1:
                    got[c["right"].get("str")] = show(st[0].get("expr", st[0]))
        ok = True
        for f in FORMS:
            if got.get(f.lower()) != "PluralForm::" + f:
                ok = False
                r.viol("R1:t_plural#" + f, "t_plural! form name \"%s\" maps to %s" % (f.lower(), got.get(f.lower())), file=fn.file, line=fn.line)
        if ok:
            r.inst("t_plural! form names", "identity for " + ", ".join(FORMS))
    # entry points
    lib = [f for f in ast.fns if f.file.endswith("leptos_i18n_macro/src/lib.rs")]
    want = {"t_plural": ("Context", "Cardinal"), "tu_plural": ("Untracked", "Cardinal"), "td_plural": ("Locale", "Cardinal"),
            "t_plural_ordinal": ("Context", "Ordinal"), "tu_plural_ordinal": ("Untracked", "Ordinal"), "td_plural_ordinal": ("Locale", "Ordinal")}
    for f in lib:
        if f.name in want:
            calls = [c for c in find_all(f.body, "Call") if (callee_path(c) or "").endswith("t_plural::t_plural")]
            if len(calls) != 1:
                r.viol("R1:entry#" + f.name, "entry point does not call t_plural::t_plural once", file=f.file, line=f.line)
                continue
            args = [show(a) for a in calls[0]["args"]]
            got = (last_seg(args[1]), last_seg(args[2]))
            if got != want[f.name]:
                r.viol("R1:entry#" + f.name, "%s! uses (%s, %s), expected %s" % (f.name, got[0], got[1], want[f.name]), file=f.file, line=f.line)
            else:
                r.inst("entry " + f.name + "!", "input %s, rule type %s" % got)
    return r


def r2_candidates(ctx):
    r = Rule("C05.R2", "which keys are plural candidates and when they merge",
             "a key that merely ends in _one must stay a normal key unless a sibling _other exists; ordinal/cardinal is read "
             "from the `_ordinal` infix; ranges, subkeys and null are never forms", floor=6)
    ast = ctx.ast
    fn = ast.fn(PL, "is_possible_plural")
    if fn is None:
        r.missing("Locale::is_possible_plural")
        return r
    # abstract evaluation (rules/absint.py): one key name per spelling class, one value per kind
    from rules import absint
    from rules.absint import AEval, C, CF, A, T
    funcs = dict(absint.file_funcs(ast, PP))
    funcs.update(absint.file_funcs(ast, PL, "Locale"))

    def key(name):
        return CF("Key", name=("str", name))
    lit = C("Literal", A("s"))
    names = {
        "k_one": ("k", "Cardinal", "One"), "k_other": ("k", "Cardinal", "Other"), "k_zero": ("k", "Cardinal", "Zero"), "k_two": ("k", "Cardinal", "Two"),
        "k_few": ("k", "Cardinal", "Few"), "k_many": ("k", "Cardinal", "Many"), "a_b_many": ("a_b", "Cardinal", "Many"),
        "k_ordinal_few": ("k", "Ordinal", "Few"), "k_ordinal_other": ("k", "Ordinal", "Other"), "a_b_ordinal_one": ("a_b", "Ordinal", "One"),
        "k": None, "k_foo": None, "one": None, "k_ordinal": None, "k_One": None,
    }
    bad = []
    for nm, want in names.items():
        v = AEval(funcs=funcs).run_fn(fn, [key(nm), lit])
        w = C("Some", T(("str", want[0]), C(want[1]), C(want[2]))) if want else C("None")
        if v != w:
            bad.append((nm, absint.fmt(v), absint.fmt(w)))
    if not bad:
        r.inst("is_possible_plural#suffix", "%d key spellings: <base>_<form> with an optional _ordinal infix, anything else is a normal key" % len(names))
        r.inst("is_possible_plural#ordinal", "`_ordinal` infix -> ordinal rule type, else cardinal")
        r.inst("is_possible_plural#form", "suffix must be one of the six CLDR form names")
    else:
        for nm, got, want in bad[:5]:
            r.viol("R2:is_possible_plural#" + nm, "key `%s` is read as %s, documented: %s" % (nm, got, want), file=fn.file, line=fn.line)
    kinds = []
    for kind, val in (("Ranges", C("Ranges", A("r"))), ("Subkeys", C("Subkeys", C("None"))), ("Default", C("Default")), ("Literal", lit), ("Bloc", C("Bloc", A("b"))), ("Variable", CF("Variable", key=A("k"), formatter=A("f")))):
        v = AEval(funcs=funcs).run_fn(fn, [key("k_one"), val])
        if v == C("None"):
            kinds.append(kind)
    if sorted(kinds) == ["Default", "Ranges", "Subkeys"]:
        r.inst("is_possible_plural#excluded", "excluded value kinds: " + ", ".join(sorted(kinds)))
    else:
        r.viol("R2:is_possible_plural#excluded", "value kinds excluded from plural candidates are %s (must be Ranges, Subkeys, Default)" % sorted(kinds), file=fn.file, line=fn.line)
    fn = ast.fn(PL, "merge_plurals", impl_self="Locale")
    if fn is None:
        r.missing("Locale::merge_plurals")
        return r
    t = flatp(show(fn.body))
    steps = {
        "single-kept": "ifplurals.len==1{for_,key,_,valueinplurals{self.keys.insertkey,value;};continue;}",
        "needs-other": "letSome_,rule_type,other=plurals.remove&PluralForm::Otherelse{for_,key,_,valueinplurals{self.keys.insertkey,value;};continue;}",
        "group-by-base": "letmap=possible_plurals.entrybase_key.to_owned.or_default;map.insertplural_form,key,rule_type,value;",
        "non-candidates-kept": "else{self.keys.insertkey,value;}",
        "count-key": "count_key:Key::count",
        "other": "other:Box::newother",
    }
    for k, frag in steps.items():
        if has(t, frag):
            r.inst("merge_plurals#" + k, frag[:80])
        else:
            r.viol("R2:merge_plurals#" + k, "step `%s` not found in merge_plurals" % frag[:80], file=fn.file, line=fn.line)
    return r


def r3_diagnostics(ctx, prog):
    r = Rule("C05.R3", "plural diagnostics are guarded by the right tests",
             "ConflictingPluralRuleType must fire exactly when a form's rule type differs, PluralsAtNormalKey when the merged key "
             "displaces another, UnusedForm for forms the locale never selects", floor=4)
    fam = prog.bodies_matching(r"locale::Locale::merge_plurals(::\{closure#\d+\})*$")
    got_conflict = False
    for b in fam:
        errs = M.agg_blocks(b, "error::Error", "ConflictingPluralRuleType")
        if not errs:
            continue
        eqs = M.call_blocks(b, r"PluralRuleType as std::cmp::PartialEq>::eq$")
        for c in eqs:
            rsw = M.result_switch(b, c)
            if not rsw:
                continue
            swb, t_true, t_false = rsw
            oks = [i for i, j, s in b.aggregates("std::result::Result", "Ok")]
            if any(M.exclusive_reach(b, t_false, e, t_true) for e in errs) and any(M.exclusive_reach(b, t_true, o, t_false) for o in oks) and not any(M.exclusive_reach(b, t_true, e, t_false) for e in errs) and not any(M.exclusive_reach(b, t_false, o, t_true) for o in oks):
                got_conflict = True
                r.inst(b.name + "#ConflictingPluralRuleType", "rule == rule_type: false side -> Err(ConflictingPluralRuleType), true side -> Ok((form, value))")
    if not got_conflict:
        r.viol("R3:merge_plurals#ConflictingPluralRuleType", "ConflictingPluralRuleType is not produced on (exactly) the false side of `rule == rule_type`", file=PL)
    b = prog.body("locale::Locale::merge_plurals")
    if b is not None:
        errs = M.agg_blocks(b, "error::Error", "PluralsAtNormalKey")
        ins = M.call_blocks(b, r"BTreeMap::<K, V, A>::insert$")
        issome = M.call_blocks(b, r"std::option::Option::<T>::is_some$")
        ok = False
        for c in issome:
            rsw = M.result_switch(b, c)
            if rsw and errs and any(M.exclusive_reach(b, rsw[1], e, rsw[2]) for e in errs) and not any(M.exclusive_reach(b, rsw[2], e, rsw[1]) for e in errs):
                # the tested option is the result of an insert
                arg = op_place(b.blocks[c]["term"]["args"][0])
                from mirlib import backward_slice
                ls, defs = backward_slice(b, arg["l"])
                if any(j == "term" and (callee_name(s) or "").endswith("BTreeMap::<K, V, A>::insert") for (i, j, s) in defs):
                    ok = True
        if ok:
            r.inst("merge_plurals#PluralsAtNormalKey", "self.keys.insert(key, plural).is_some() -> true side -> Err(PluralsAtNormalKey)")
        else:
            r.viol("R3:merge_plurals#PluralsAtNormalKey", "PluralsAtNormalKey is not produced on the true side of `keys.insert(..).is_some()`", file=b.file, line=b.line)
        cf = M.call_blocks(b, r"plurals::Plurals::check_forms$")
        aggs = M.agg_blocks(b, "plurals::Plurals", "Plurals")
        if cf and aggs and all(any(b.dominates(a, c) for a in aggs) for c in cf):
            r.inst("merge_plurals#check_forms", "every merged plural is passed to check_forms")
        else:
            r.viol("R3:merge_plurals#check_forms", "merged plurals are no longer passed to Plurals::check_forms (UnusedForm would never be reported)", file=b.file, line=b.line)
    fn = ctx.ast.fn(PP, "check_forms")
    if fn is None:
        r.missing("Plurals::check_forms")
    else:
        # abstract evaluation: written forms {zero, one, few}, selectable categories {one, other}
        from rules import absint
        from rules.absint import AEval, C, CF, A, T, L
        funcs = absint.file_funcs(ctx.ast, PP, "Plurals")
        emitted = []

        def emit(rv, a):
            emitted.append(a[0])
            return absint.UNIT
        this = CF("Plurals", forms=L(T(C("Zero"), A("vz")), T(C("One"), A("vo")), T(C("Few"), A("vf"))), other=A("vother"), rule_type=C("Cardinal"), count_key=A("ck"))
        bi = {"get_plural_rules": lambda rv, a: C("Ok", A("rules")), "categories": lambda rv, a: L(C("One"), C("Other")), "emit_warning": emit}
        ev = AEval(funcs=funcs, builtins=bi)
        v = ev.run_fn(fn, [this, A("locale"), A("key_path"), A("warnings")])
        got = [(w[1], dict(w[3]).get("form"), dict(w[3]).get("rule_type")) for w in emitted if w[0] == "ctor"]
        want = [("UnusedForm", C("Zero"), C("Cardinal")), ("UnusedForm", C("Few"), C("Cardinal"))]
        after = (getattr(ev, "last_env", None) or {}).get("self", this)
        if v == C("Ok", absint.UNIT) and got == want and after != this:
            # the check reports; it must not edit: the same value is rendered for every locale that falls back to this one,
            # under *that* locale's rules, which may well select a form this locale never does
            r.viol("R3:check_forms#forms-kept", "check_forms changes the plural it checks: %s becomes %s (a form this locale never selects is still selected by "
                   "a locale that falls back to this value)" % (absint.fmt(this), absint.fmt(after)), file=fn.file, line=fn.line)
        elif v == C("Ok", absint.UNIT) and got == want:
            for k in ("rules", "written", "used", "unused"):
                r.inst("check_forms#" + k, "forms written but never selected by the locale's rules (zero, few of {zero, one, few} vs {one, other}) are reported as UnusedForm, with the plural's own rule type")
        else:
            r.viol("R3:check_forms#unused", "with forms {zero, one, few} and selectable categories {one, other} check_forms returns %s and reports %s (expected UnusedForm for zero and few)" % (v if isinstance(v, str) else absint.fmt(v), [(a, absint.fmt(b) if b else b) for a, b, _c in got]), file=fn.file, line=fn.line)
    fn = ctx.ast.fn(PP, "get_plural_rules", impl_self="Plurals")
    if fn is not None:
        t = flatp(show(fn.body))
        if not has(t, "PluralRules::try_new&locale.into,self.rule_type.into") or not has(t, "locale.name.parse::<icu_locid::Locale>"):
            r.viol("R3:Plurals::get_plural_rules", "parse-time plural rules are not built from (this locale, this key's rule type)", file=fn.file, line=fn.line)
        else:
            r.inst("Plurals::get_plural_rules", "PluralRules::try_new(&locale, self.rule_type)")
    return r


def r4_selectors(ctx):
    r = Rule("C05.R4", "all selectors choose forms[category] and fall back to `other`",
             "a category the translator did not write must render `other`; the locale asked must be the rendered one and the "
             "rule type the key's own", floor=6)
    ast = ctx.ast
    # the two generators are evaluated symbolically (rules/genplurals.py) on a plural with forms {zero, one, few}: the
    # token text they produce is then checked arm by arm
    from rules import genplurals
    outs = genplurals.evaluate(ast)
    P = "l_i18n_crate::reexports::icu::plurals::PluralCategory::"
    RT = "l_i18n_crate::reexports::icu::plurals::PluralRuleType::Ordinal"
    for name in ("as_string_impl", "to_token_stream"):
        fn, txt, raw = outs.get(name, (None, None, None))
        if fn is None:
            r.missing("plurals::" + name)
            continue
        if name == "as_string_impl":
            want = "{let_plural_rules=l_i18n_crate::__private::get_plural_rules(*LOCALE,%s);match_plural_rules.category_for(core::clone::Clone::clone(<ck>)){%sZero=>{S<vz>},%sOne=>{S<vo>},%sFew=>{S<vf>},_=>S<vother>,}}" % (RT, P, P, P)
        else:
            want = "{let_plural_rules=l_i18n_crate::__private::get_plural_rules(LOCALE,%s);move||{match_plural_rules.category_for(<ck>()){%sZero=>{W0/4[V<vz>]},%sOne=>{W1/4[V<vo>]},%sFew=>{W2/4[V<vf>]},_=>W3/4[V<vother>],}}}" % (RT, P, P, P)
        if txt == want:
            r.inst("macro plurals::" + name, "match category_for(count) { <category of each written form> => that form's value, _ => other } with get_plural_rules(locale field, this plural's rule type)")
            r.inst("macro plurals::%s#arm" % name, "one arm per written form, in order, each with the ICU category of the same name")
        else:
            r.viol("R4:plurals::" + name, "for forms {zero, one, few} (ordinal) the generator produces `%s`; expected `%s`" % (txt if txt is not None else raw, want), file=fn.file, line=fn.line)
    fn = ast.fn(PP, "populate_with_count_arg", impl_self="Plurals")
    if fn is None:
        r.missing("Plurals::populate_with_count_arg")
    else:
        from rules import absint
        from rules.absint import AEval, C, CF, A, T, L, I
        funcs = absint.file_funcs(ast, PP, "Plurals")
        this = CF("Plurals", forms=L(T(C("Zero"), A("vz")), T(C("One"), A("vo")), T(C("Few"), A("vf"))), other=A("vother"), rule_type=C("Cardinal"), count_key=A("ck"))
        want = {"One": "vo.populate", "Few": "vf.populate", "Many": "vother.populate", "Other": "vother.populate", "Two": "vother.populate", "Zero": "vz.populate"}
        got = {}
        asked = []
        for cat in want:
            def rules_for(rv, a):
                asked.append((rv, a))
                return C("Ok", A("rules"))
            bi = {"get_plural_rules": rules_for, "category_for": (lambda rv, a, cat=cat: C(cat))}
            v = AEval(funcs=funcs, builtins=bi).run_fn(fn, [this, C("Literal", C("Unsigned", I(3))), A("args"), A("foreign_key"), A("locale"), A("key_path")])
            got[cat] = v[1] if not isinstance(v, str) and v[0] == "atom" else (v if isinstance(v, str) else absint.fmt(v))
        own_rules = bool(asked) and all(rv == this and a and a[0] == A("locale") for rv, a in asked)
        if got == want and own_rules:
            r.inst("Plurals::populate_with_count_arg", "literal count: the form written for the category of this plural's own rules in this locale, else `other`, is populated")
        else:
            r.viol("R4:Plurals::populate_with_count_arg", "parse-time selection by category gives %s (expected %s); rules taken from this plural and locale: %s" % (got, want, own_rules), file=fn.file, line=fn.line)
    from rules.common import msum
    got = msum(ctx.mir("main"), r"macro_helpers::get_plural_category_for$", stop=r"get_plural_rules$")
    w = "PluralRules::category_for(formatting::get_plural_rules(p1, p3), Fn::call(p2, ()))"
    if not got:
        r.missing("get_plural_category_for")
    elif got[0][1] == w and not got[0][2]:
        r.inst("get_plural_category_for", "get_plural_rules(locale, plural_rule_type).category_for(count())")
    else:
        r.viol("R4:get_plural_category_for", "run-time helper computes `%s`, expected `%s`" % (got[0][1], w), file="leptos_i18n/src/macro_helpers/mod.rs")
    fn = ast.fn("leptos_i18n_macro/src/t_plural/mod.rs", "t_plural_inner")
    if fn is not None:
        qs = [re.sub(r"\s+", "", tok_text(q["tokens"])) for q in xquotes(fn.body)]
        if not any(q.startswith("matchleptos_i18n::__private::get_plural_category_for(#locale_ident,&#count_ident,#plural_type){#(#match_arms,)*#fallback,}") for q in qs):
            r.viol("R4:t_plural_inner", "t_plural! template changed", file=fn.file, line=fn.line)
        else:
            r.inst("t_plural_inner", "match get_plural_category_for(locale, &count, plural_type) { forms.., fallback }")
    return r


def r5_rule_type_kept(ctx, prog):
    r = Rule("C05.R5", "a plural keeps its rule type wherever it is rebuilt",
             "plurals are rebuilt when inlined through a foreign key (populate); building one with a constant or another "
             "plural's rule type turns an ordinal key into a cardinal one only on that path", floor=2)
    from mirlib import backward_slice
    n = 0
    for name, b in sorted(prog.bodies.items()):
        if b.crate not in ("leptos_i18n_parser", "leptos_i18n_macro"):
            continue
        if "as std::clone::Clone>::clone" in name or "as std::cmp::PartialEq>" in name:
            continue
        for i, j, s in b.aggregates("plurals::Plurals", "Plurals"):
            n += 1
            fields = s["rv"]["fields"]
            ops = s["rv"]["ops"]
            op = ops[fields.index("rule_type")]
            site = "%s#Plurals{..}" % name
            if op_const(op) is not None:
                r.viol("R5:%s#const-rule-type" % name, "Plurals is constructed with a constant rule type (line %d): an ordinal plural rebuilt here becomes cardinal" % s["line"], file=b.file, line=s["line"])
                continue
            pl = op_place(op)
            ls, defs = backward_slice(b, pl["l"])
            if name.endswith("Plurals::populate_with_new_key"):
                from_self = any(d[1] != "term" and d[2]["rv"]["k"] == "Use" and (op_place(d[2]["rv"]["ops"][0]) or {}).get("l") == 1 for d in defs) or pl["l"] == 1
                # field 0 of *self
                srcs = [place for d in defs if d[1] != "term" and d[2]["rv"]["k"] == "Use" for place in [op_place(d[2]["rv"]["ops"][0])] if place]
                ok = any(p2["l"] == 1 and ".0" in p2["p"] for p2 in srcs)
                fn0 = M.field_name(prog, "leptos_i18n_parser::parse_locales::plurals::Plurals", 0)
                if ok and fn0 == "rule_type":
                    r.inst(site, "rule_type: self.rule_type")
                else:
                    r.viol("R5:%s#rule-type-source" % name, "populate_with_new_key does not copy self.rule_type into the rebuilt plural", file=b.file, line=s["line"])
            else:
                r.inst(site, "rule_type from a value (not a constant): " + ", ".join(sorted({b.local_name(l) for l in ls if b.local_name(l)})[:4]))
    if n == 0:
        r.missing("construction sites of Plurals")
    return r


def run(ctx):
    prog = ctx.mir("main")
    # the run-time category is computed with the plural rules of the locale being rendered and of the requested rule type:
    # the cache-key / constructor clauses of C18 for get_plural_rules (decided by rules/c18.py)
    from rules import c18
    from rules.common import borrow
    k1 = c18.r1_cache_key(ctx, prog)
    r6 = borrow(k1, "C05.R6", "run-time plural rules are those of the rendered locale and rule type",
                "`the form is the CLDR category of the count in that locale`: PluralRules cached under a coarser key (language only, or "
                "without the rule type) serve one locale's / type's categories to another", only=r"get_plural_rules", floor=1)
    return [r1_tables(ctx), r2_candidates(ctx), r3_diagnostics(ctx, prog), r4_selectors(ctx), r5_rule_type_kept(ctx, prog), r6]


MANIFEST_ENTRY = {
    "technique": "static analysis: abstract evaluation (rules/absint.py) of the key-spelling table (is_possible_plural), the unused-form diagnostics, the parse-time category selection and both plural code generators (token text checked arm by arm); syn extraction of the CLDR name tables in parser, macro and run-time crates; MIR branch polarity of the plural diagnostics; MIR return summary of the run-time helper; MIR cache-key provenance of get_plural_rules (the run-time rules are those of the rendered locale and rule type)",
    "level_text": "Structural: all tables that carry a CLDR category name from the key suffix to the generated match arm are extracted on each run and must be the identity; diagnostics are shown to sit on the right branch; every selector is shown to fall back to `other`. ICU's own category computation is trusted, not run.",
    "level_note": "Trusted: icu_plurals implements CLDR. Not decided: the category of a concrete number, decimal operands.",
}
